#!/bin/sh
# Builds every worker binary from files on disk only (offline).
set -e
cd "$(dirname "$0")"
export CARGO_NET_OFFLINE=true
cargo build --release --offline --workspace
