//! C15 (TLS half) — compio-tls (rustls and native-tls back-ends, both roles)
//! over the poll-style compat adapter over a simulated duplex transport.
//! The WebSocket half needs real descriptors (compio-ws is bound to `PollFd`)
//! and lives in Engine K.

use std::{cell::RefCell, pin::Pin, sync::Arc, sync::OnceLock};

use compio_io::compat::AsyncStream;
use compio_tls::{TlsAcceptor, TlsConnector, TlsStream};
use futures_util::{AsyncReadExt, AsyncWriteExt};
use iosim::*;
use rustls::pki_types::{CertificateDer, PrivateKeyDer, pem::PemObject};
use simcore::{self as sim, RunResult, check, worker::Scenario};

use crate::util::*;

pub fn scenarios() -> Vec<Scenario> {
    vec![Scenario {
        name: "tls_echo",
        property: "C15",
        engine: "S",
        run: tls_echo,
        weight: 1,
    }]
}

const CERT: &str = include_str!("../../../data/cert.pem");
const KEY: &str = include_str!("../../../data/key.pem");

struct Material {
    rustls_client: Arc<rustls::ClientConfig>,
    rustls_server: Arc<rustls::ServerConfig>,
    native_client: native_tls::TlsConnector,
    native_server: native_tls::TlsAcceptor,
}

fn material() -> &'static Material {
    static M: OnceLock<Material> = OnceLock::new();
    M.get_or_init(|| {
        let provider = Arc::new(rustls::crypto::ring::default_provider());
        let cert = CertificateDer::from_pem_slice(CERT.as_bytes()).expect("cert");
        let key = PrivateKeyDer::from_pem_slice(KEY.as_bytes()).expect("key");
        let mut roots = rustls::RootCertStore::empty();
        roots.add(cert.clone()).expect("root");
        // No session resumption: a run must not depend on the runs executed before it in the same process.
        let mut rustls_client = rustls::ClientConfig::builder_with_provider(provider.clone())
            .with_safe_default_protocol_versions()
            .unwrap()
            .with_root_certificates(roots)
            .with_no_client_auth();
        rustls_client.resumption = rustls::client::Resumption::disabled();
        let mut rustls_server = rustls::ServerConfig::builder_with_provider(provider)
            .with_safe_default_protocol_versions()
            .unwrap()
            .with_no_client_auth()
            .with_single_cert(vec![cert], key)
            .expect("server config");
        rustls_server.session_storage = Arc::new(rustls::server::NoServerSessionStorage {});
        rustls_server.send_tls13_tickets = 0;
        let native_client = native_tls::TlsConnector::builder()
            .add_root_certificate(native_tls::Certificate::from_pem(CERT.as_bytes()).expect("native cert"))
            .build()
            .expect("native connector");
        let native_server = native_tls::TlsAcceptor::builder(native_tls::Identity::from_pkcs8(CERT.as_bytes(), KEY.as_bytes()).expect("native identity"))
            .build()
            .expect("native acceptor");
        Material {
            rustls_client: Arc::new(rustls_client),
            rustls_server: Arc::new(rustls_server),
            native_client,
            native_server,
        }
    })
}

/// What sits between the TLS layer and the simulated channel: compio-io's buffering poll-style
/// adapter over a compio-style stream, or an unbuffered poll-style transport.
enum Transport {
    Adapter(Pin<Box<AsyncStream<SimStream>>>),
    Direct(FutStream),
}

impl futures_util::io::AsyncRead for Transport {
    fn poll_read(self: Pin<&mut Self>, cx: &mut std::task::Context<'_>, buf: &mut [u8]) -> std::task::Poll<std::io::Result<usize>> {
        match self.get_mut() {
            Transport::Adapter(s) => s.as_mut().poll_read(cx, buf),
            Transport::Direct(s) => Pin::new(s).poll_read(cx, buf),
        }
    }
}

impl futures_util::io::AsyncWrite for Transport {
    fn poll_write(self: Pin<&mut Self>, cx: &mut std::task::Context<'_>, buf: &[u8]) -> std::task::Poll<std::io::Result<usize>> {
        match self.get_mut() {
            Transport::Adapter(s) => s.as_mut().poll_write(cx, buf),
            Transport::Direct(s) => Pin::new(s).poll_write(cx, buf),
        }
    }

    fn poll_flush(self: Pin<&mut Self>, cx: &mut std::task::Context<'_>) -> std::task::Poll<std::io::Result<()>> {
        match self.get_mut() {
            Transport::Adapter(s) => s.as_mut().poll_flush(cx),
            Transport::Direct(s) => Pin::new(s).poll_flush(cx),
        }
    }

    fn poll_close(self: Pin<&mut Self>, cx: &mut std::task::Context<'_>) -> std::task::Poll<std::io::Result<()>> {
        match self.get_mut() {
            Transport::Adapter(s) => s.as_mut().poll_close(cx),
            Transport::Direct(s) => Pin::new(s).poll_close(cx),
        }
    }
}

fn transport_faults() -> Faults {
    let mut f = Faults::draw(false);
    // a transport under TLS never returns Interrupted to the layer above in compio
    f.interrupted = 0;
    f
}

fn tls_echo() -> RunResult {
    let m = material();
    let client_native = sim::flip("client.native", 1, 2);
    let server_native = sim::flip("server.native", 1, 2);
    let fa = transport_faults();
    let fb = transport_faults();
    let cap_ab = sim::range("cap.ab", 1, 4096) as usize;
    let cap_ba = sim::range("cap.ba", 1, 4096) as usize;
    // Known finding (DESIGN §12, known_findings.txt): the rustls handshake never retries a flush that
    // returned Pending. Most runs with a rustls endpoint keep that endpoint's outbound channel roomy and
    // fault-free until its handshake is done, so that everything else stays checked; 1 run in 8 does not.
    let protect_a = !client_native && !sim::flip("unprotected.client", 1, 8);
    let protect_b = !server_native && !sim::flip("unprotected.server", 1, 8);
    let cap_ab = if protect_a { cap_ab.max(32 * 1024) } else { cap_ab };
    let cap_ba = if protect_b { cap_ba.max(32 * 1024) } else { cap_ba };
    let base_a = sim::range("base.a", 1, 512) as usize;
    let base_b = sim::range("base.b", 1, 512) as usize;
    let big = sim::flip("payload.big", 1, 16);
    let req = gen_payload("req.len", if big { 40_000 } else { 600 });
    let resp = gen_payload("resp.len", if big { 40_000 } else { 600 });
    let trailer_client = gen_payload("trailer.c", 300);
    let trailer_server = gen_payload("trailer.s", 300);
    let wchunk = 1 + sim::range("w.chunk", 0, 2047) as usize;
    let rchunk = 1 + sim::range("r.chunk", 0, 2047) as usize;
    // a big payload in 1-byte records through 1-byte channels is just slow (tens of polls per
    // byte), not a livelock: keep the step bound meaningful by giving big payloads some room
    let (wchunk, cap_ab, cap_ba) = if big { (wchunk.max(256), cap_ab.max(1024), cap_ba.max(1024)) } else { (wchunk, cap_ab, cap_ba) };
    let (a, b) = SimStream::pair(cap_ab, cap_ba, fa, fb);
    a.tx.set_quiet_to(protect_a);
    b.tx.set_quiet_to(protect_b);
    a.tx.0.borrow_mut().hold_until_flush = sim::flip("hold.ab", 1, 3);
    b.tx.0.borrow_mut().hold_until_flush = sim::flip("hold.ba", 1, 3);
    sim::log(|| format!("client {} / server {}; caps {cap_ab}/{cap_ba}; adapter base {base_a}/{base_b}; request {} bytes, response {} bytes; a {fa:?} b {fb:?}", if client_native { "native-tls" } else { "rustls" }, if server_native { "native-tls" } else { "rustls" }, req.len(), resp.len()));

    let direct_a = sim::flip("transport.direct.a", 1, 3);
    let direct_b = sim::flip("transport.direct.b", 1, 3);
    let skip_flush_c = sim::flip("client.close.without.flush", 1, 3);
    let skip_flush_s = sim::flip("server.close.without.flush", 1, 3);
    sim::log(|| format!("transports: client {} / server {}; close without a flush first: client {skip_flush_c} server {skip_flush_s}", if direct_a { "direct" } else { "adapter" }, if direct_b { "direct" } else { "adapter" }));
    // An unbuffered transport needs what a socket has: room for one flight in each direction. With less,
    // both TLS endpoints can legitimately be writing at once (e.g. the TLS 1.3 compatibility CCS record
    // against the server's certificate flight) and block each other; that is the transport's deadlock.
    if direct_a || direct_b {
        for c in [&a.tx, &b.tx] {
            let mut st = c.0.borrow_mut();
            st.cap = st.cap.max(8192);
        }
    }
    let ta = if direct_a { Transport::Direct(a.clone().into()) } else { Transport::Adapter(Box::pin(AsyncStream::with_capacity(base_a, a.clone()))) };
    let tb = if direct_b { Transport::Direct(b.clone().into()) } else { Transport::Adapter(Box::pin(AsyncStream::with_capacity(base_b, b.clone()))) };
    let connector = if client_native { TlsConnector::from(m.native_client.clone()) } else { TlsConnector::from(m.rustls_client.clone()) };
    let acceptor = if server_native { TlsAcceptor::from(m.native_server.clone()) } else { TlsAcceptor::from(m.rustls_server.clone()) };

    let errs: RefCell<Vec<String>> = RefCell::new(Vec::new());
    let got_req: RefCell<Vec<u8>> = RefCell::new(Vec::new());
    let got_resp: RefCell<Vec<u8>> = RefCell::new(Vec::new());
    let server_saw_eof = RefCell::new(false);
    let client_saw_eof = RefCell::new(false);
    let got_trailer_c: RefCell<Vec<u8>> = RefCell::new(Vec::new());
    let got_trailer_s: RefCell<Vec<u8>> = RefCell::new(Vec::new());
    let client_done = RefCell::new(false);
    let server_done = RefCell::new(false);
    let (a_tx, b_tx) = (a.tx.clone(), b.tx.clone());
    {
        let (client_done, server_done) = (&client_done, &server_done);
        let (a_tx, b_tx) = (a_tx.clone(), b_tx.clone());
        let (errs, got_req, got_resp, server_saw_eof) = (&errs, &got_req, &got_resp, &server_saw_eof);
        let (req_c, resp_s) = (req.clone(), resp.clone());
        let (trailer_c, trailer_s) = (trailer_client.clone(), trailer_server.clone());
        let (got_trailer_c, got_trailer_s, client_saw_eof) = (&got_trailer_c, &got_trailer_s, &client_saw_eof);
        let req_len = req.len();
        let resp_len = resp.len();
        let client: LocalFut<'_> = Box::pin(async move {
            let mut s: TlsStream<Transport> = match connector.connect("localhost", ta).await {
                Ok(s) => s,
                Err(e) => return errs.borrow_mut().push(format!("handshake|client handshake failed: {e}")),
            };
            *client_done.borrow_mut() = true;
            a_tx.set_quiet_to(false);
            for c in req_c.chunks(wchunk) {
                if let Err(e) = s.write_all(c).await {
                    return errs.borrow_mut().push(format!("io-error|client write: {e}"));
                }
            }
            if let Err(e) = s.flush().await {
                return errs.borrow_mut().push(format!("io-error|client flush: {e}"));
            }
            let mut buf = vec![0u8; rchunk];
            while got_resp.borrow().len() < resp_len {
                let want = (resp_len - got_resp.borrow().len()).min(buf.len());
                match s.read(&mut buf[..want]).await {
                    Ok(0) => return errs.borrow_mut().push("lost-bytes|client saw EOF before the whole response".to_string()),
                    Ok(n) => got_resp.borrow_mut().extend_from_slice(&buf[..n]),
                    Err(e) => return errs.borrow_mut().push(format!("io-error|client read: {e}")),
                }
            }
            // a trailer, then close; close must deliver it even without an explicit flush
            for c in trailer_c.chunks(wchunk) {
                if let Err(e) = s.write_all(c).await {
                    return errs.borrow_mut().push(format!("io-error|client trailer write: {e}"));
                }
            }
            if !skip_flush_c {
                if let Err(e) = s.flush().await {
                    return errs.borrow_mut().push(format!("io-error|client flush: {e}"));
                }
            }
            if let Err(e) = s.close().await {
                return errs.borrow_mut().push(format!("io-error|client close: {e}"));
            }
            // the server answers the half-close with its own trailer and close
            loop {
                match s.read(&mut buf).await {
                    Ok(0) => break,
                    Ok(n) => got_trailer_s.borrow_mut().extend_from_slice(&buf[..n]),
                    Err(e) => return errs.borrow_mut().push(format!("unclean-close|client read after close: {e}")),
                }
            }
            *client_saw_eof.borrow_mut() = true;
        });
        let server: LocalFut<'_> = Box::pin(async move {
            let mut s: TlsStream<Transport> = match acceptor.accept(tb).await {
                Ok(s) => s,
                Err(e) => return errs.borrow_mut().push(format!("handshake|server handshake failed: {e}")),
            };
            *server_done.borrow_mut() = true;
            b_tx.set_quiet_to(false);
            let mut buf = vec![0u8; rchunk];
            while got_req.borrow().len() < req_len {
                let want = (req_len - got_req.borrow().len()).min(buf.len());
                match s.read(&mut buf[..want]).await {
                    Ok(0) => return errs.borrow_mut().push("lost-bytes|server saw EOF before the whole request".to_string()),
                    Ok(n) => got_req.borrow_mut().extend_from_slice(&buf[..n]),
                    Err(e) => return errs.borrow_mut().push(format!("io-error|server read: {e}")),
                }
            }
            for c in resp_s.chunks(wchunk) {
                if let Err(e) = s.write_all(c).await {
                    return errs.borrow_mut().push(format!("io-error|server write: {e}"));
                }
            }
            if let Err(e) = s.flush().await {
                return errs.borrow_mut().push(format!("io-error|server flush: {e}"));
            }
            loop {
                match s.read(&mut buf).await {
                    Ok(0) => break,
                    Ok(n) => got_trailer_c.borrow_mut().extend_from_slice(&buf[..n]),
                    Err(e) => return errs.borrow_mut().push(format!("unclean-close|server read: {e}")),
                }
            }
            *server_saw_eof.borrow_mut() = true;
            for c in trailer_s.chunks(wchunk) {
                if let Err(e) = s.write_all(c).await {
                    return errs.borrow_mut().push(format!("io-error|server trailer write: {e}"));
                }
            }
            if !skip_flush_s {
                if let Err(e) = s.flush().await {
                    return errs.borrow_mut().push(format!("io-error|server flush: {e}"));
                }
            }
            if let Err(e) = s.close().await {
                errs.borrow_mut().push(format!("io-error|server close: {e}"));
            }
        });
        if let Err(v) = run_tasks(vec![client, server], &mut || false, 4_000_000) {
            if v.oracle == "deadlock" {
                // classify: a rustls endpoint still in its handshake whose last flush/write returned Pending,
                // was woken since (no parked writer) and was never asked to write or flush again
                let stuck = |done: &RefCell<bool>, native: bool, tx: &Chan| {
                    let st = tx.0.borrow();
                    !*done.borrow() && !native && st.write_blocked && st.wr_wakers.is_empty()
                };
                let c = stuck(client_done, client_native, &a.tx);
                let s = stuck(server_done, server_native, &b.tx);
                if c || s {
                    return Err(sim::Violation::new(
                        "rustls-handshake-flush-not-retried",
                        format!("{} rustls handshake: a write/flush of the transport adapter returned Pending, its task was woken and polled again, but only the read side was polled; the rest of the flight is never sent ({})", if c { "client" } else { "server" }, v.detail),
                    ));
                }
            }
            return Err(v);
        }
    }
    if let Some(e) = errs.borrow().first() {
        let (o, d) = e.split_once('|').unwrap();
        return Err(sim::Violation::new(o, d));
    }
    check!(*got_req.borrow() == req, "content", "request through TLS: {}", first_diff(&got_req.borrow(), &req));
    check!(*got_resp.borrow() == resp, "content", "response through TLS: {}", first_diff(&got_resp.borrow(), &resp));
    check!(*server_saw_eof.borrow(), "unclean-close", "server did not observe the client's clean close");
    check!(*client_saw_eof.borrow(), "unclean-close", "client did not observe the server's clean close");
    check!(*got_trailer_c.borrow() == trailer_client, "content", "client trailer (written right before close{}): {}", if skip_flush_c { ", no flush" } else { "" }, first_diff(&got_trailer_c.borrow(), &trailer_client));
    check!(*got_trailer_s.borrow() == trailer_server, "content", "server trailer (written after the client's half-close{}): {}", if skip_flush_s { ", no flush" } else { "" }, first_diff(&got_trailer_s.borrow(), &trailer_server));
    Ok(())
}
