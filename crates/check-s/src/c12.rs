//! C12 — blocking-style (`SyncStream`) and poll-style (`AsyncStream`) adapters
//! are lossless FIFO pipes.

use std::{
    cell::RefCell,
    future::poll_fn,
    io::{self, BufRead, ErrorKind, Read, Write},
    mem::MaybeUninit,
    pin::Pin,
    rc::Rc,
    task::Poll,
};

use compio_buf::BufResult;
use compio_io::{
    AsyncRead, AsyncWrite,
    compat::{AsyncStream, SyncStream},
};
use futures_util::io::{AsyncBufRead as FBufRead, AsyncRead as FRead, AsyncWrite as FWrite};
use iosim::*;
use simcore::{self as sim, RunResult, check, violation, worker::Scenario};

use crate::util::*;

pub fn scenarios() -> Vec<Scenario> {
    let s = |name, run, weight| Scenario {
        name,
        property: "C12",
        engine: "S",
        run,
        weight,
    };
    vec![s("sync_stream", sync_stream, 1), s("async_stream", async_stream, 1)]
}

fn bounded<T>(fut: impl Future<Output = T>) -> Result<T, sim::Violation> {
    block_on(fut, STEP_BOUND)
}

fn legit_read_err(e: &io::Error, probe: &SimStream) -> bool {
    e.kind() == ErrorKind::Interrupted || (e.kind() == HARD_KIND && probe.rx.0.borrow().hard_read_fired)
}

fn legit_write_err(e: &io::Error, probe: &SimStream) -> bool {
    let s = probe.tx.0.borrow();
    e.kind() == ErrorKind::Interrupted
        || (e.kind() == HARD_KIND && s.hard_write_fired)
        || (e.kind() == ErrorKind::WriteZero && s.zero_write_fired)
}

// ------------------------------------------------------------------ SyncStream

fn sync_stream() -> RunResult {
    let base = sim::range("base", 1, 24) as usize;
    let max = base + sim::range("max.extra", 0, 40) as usize;
    let p_in = gen_payload("payload.len", 240);
    let fr = Faults::draw(true);
    let fw = Faults::draw(true);
    let inner = SimStream {
        rx: Chan::source(&p_in, fr),
        tx: Chan::sink(fw),
    };
    inner.tx.0.borrow_mut().hold_until_flush = sim::flip("tx.hold", 1, 3);
    let probe = inner.clone();
    let mut s = SyncStream::with_limits(base, max, inner);
    sim::log(|| format!("SyncStream(base {base}, max {max}); inbound {} bytes {fr:?}; outbound {fw:?}", p_in.len()));

    let mut accepted: Vec<u8> = Vec::new();
    let mut out: Vec<u8> = Vec::new();
    let mut just_flushed = false;
    let mut just_filled = false;
    let mut eof_seen = false;
    let nops = sim::range("ops", 1, 60);

    macro_rules! invariants {
        () => {{
            check!(out.len() <= p_in.len() && out[..] == p_in[..out.len()], "read-order", "bytes read through the adapter are not a prefix of what the stream delivered: {}", first_diff(&out, &p_in[..out.len().min(p_in.len())]));
            let st = probe.tx.0.borrow();
            check!(st.written.len() <= accepted.len() && st.written[..] == accepted[..st.written.len()], "write-order", "bytes at the inner stream are not a prefix of what the adapter accepted: {}", first_diff(&st.written, &accepted[..st.written.len().min(accepted.len())]));
        }};
    }

    for _ in 0..nops {
        match sim::choose("op", 6) {
            0 => {
                let chunk = gen_payload("write.len", 40);
                let res = s.write(&chunk);
                sim::log(|| format!("write({}) -> {res:?}", chunk.len()));
                match res {
                    Ok(n) => {
                        check!(n <= chunk.len(), "count", "write returned {n} for {} bytes", chunk.len());
                        check!(n > 0 || chunk.is_empty(), "count", "write accepted 0 of {} bytes without WouldBlock", chunk.len());
                        accepted.extend_from_slice(&chunk[..n]);
                        if n > 0 {
                            just_flushed = false;
                        }
                    }
                    Err(e) if e.kind() == ErrorKind::WouldBlock => {
                        check!(!(just_flushed && !chunk.is_empty()), "no-progress", "write reports WouldBlock right after a complete flush");
                    }
                    Err(e) => violation!("error-kind", "write: {e:?}"),
                }
            }
            1 => {
                let res = bounded(s.flush_write_buf())?;
                sim::log(|| format!("flush_write_buf -> {res:?}"));
                match res {
                    Ok(n) => {
                        check!(n <= max, "limit-exceeded", "flush sent {n} buffered bytes, the limit is {max}");
                        let st = probe.tx.0.borrow();
                        check!(st.written == accepted, "flush-incomplete", "after a successful flush the inner stream has {} bytes, the adapter accepted {}", st.written.len(), accepted.len());
                        check!(st.held.is_empty(), "flush-incomplete", "flush_write_buf returned without flushing the inner stream ({} bytes held back)", st.held.len());
                        check!(!s.has_pending_write(), "flush-incomplete", "has_pending_write() after a successful flush");
                        just_flushed = true;
                    }
                    Err(e) => check!(legit_write_err(&e, &probe), "error-kind", "flush_write_buf: {e:?}"),
                }
            }
            2 => {
                let k = sim::range("read.len", 0, 24) as usize;
                let mut buf = vec![0u8; k];
                let res = s.read(&mut buf);
                sim::log(|| format!("read({k}) -> {res:?}"));
                match res {
                    Ok(n) => {
                        check!(n <= k, "count", "read returned {n} for a {k}-byte buffer");
                        if n == 0 && k > 0 {
                            check!(s.is_eof(), "spurious-eof", "read returned 0 without EOF");
                            eof_seen = true;
                        }
                        out.extend_from_slice(&buf[..n]);
                        just_filled = false;
                    }
                    Err(e) if e.kind() == ErrorKind::WouldBlock => {
                        check!(!just_filled, "no-progress", "read reports WouldBlock right after fill_read_buf delivered data");
                    }
                    Err(e) => violation!("error-kind", "read: {e:?}"),
                }
            }
            3 => {
                let k = sim::range("consume", 0, 24) as usize;
                match s.fill_buf() {
                    Ok(b) => {
                        check!(b.len() <= max, "limit-exceeded", "read buffer holds {} bytes, the limit is {max}", b.len());
                        let k = k.min(b.len());
                        out.extend_from_slice(&b[..k]);
                        let l = b.len();
                        sim::log(|| format!("fill_buf -> {l} bytes; consume({k})"));
                        s.consume(k);
                        if l > 0 {
                            just_filled = false;
                        }
                    }
                    Err(e) if e.kind() == ErrorKind::WouldBlock => {
                        check!(!just_filled, "no-progress", "fill_buf reports WouldBlock right after fill_read_buf delivered data");
                    }
                    Err(e) => violation!("error-kind", "fill_buf: {e:?}"),
                }
            }
            4 => {
                let res = bounded(s.fill_read_buf())?;
                sim::log(|| format!("fill_read_buf -> {res:?}"));
                match res {
                    Ok(0) => {
                        let st = probe.rx.0.borrow();
                        check!(st.q.is_empty() && st.closed, "spurious-eof", "fill_read_buf reported EOF with {} bytes undelivered", st.q.len());
                    }
                    Ok(_) => just_filled = true,
                    Err(e) if e.kind() == ErrorKind::OutOfMemory => {
                        sim::probe("read-limit-reported");
                        let have = s.fill_buf().map(|b| b.len()).unwrap_or(0);
                        check!(have >= max, "spurious-limit", "size limit {max} reported with only {have} bytes buffered");
                    }
                    Err(e) => check!(legit_read_err(&e, &probe), "error-kind", "fill_read_buf: {e:?}"),
                }
            }
            _ => {
                let k = sim::range("read.len", 0, 24) as usize;
                let mut buf = vec![MaybeUninit::<u8>::uninit(); k];
                match s.read_buf_uninit(&mut buf) {
                    Ok(n) => {
                        check!(n <= k, "count", "read_buf_uninit returned {n} for {k}");
                        if n == 0 && k > 0 {
                            check!(s.is_eof(), "spurious-eof", "read_buf_uninit returned 0 without EOF");
                            eof_seen = true;
                        }
                        out.extend(buf[..n].iter().map(|b| unsafe { b.assume_init() }));
                        just_filled = false;
                    }
                    Err(e) if e.kind() == ErrorKind::WouldBlock => {
                        check!(!just_filled, "no-progress", "read_buf_uninit reports WouldBlock right after a fill");
                    }
                    Err(e) => violation!("error-kind", "read_buf_uninit: {e:?}"),
                }
            }
        }
        invariants!();
        if eof_seen {
            check!(out == p_in, "lost-bytes", "EOF reported after {} of {} bytes", out.len(), p_in.len());
        }
    }

    // faults stop: everything accepted must reach the stream, everything delivered must come out
    probe.rx.set_quiet();
    probe.tx.set_quiet();
    let res = bounded(s.flush_write_buf())?;
    check!(res.is_ok(), "error-kind", "flush without faults failed: {res:?}");
    check!(probe.tx.0.borrow().written == accepted, "lost-bytes", "after the final flush the inner stream has {} bytes, the adapter accepted {}: {}", probe.tx.0.borrow().written.len(), accepted.len(), first_diff(&probe.tx.0.borrow().written, &accepted));
    let mut guard = 0;
    loop {
        guard += 1;
        check!(guard < 2000, "step-bound", "draining the adapter does not terminate");
        let mut buf = [0u8; 16];
        match s.read(&mut buf) {
            Ok(0) => break,
            Ok(n) => out.extend_from_slice(&buf[..n]),
            Err(e) if e.kind() == ErrorKind::WouldBlock => {
                let r = bounded(s.fill_read_buf())?;
                check!(r.is_ok(), "error-kind", "fill without faults failed although the buffer was drained: {r:?}");
            }
            Err(e) => violation!("error-kind", "read: {e:?}"),
        }
    }
    check!(out == p_in, "lost-bytes", "bytes read through the adapter differ from the stream: {}", first_diff(&out, &p_in));
    Ok(())
}

// ------------------------------------------------------------------ AsyncStream

type Shared = Rc<RefCell<Pin<Box<AsyncStream<SimStream>>>>>;

fn async_stream() -> RunResult {
    let base = sim::range("base", 1, 24) as usize;
    let max = base + sim::range("max.extra", 0, 40) as usize;
    let p_in = gen_payload("payload.len", 200);
    let fr = Faults::draw(true);
    let fw = Faults::draw(true);
    // inbound: feeder -> chan_in -> adapter ; outbound: adapter -> chan_out -> drainer
    let chan_in = Chan::new(sim::range("in.cap", 1, 64) as usize, fr, Faults::none());
    let chan_out = Chan::new(sim::range("out.cap", 1, 64) as usize, Faults::none(), fw);
    chan_out.0.borrow_mut().hold_until_flush = sim::flip("tx.hold", 1, 3);
    let inner = SimStream {
        rx: chan_in.clone(),
        tx: chan_out.clone(),
    };
    let probe = inner.clone();
    let stream: Shared = Rc::new(RefCell::new(Box::pin(AsyncStream::with_limits(base, max, inner))));
    let chunks: Vec<Vec<u8>> = (0..sim::range("w.chunks", 0, 6)).map(|_| gen_payload("write.len", 40)).collect();
    let all_out: Vec<u8> = chunks.concat();
    let readers: Vec<usize> = {
        // which entry points get a task of their own
        let mask = 1 + sim::choose("readers", 7);
        (0..3).filter(|i| mask & (1 << i) != 0).collect()
    };
    let flushes = sim::range("flusher", 0, 3);
    // one-poll visitors of an entry point (0..2 read side as above, 3 poll_flush)
    let probers: Vec<usize> = (0..sim::choose("probers", 3)).map(|_| sim::choose("prober.ep", 4)).collect();
    // (the last task to poll an entry point is the one it wakes: the lasting tasks of an entry point start
    // after its visitors have been and gone)
    let visitors_left: Rc<RefCell<[usize; 4]>> = Rc::new(RefCell::new([0; 4]));
    for ep in &probers {
        visitors_left.borrow_mut()[*ep] += 1;
    }
    sim::log(|| format!("AsyncStream(base {base}, max {max}); inbound {} bytes {fr:?}; outbound {} bytes in {} chunks {fw:?}; reader entry points {readers:?}, one-poll visitors {probers:?}; {flushes} concurrent flushes", p_in.len(), all_out.len(), chunks.len()));

    let out: Rc<RefCell<Vec<u8>>> = Rc::default();
    let drained: Rc<RefCell<Vec<u8>>> = Rc::default();
    let errors: Rc<RefCell<Vec<String>>> = Rc::default();
    let mut tasks: Vec<LocalFut<'_>> = Vec::new();

    // feeder
    {
        let data = p_in.clone();
        let mut tx = SimStream {
            rx: Chan::source(&[], Faults::none()),
            tx: chan_in.clone(),
        };
        tasks.push(Box::pin(async move {
            let mut off = 0;
            while off < data.len() {
                let k = 1 + sim::range("feed.k", 0, (data.len() - off - 1).min(31) as u64) as usize;
                let BufResult(r, _) = tx.write(data[off..off + k].to_vec()).await;
                off += r.expect("feeder write");
                if sim::flip("feed.yield", 1, 2) {
                    yield_once().await;
                }
            }
            tx.tx.close_write();
        }));
    }
    // drainer
    {
        let drained = drained.clone();
        let mut rx = SimStream {
            rx: chan_out.clone(),
            tx: Chan::sink(Faults::none()),
        };
        tasks.push(Box::pin(async move {
            loop {
                let k = 1 + sim::range("drain.k", 0, 31) as usize;
                let BufResult(r, b) = rx.read(Vec::with_capacity(k)).await;
                let n = r.expect("drainer read");
                if n == 0 {
                    break;
                }
                drained.borrow_mut().extend_from_slice(&b);
                if sim::flip("drain.yield", 1, 2) {
                    yield_once().await;
                }
            }
        }));
    }
    // readers, one per entry point
    for ep in readers.iter().copied() {
        let stream = stream.clone();
        let out = out.clone();
        let errors = errors.clone();
        let probe = probe.clone();
        let visitors_left = visitors_left.clone();
        tasks.push(Box::pin(async move {
            while visitors_left.borrow()[ep] > 0 {
                yield_once().await;
            }
            loop {
                let k = 1 + sim::range("r.len", 0, 23) as usize;
                let res: io::Result<usize> = poll_fn(|cx| poll_read_via(ep, k, cx, &stream, &out, &errors, max))
                .await;
                match res {
                    Ok(0) => break,
                    Ok(_) => {}
                    Err(e) if e.kind() == ErrorKind::OutOfMemory => {
                        // only the fill_buf reader can leave data unconsumed; others always drain
                        errors.borrow_mut().push(format!("spurious-limit|entry point {ep}: size limit reported although every read consumes what it is given: {e}"));
                        break;
                    }
                    Err(e) if legit_read_err(&e, &probe) => {}
                    Err(e) => {
                        errors.borrow_mut().push(format!("error-kind|reader entry point {ep}: {e:?}"));
                        break;
                    }
                }
                if sim::flip("r.yield", 1, 3) {
                    yield_once().await;
                }
            }
        }));
    }
    // tasks that poll an entry point once, with a waker of their own, and walk away when it is pending: the
    // task that polls the same entry point afterwards is the one that has to be woken
    for ep in probers.iter().copied() {
        let (stream, out, errors, visitors_left) = (stream.clone(), out.clone(), errors.clone(), visitors_left.clone());
        tasks.push(Box::pin(async move {
            for _ in 0..sim::range("prober.delay", 0, 3) {
                yield_once().await;
            }
            let mut polled = false;
            poll_fn(|cx| {
                if polled {
                    return Poll::Ready(());
                }
                polled = true;
                match ep {
                    3 => {
                        let _ = stream.borrow_mut().as_mut().poll_flush(cx);
                    }
                    _ => {
                        let _ = poll_read_via(ep, 1 + (ep * 7) % 5, cx, &stream, &out, &errors, max);
                    }
                }
                Poll::Ready(())
            })
            .await;
            visitors_left.borrow_mut()[ep] -= 1;
        }));
    }
    // writer: all chunks, then close
    {
        let stream = stream.clone();
        let errors = errors.clone();
        let probe = probe.clone();
        let chunks = chunks.clone();
        tasks.push(Box::pin(async move {
            for c in chunks {
                let mut off = 0;
                while off < c.len() {
                    let res = poll_fn(|cx| stream.borrow_mut().as_mut().poll_write(cx, &c[off..])).await;
                    match res {
                        Ok(0) => {
                            errors.borrow_mut().push("count|poll_write accepted 0 bytes of a non-empty buffer".into());
                            return;
                        }
                        Ok(n) => off += n,
                        Err(e) if legit_write_err(&e, &probe) => {}
                        Err(e) => {
                            errors.borrow_mut().push(format!("error-kind|poll_write: {e:?}"));
                            return;
                        }
                    }
                    if sim::flip("w.yield", 1, 3) {
                        yield_once().await;
                    }
                }
            }
            loop {
                let res = poll_fn(|cx| stream.borrow_mut().as_mut().poll_close(cx)).await;
                match res {
                    Ok(()) => break,
                    Err(e) if legit_write_err(&e, &probe) => {}
                    Err(e) => {
                        errors.borrow_mut().push(format!("error-kind|poll_close: {e:?}"));
                        return;
                    }
                }
            }
        }));
    }
    // concurrent flusher
    if flushes > 0 {
        let stream = stream.clone();
        let errors = errors.clone();
        let probe = probe.clone();
        let visitors_left = visitors_left.clone();
        tasks.push(Box::pin(async move {
            while visitors_left.borrow()[3] > 0 {
                yield_once().await;
            }
            for _ in 0..flushes {
                for _ in 0..sim::range("f.delay", 0, 4) {
                    yield_once().await;
                }
                let res = poll_fn(|cx| stream.borrow_mut().as_mut().poll_flush(cx)).await;
                match res {
                    Ok(()) => {}
                    Err(e) if legit_write_err(&e, &probe) => {}
                    Err(e) if e.kind() == ErrorKind::BrokenPipe && probe.tx.0.borrow().closed => {}
                    Err(e) => {
                        errors.borrow_mut().push(format!("error-kind|poll_flush: {e:?}"));
                        return;
                    }
                }
            }
        }));
    }

    run_tasks(tasks, &mut || false, STEP_BOUND)?;
    if let Some(e) = errors.borrow().first() {
        let (o, d) = e.split_once('|').unwrap();
        return Err(sim::Violation::new(o, d));
    }
    let out = out.borrow();
    check!(*out == p_in, "lost-bytes", "bytes read through the adapter differ from what the stream delivered: {}", first_diff(&out, &p_in));
    let drained = drained.borrow();
    check!(*drained == all_out, "lost-bytes", "bytes that reached the inner stream differ from what the adapter accepted: {}", first_diff(&drained, &all_out));
    check!(probe.tx.0.borrow().closed, "not-closed", "poll_close returned Ok but the inner stream was not shut down");
    Ok(())
}


/// One poll of the adapter's read side through entry point `ep` (0 poll_read, 1 poll_read_uninit, 2 poll_fill_buf
/// + consume), asking for up to `k` bytes; what it yields is appended to `out`.
fn poll_read_via(ep: usize, k: usize, cx: &mut std::task::Context<'_>, stream: &Shared, out: &Rc<RefCell<Vec<u8>>>, errors: &Rc<RefCell<Vec<String>>>, max: usize) -> Poll<io::Result<usize>> {
    let mut s = stream.borrow_mut();
    match ep {
        0 => {
            let mut buf = vec![0u8; k];
            match s.as_mut().poll_read(cx, &mut buf) {
                Poll::Ready(Ok(n)) => {
                    out.borrow_mut().extend_from_slice(&buf[..n]);
                    Poll::Ready(Ok(n))
                }
                Poll::Ready(Err(e)) => Poll::Ready(Err(e)),
                Poll::Pending => Poll::Pending,
            }
        }
        1 => {
            let mut buf = vec![MaybeUninit::<u8>::uninit(); k];
            match s.as_mut().poll_read_uninit(cx, &mut buf) {
                Poll::Ready(Ok(n)) => {
                    out.borrow_mut().extend(buf[..n].iter().map(|b| unsafe { b.assume_init() }));
                    Poll::Ready(Ok(n))
                }
                Poll::Ready(Err(e)) => Poll::Ready(Err(e)),
                Poll::Pending => Poll::Pending,
            }
        }
        _ => match s.as_mut().poll_fill_buf(cx) {
            Poll::Ready(Ok(b)) => {
                let n = b.len().min(k);
                if b.len() > max {
                    errors.borrow_mut().push(format!("limit-exceeded|read buffer holds {} bytes, the limit is {max}", b.len()));
                }
                out.borrow_mut().extend_from_slice(&b[..n]);
                s.as_mut().consume(n);
                Poll::Ready(Ok(n))
            }
            Poll::Ready(Err(e)) => Poll::Ready(Err(e)),
            Poll::Pending => Poll::Pending,
        },
    }
}

#[allow(dead_code)]
fn _traits<T: AsyncRead + AsyncWrite + FRead + FWrite + FBufRead>() {}
