//! C11 — I/O helpers are invariant under chunking and transient errors.
//!
//! Workload: every helper named by the property over simulated sources/sinks
//! (and over the in-memory readers/writers/cursors) whose every call may be
//! short, `Pending`, `Interrupted`, fail hard once, or hit EOF. Oracle: a
//! straightforward reference (payload prefix arithmetic on `Vec`s).

use std::io::{self, Cursor, ErrorKind};

use compio_buf::{BufResult, IntoInner, IoBuf, IoBufExt, IoBufMut, IoVectoredBuf, IoVectoredBufMut};
use compio_io::{
    AsyncBufRead, AsyncRead, AsyncReadAtExt, AsyncReadExt, AsyncWrite, AsyncWriteAt, AsyncWriteAtExt,
    AsyncWriteExt, BufReader, BufWriter,
};
use iosim::*;
use simcore::{self as sim, RunResult, check, violation, worker::Scenario};

use crate::util::*;

pub fn scenarios() -> Vec<Scenario> {
    let s = |name, run, weight| Scenario {
        name,
        property: "C11",
        engine: "S",
        run,
        weight,
    };
    vec![
        s("read_exact", read_exact, 3),
        s("read_to_end", read_to_end, 3),
        s("read_vectored_exact", read_vectored_exact, 3),
        s("write_all", write_all, 3),
        s("write_vectored_all", write_vectored_all, 3),
        s("copy", copy, 3),
        s("buf_reader", buf_reader, 4),
        s("buf_writer", buf_writer, 4),
        s("take", take, 2),
        s("split", split_halves, 2),
        s("positional_read", positional_read, 3),
        s("positional_write", positional_write, 3),
    ]
}

// ------------------------------------------------------------------ sources

trait TestSrc: AsyncRead {
    fn consumed(&self) -> usize;
    fn hard_fired(&self) -> bool {
        false
    }
}

impl TestSrc for SimStream {
    fn consumed(&self) -> usize {
        self.rx.consumed()
    }

    fn hard_fired(&self) -> bool {
        self.rx.0.borrow().hard_read_fired
    }
}

struct SliceSrc<'a> {
    s: &'a [u8],
    orig: usize,
}

impl AsyncRead for SliceSrc<'_> {
    async fn read<B: IoBufMut>(&mut self, buf: B) -> BufResult<usize, B> {
        self.s.read(buf).await
    }

    async fn read_vectored<V: IoVectoredBufMut>(&mut self, buf: V) -> BufResult<usize, V> {
        self.s.read_vectored(buf).await
    }
}

impl TestSrc for SliceSrc<'_> {
    fn consumed(&self) -> usize {
        self.orig - self.s.len()
    }
}

struct CursorSrc {
    c: Cursor<Vec<u8>>,
    start: u64,
}

impl AsyncRead for CursorSrc {
    async fn read<B: IoBufMut>(&mut self, buf: B) -> BufResult<usize, B> {
        self.c.read(buf).await
    }

    async fn read_vectored<V: IoVectoredBufMut>(&mut self, buf: V) -> BufResult<usize, V> {
        self.c.read_vectored(buf).await
    }
}

impl TestSrc for CursorSrc {
    fn consumed(&self) -> usize {
        (self.c.position() - self.start) as usize
    }
}

/// Runs `$body` with `$src` bound to one of the source kinds (a decision) and
/// `$p` to the byte sequence that source will deliver.
macro_rules! with_src {
    ($allow_hard:expr, $max:expr, |$src:ident, $p:ident| $body:expr) => {{
        let kind = sim::weighted("src.kind", &[6, 1, 2]);
        let payload = gen_payload("payload.len", $max);
        match kind {
            0 => {
                let f = Faults::draw($allow_hard);
                sim::log(|| format!("source: sim stream, {} bytes, {:?}", payload.len(), f));
                let $src = SimStream::reader(&payload, f);
                let $p: &[u8] = &payload;
                $body
            }
            1 => {
                sim::log(|| format!("source: &[u8], {} bytes", payload.len()));
                let $src = SliceSrc {
                    s: &payload,
                    orig: payload.len(),
                };
                let $p: &[u8] = &payload;
                $body
            }
            _ => {
                // a cursor positioned anywhere, also beyond the end
                let start = sim::range("cursor.start", 0, payload.len() as u64 + 4);
                sim::log(|| format!("source: Cursor<Vec<u8>> of {} bytes at position {start}", payload.len()));
                let mut c = Cursor::new(payload.clone());
                c.set_position(start);
                let $src = CursorSrc { c, start };
                let $p: &[u8] = &payload[(start as usize).min(payload.len())..];
                $body
            }
        }
    }};
}

fn bounded<T>(fut: impl Future<Output = T>) -> Result<T, sim::Violation> {
    block_on(fut, STEP_BOUND)
}

// ------------------------------------------------------------------ read_exact

fn read_exact() -> RunResult {
    with_src!(true, 96, |src, p| read_exact_case(src, p))
}

fn read_exact_case<S: TestSrc>(mut src: S, p: &[u8]) -> RunResult {
    // destination: a Vec with pre-existing content, optionally behind a slice view
    let cap = sim::range("dst.cap", 0, 48) as usize;
    let len = sim::range("dst.len", 0, cap as u64) as usize;
    let sliced = sim::flip("dst.sliced", 1, 3);
    let dst = vec_with(len, cap);
    let real_cap = dst.capacity();
    if sliced {
        let a = sim::range("dst.a", 0, len as u64) as usize;
        let b = a + sim::range("dst.b", 0, (real_cap - a) as u64) as usize;
        sim::log(|| format!("read_exact into Vec(len {len}, cap {real_cap}).slice({a}..{b})"));
        let BufResult(res, buf) = bounded(src.read_exact(dst.slice(a..b)))?;
        let v = buf.into_inner();
        let want = b - a;
        check_exact_result(&res, &src, p, want)?;
        if res.is_ok() {
            check!(v.len() >= a + want, "length", "buffer length {} after filling {a}..{b}", v.len());
            check!(&v[a..a + want] == &p[..want], "content", "read_exact delivered wrong bytes: {}", first_diff(&v[a..a + want], &p[..want]));
        }
        // bytes before the view are never touched
        let pre = pre_bytes(len);
        check!(v[..a] == pre[..a], "preexisting-content", "bytes before the slice view changed: {} vs {}", short(&v[..a]), short(&pre[..a]));
        if res.is_ok() && v.len() > b {
            // bytes after the view (initialised before) are untouched
            check!(v[b..] == pre[b.min(pre.len())..v.len().min(pre.len()).max(b.min(pre.len()))] || v.len() <= len, "preexisting-content", "bytes after the slice view changed");
        }
    } else {
        sim::log(|| format!("read_exact into Vec(len {len}, cap {real_cap})"));
        let BufResult(res, v) = bounded(src.read_exact(dst))?;
        check_exact_result(&res, &src, p, real_cap)?;
        if res.is_ok() {
            check!(v.len() == real_cap, "length", "buffer length {} != capacity {real_cap}", v.len());
            check!(v[..] == p[..real_cap], "content", "read_exact delivered wrong bytes: {}", first_diff(&v, &p[..real_cap]));
        }
    }
    Ok(())
}

fn check_exact_result<S: TestSrc>(res: &io::Result<()>, src: &S, p: &[u8], want: usize) -> RunResult {
    check!(src.consumed() <= want, "overread", "helper consumed {} bytes from the source but only {want} were requested", src.consumed());
    match res {
        Ok(()) => {
            check!(!src.hard_fired(), "error-swallowed", "the source failed with a hard error but the helper reported success");
            check!(p.len() >= want, "fabricated", "helper reported {want} bytes but the source only had {}", p.len());
            check!(src.consumed() == want, "consumed", "helper consumed {} bytes for a request of {want}", src.consumed());
        }
        Err(e) if e.kind() == HARD_KIND => {
            check!(src.hard_fired(), "fabricated-error", "helper reported {e:?} which the source never produced");
        }
        Err(e) if e.kind() == ErrorKind::UnexpectedEof => {
            check!(!src.hard_fired(), "error-kind", "source failed hard but helper reported UnexpectedEof");
            check!(p.len() < want, "spurious-eof", "helper reported UnexpectedEof although the source had {} >= {want} bytes", p.len());
        }
        Err(e) => violation!("error-kind", "undocumented error kind {:?} ({e})", e.kind()),
    }
    Ok(())
}

// ------------------------------------------------------------------ read_to_end

fn read_to_end() -> RunResult {
    with_src!(true, 200, |src, p| read_to_end_case(src, p))
}

fn read_to_end_case<S: TestSrc>(mut src: S, p: &[u8]) -> RunResult {
    let len = sim::range("dst.len", 0, 12) as usize;
    let cap = len + sim::range("dst.spare", 0, 40) as usize;
    let dst = vec_with(len, cap);
    let pre = pre_bytes(len);
    sim::log(|| format!("read_to_end into Vec(len {len}, cap {})", dst.capacity()));
    let BufResult(res, v) = bounded(src.read_to_end(dst))?;
    check!(v.len() >= len && v[..len] == pre[..], "preexisting-content", "read_to_end changed the {len} bytes already in the buffer: now {} (was {})", short(&v[..len.min(v.len())]), short(&pre));
    let got = &v[len..];
    match res {
        Ok(n) => {
            check!(!src.hard_fired(), "error-swallowed", "hard error swallowed");
            check!(n == p.len(), "count", "read_to_end returned {n}, the source held {} bytes", p.len());
            check!(got == p, "content", "read_to_end result differs: {}", first_diff(got, p));
        }
        Err(e) if e.kind() == HARD_KIND && src.hard_fired() => {
            check!(got.len() <= src.consumed() && got == &p[..got.len()], "content", "after a failure the buffer holds bytes the source never delivered: {}", first_diff(got, &p[..got.len().min(p.len())]));
        }
        Err(e) => violation!("error-kind", "unexpected error {:?} ({e})", e.kind()),
    }
    Ok(())
}

// ------------------------------------------------------------------ read_vectored_exact

fn read_vectored_exact() -> RunResult {
    with_src!(true, 96, |src, p| read_vectored_exact_case(src, p))
}

fn read_vectored_exact_case<S: TestSrc>(mut src: S, p: &[u8]) -> RunResult {
    let k = sim::range("vec.count", 0, 4) as usize;
    let mut bufs: Vec<Vec<u8>> = Vec::new();
    for _ in 0..k {
        let cap = sim::range("vec.cap", 0, 24) as usize;
        bufs.push(Vec::with_capacity(cap));
    }
    let caps: Vec<usize> = bufs.iter().map(|b| b.capacity()).collect();
    let want: usize = caps.iter().sum();
    sim::log(|| format!("read_vectored_exact into buffers with capacities {caps:?}"));
    let BufResult(res, bufs) = bounded(src.read_vectored_exact(bufs))?;
    check_exact_result(&res, &src, p, want)?;
    if res.is_ok() {
        let mut off = 0;
        for (i, b) in bufs.iter().enumerate() {
            check!(b.len() == caps[i], "length", "buffer {i} has length {} but capacity {}", b.len(), caps[i]);
            check!(b[..] == p[off..off + caps[i]], "content", "buffer {i}: {}", first_diff(b, &p[off..off + caps[i]]));
            off += caps[i];
        }
    }
    Ok(())
}

// ------------------------------------------------------------------ sinks

trait TestSink: AsyncWrite {
    /// Check that exactly `accepted` reached the destination (in order, once).
    fn verify(&self, accepted: &[u8], complete: bool) -> RunResult;
    fn whard_fired(&self) -> bool {
        false
    }
    fn zero_fired(&self) -> bool {
        false
    }
}

impl TestSink for SimStream {
    fn verify(&self, accepted: &[u8], complete: bool) -> RunResult {
        let s = self.tx.0.borrow();
        if complete {
            check!(s.written == accepted, "sink-content", "bytes that reached the writer differ from what the helper accepted: {}", first_diff(&s.written, accepted));
        } else {
            check!(s.written.len() <= accepted.len() && s.written[..] == accepted[..s.written.len()], "sink-content", "bytes at the writer are not a prefix of the data: {}", first_diff(&s.written, accepted));
        }
        Ok(())
    }

    fn whard_fired(&self) -> bool {
        self.tx.0.borrow().hard_write_fired
    }

    fn zero_fired(&self) -> bool {
        self.tx.0.borrow().zero_write_fired
    }
}

struct VecSink {
    v: Vec<u8>,
    pre: Vec<u8>,
}

impl AsyncWrite for VecSink {
    async fn write<T: IoBuf>(&mut self, buf: T) -> BufResult<usize, T> {
        self.v.write(buf).await
    }

    async fn write_vectored<T: IoVectoredBuf>(&mut self, buf: T) -> BufResult<usize, T> {
        self.v.write_vectored(buf).await
    }

    async fn flush(&mut self) -> io::Result<()> {
        self.v.flush().await
    }

    async fn shutdown(&mut self) -> io::Result<()> {
        self.v.shutdown().await
    }
}

impl TestSink for VecSink {
    fn verify(&self, accepted: &[u8], _complete: bool) -> RunResult {
        let n = self.pre.len();
        check!(self.v.len() >= n && self.v[..n] == self.pre[..], "preexisting-content", "Vec writer lost its previous content");
        check!(&self.v[n..] == accepted, "sink-content", "Vec writer content: {}", first_diff(&self.v[n..], accepted));
        Ok(())
    }
}

struct CursorSink {
    c: Cursor<Vec<u8>>,
    initial: Vec<u8>,
    start: u64,
}

impl AsyncWrite for CursorSink {
    async fn write<T: IoBuf>(&mut self, buf: T) -> BufResult<usize, T> {
        self.c.write(buf).await
    }

    async fn write_vectored<T: IoVectoredBuf>(&mut self, buf: T) -> BufResult<usize, T> {
        self.c.write_vectored(buf).await
    }

    async fn flush(&mut self) -> io::Result<()> {
        self.c.flush().await
    }

    async fn shutdown(&mut self) -> io::Result<()> {
        self.c.shutdown().await
    }
}

/// File semantics: overwrite in place, extend, zero-fill a gap.
fn overlay(initial: &[u8], pos: usize, data: &[u8]) -> Vec<u8> {
    let mut v = initial.to_vec();
    if data.is_empty() {
        return v;
    }
    if v.len() < pos + data.len() {
        v.resize(pos + data.len(), 0);
    }
    v[pos..pos + data.len()].copy_from_slice(data);
    v
}

impl TestSink for CursorSink {
    fn verify(&self, accepted: &[u8], _complete: bool) -> RunResult {
        let want = overlay(&self.initial, self.start as usize, accepted);
        let got = self.c.get_ref();
        // a zero-length write beyond the end may or may not extend; only compare when data was written
        if accepted.is_empty() {
            check!(got[..self.initial.len().min(got.len())] == self.initial[..self.initial.len().min(got.len())], "sink-content", "cursor writer changed content without data");
        } else {
            check!(got == &want, "sink-content", "Cursor<Vec> content after writing {} bytes at {}: {}", accepted.len(), self.start, first_diff(got, &want));
            check!(self.c.position() == self.start + accepted.len() as u64, "position", "cursor position {} after writing {} bytes from {}", self.c.position(), accepted.len(), self.start);
        }
        Ok(())
    }
}

macro_rules! with_sink {
    ($allow_hard:expr, |$sink:ident| $body:expr) => {{
        match sim::weighted("sink.kind", &[6, 2, 2]) {
            0 => {
                let f = Faults::draw($allow_hard);
                sim::log(|| format!("sink: sim stream {:?}", f));
                let $sink = SimStream::writer(f);
                $body
            }
            1 => {
                let n = sim::range("sink.pre", 0, 40) as usize;
                sim::log(|| format!("sink: Vec<u8> already holding {n} bytes"));
                let $sink = VecSink {
                    v: pre_bytes(n),
                    pre: pre_bytes(n),
                };
                $body
            }
            _ => {
                let n = sim::range("sink.pre", 0, 24) as usize;
                let start = sim::range("cursor.start", 0, n as u64 + 6);
                sim::log(|| format!("sink: Cursor<Vec<u8>> over {n} bytes at position {start}"));
                let mut c = Cursor::new(pre_bytes(n));
                c.set_position(start);
                let $sink = CursorSink {
                    c,
                    initial: pre_bytes(n),
                    start,
                };
                $body
            }
        }
    }};
}

fn check_write_result<K: TestSink>(res: &io::Result<()>, sink: &K, data: &[u8]) -> RunResult {
    match res {
        Ok(()) => {
            check!(!sink.whard_fired(), "error-swallowed", "the writer failed hard but the helper reported success");
            check!(!sink.zero_fired(), "error-swallowed", "the writer accepted 0 bytes but the helper reported success");
            sink.verify(data, true)
        }
        Err(e) if e.kind() == HARD_KIND && sink.whard_fired() => sink.verify(data, false),
        Err(e) if e.kind() == ErrorKind::WriteZero && sink.zero_fired() => sink.verify(data, false),
        Err(e) => violation!("error-kind", "unexpected error {:?} ({e})", e.kind()),
    }
}

// ------------------------------------------------------------------ write_all / write_vectored_all

fn write_all() -> RunResult {
    with_sink!(true, |sink| write_all_case(sink))
}

fn write_all_case<K: TestSink>(mut sink: K) -> RunResult {
    let data = gen_payload("payload.len", 160);
    let sliced = sim::flip("src.sliced", 1, 3);
    if sliced && !data.is_empty() {
        let a = sim::range("src.a", 0, data.len() as u64) as usize;
        let b = a + sim::range("src.b", 0, (data.len() - a) as u64) as usize;
        sim::log(|| format!("write_all of {}-byte buffer .slice({a}..{b})", data.len()));
        let BufResult(res, back) = bounded(sink.write_all(data.clone().slice(a..b)))?;
        check!(back.into_inner() == data, "buffer-returned", "the submitted buffer came back changed");
        check_write_result(&res, &sink, &data[a..b])
    } else {
        sim::log(|| format!("write_all of {} bytes", data.len()));
        let BufResult(res, back) = bounded(sink.write_all(data.clone()))?;
        check!(back == data, "buffer-returned", "the submitted buffer came back changed");
        check_write_result(&res, &sink, &data)
    }
}

fn write_vectored_all() -> RunResult {
    with_sink!(true, |sink| write_vectored_all_case(sink))
}

fn write_vectored_all_case<K: TestSink>(mut sink: K) -> RunResult {
    let k = sim::range("vec.count", 0, 4) as usize;
    let mut bufs = Vec::new();
    for _ in 0..k {
        bufs.push(gen_payload("vec.len", 40));
    }
    let all: Vec<u8> = bufs.concat();
    sim::log(|| format!("write_vectored_all of buffers with lengths {:?}", bufs.iter().map(|b| b.len()).collect::<Vec<_>>()));
    let BufResult(res, back) = bounded(sink.write_vectored_all(bufs.clone()))?;
    check!(back == bufs, "buffer-returned", "the submitted buffers came back changed");
    check_write_result(&res, &sink, &all)
}

// ------------------------------------------------------------------ copy

fn copy() -> RunResult {
    with_src!(true, 300, |src, p| {
        let f = Faults::draw(true);
        let sink = SimStream::writer(f);
        copy_case(src, p, sink)
    })
}

fn copy_case<S: TestSrc>(mut src: S, p: &[u8], mut sink: SimStream) -> RunResult {
    let size = sim::range("copy.buf", 1, 64) as usize;
    sim::log(|| format!("copy_with_size(buf {size}) of {} bytes", p.len()));
    let res = bounded(compio_io::util::copy_with_size(&mut src, &mut sink, size))?;
    match res {
        Ok(n) => {
            check!(!src.hard_fired() && !sink.whard_fired() && !sink.zero_fired(), "error-swallowed", "copy reported success although an endpoint failed");
            check!(n == p.len() as u64, "count", "copy returned {n} for a {}-byte source", p.len());
            sink.verify(p, true)?;
            let s = sink.tx.0.borrow();
            check!(s.flushes >= 1 && s.closed, "not-finished", "copy returned without flushing/shutting down the writer (flushes {}, closed {})", s.flushes, s.closed);
        }
        Err(e) => {
            let legit = (e.kind() == HARD_KIND && (src.hard_fired() || sink.whard_fired()))
                || (e.kind() == ErrorKind::WriteZero && sink.zero_fired())
                // copy does not retry an interrupted final flush/shutdown; it reports it
                || (e.kind() == ErrorKind::Interrupted && sink.tx.0.borrow().flush_intr_fired);
            check!(legit, "error-kind", "unexpected error {:?} ({e})", e.kind());
            sink.verify(&p[..src.consumed().min(p.len())], false)?;
        }
    }
    Ok(())
}

// ------------------------------------------------------------------ BufReader

fn buf_reader() -> RunResult {
    let p = gen_payload("payload.len", 200);
    let f = Faults::draw(true);
    let src = SimStream::reader(&p, f);
    let cap = sim::range("bufreader.cap", 1, 32) as usize;
    let mut r = BufReader::with_capacity(cap, src.clone());
    let mut out: Vec<u8> = Vec::new();
    let nops = sim::range("ops", 1, 24);
    sim::log(|| format!("BufReader(cap {cap}) over a {}-byte source, {f:?}", p.len()));
    for _ in 0..nops {
        let op = sim::choose("op", 4);
        match op {
            0 => {
                let c = sim::range("read.cap", 0, 24) as usize;
                let BufResult(res, v) = bounded(r.read(Vec::with_capacity(c)))?;
                sim::log(|| format!("read(cap {c}) -> {res:?}"));
                match res {
                    Ok(n) => {
                        check!(v.len() == n, "length", "read returned {n} but buffer length is {}", v.len());
                        out.extend_from_slice(&v);
                    }
                    Err(e) => check_reader_err(&e, &src)?,
                }
            }
            1 => {
                let k = sim::range("fill.consume", 0, 16) as usize;
                let res = bounded(r.fill_buf())?;
                match res {
                    Ok(b) => {
                        let k = k.min(b.len());
                        out.extend_from_slice(&b[..k]);
                        sim::log(|| format!("fill_buf -> {} bytes, consume({k})", b.len()));
                        r.consume(k);
                    }
                    Err(e) => check_reader_err(&e, &src)?,
                }
            }
            2 => {
                let c = sim::range("exact.cap", 0, 12) as usize;
                let have = out.len();
                let BufResult(res, v) = bounded(r.read_exact(Vec::with_capacity(c)))?;
                sim::log(|| format!("read_exact(cap {c}) -> {res:?}"));
                match res {
                    Ok(()) => out.extend_from_slice(&v),
                    Err(e) if e.kind() == ErrorKind::UnexpectedEof => {
                        check!(!src.rx.0.borrow().hard_read_fired || true, "x", "");
                        check!(p.len() - have.min(p.len()) < v.capacity().max(c), "spurious-eof", "read_exact({c}) reported EOF with {} bytes left", p.len() - have);
                        // whatever was read before EOF is consumed and gone; stop here
                        return Ok(());
                    }
                    Err(e) => {
                        check_reader_err(&e, &src)?;
                        return Ok(());
                    }
                }
            }
            _ => {
                let caps = [sim::range("v.cap", 0, 8) as usize, sim::range("v.cap", 0, 8) as usize];
                let bufs = [Vec::with_capacity(caps[0]), Vec::with_capacity(caps[1])];
                let BufResult(res, bufs) = bounded(r.read_vectored(bufs))?;
                sim::log(|| format!("read_vectored(caps {caps:?}) -> {res:?}"));
                match res {
                    Ok(n) => {
                        let got: Vec<u8> = bufs.concat();
                        check!(got.len() == n, "length", "read_vectored returned {n} but buffers hold {}", got.len());
                        out.extend_from_slice(&got);
                    }
                    Err(e) => check_reader_err(&e, &src)?,
                }
            }
        }
        check!(out.len() <= p.len() && out[..] == p[..out.len()], "content", "BufReader output is not a prefix of the source: {}", first_diff(&out, &p[..out.len().min(p.len())]));
        if src.rx.0.borrow().hard_read_fired {
            return Ok(());
        }
    }
    // drain: everything must still come out, in order
    src.rx.set_quiet();
    let BufResult(res, rest) = bounded(r.read_to_end(Vec::new()))?;
    check!(res.is_ok(), "error-kind", "read_to_end through BufReader failed without a fault: {res:?}");
    out.extend_from_slice(&rest);
    check!(out == p, "content", "bytes through BufReader differ from the source: {}", first_diff(&out, &p));
    Ok(())
}

fn check_reader_err(e: &io::Error, src: &SimStream) -> RunResult {
    match e.kind() {
        ErrorKind::Interrupted => Ok(()),
        k if k == HARD_KIND && src.rx.0.borrow().hard_read_fired => Ok(()),
        k => violation!("error-kind", "unexpected error {k:?} ({e})"),
    }
}

// ------------------------------------------------------------------ BufWriter

fn buf_writer() -> RunResult {
    let f = Faults::draw(true);
    let sink = SimStream::writer(f);
    let cap = sim::range("bufwriter.cap", 1, 32) as usize;
    let mut w = BufWriter::with_capacity(cap, sink.clone());
    let mut accepted: Vec<u8> = Vec::new();
    let nops = sim::range("ops", 1, 20);
    sim::log(|| format!("BufWriter(cap {cap}), sink {f:?}"));
    let failed = |sink: &SimStream| sink.whard_fired() || sink.zero_fired();
    for _ in 0..nops {
        match sim::choose("op", 4) {
            0 => {
                let data = gen_payload("write.len", 40);
                let BufResult(res, _) = bounded(w.write(data.clone()))?;
                sim::log(|| format!("write({} bytes) -> {res:?}", data.len()));
                match res {
                    Ok(n) => {
                        check!(n <= data.len(), "count", "write returned {n} for {} bytes", data.len());
                        accepted.extend_from_slice(&data[..n]);
                    }
                    // an error means: nothing of this call was accepted
                    Err(e) => check_writer_err(&e, &sink)?,
                }
            }
            1 => {
                let data = gen_payload("write.len", 60);
                let BufResult(res, _) = bounded(w.write_all(data.clone()))?;
                sim::log(|| format!("write_all({} bytes) -> {res:?}", data.len()));
                match res {
                    Ok(()) => accepted.extend_from_slice(&data),
                    Err(e) => {
                        check_writer_err(&e, &sink)?;
                        check!(failed(&sink), "error-kind", "write_all failed with {e:?} without a hard fault");
                        return Ok(());
                    }
                }
            }
            2 => {
                let bufs = [gen_payload("v.len", 12), gen_payload("v.len", 12), gen_payload("v.len", 12)];
                let all = bufs.concat();
                let BufResult(res, _) = bounded(w.write_vectored(bufs))?;
                sim::log(|| format!("write_vectored({} bytes) -> {res:?}", all.len()));
                match res {
                    Ok(n) => {
                        check!(n <= all.len(), "count", "write_vectored returned {n} for {} bytes", all.len());
                        accepted.extend_from_slice(&all[..n]);
                    }
                    Err(e) => check_writer_err(&e, &sink)?,
                }
            }
            _ => {
                let res = bounded(w.flush())?;
                sim::log(|| format!("flush -> {res:?}"));
                match res {
                    Ok(()) => sink.verify(&accepted, true)?,
                    Err(e) => check_writer_err(&e, &sink)?,
                }
            }
        }
        if failed(&sink) {
            // after a hard failure: what reached the sink is a prefix of what was accepted
            return sink.verify(&accepted, false);
        }
        sink.verify(&accepted, false)?;
    }
    sink.tx.set_quiet();
    let res = bounded(w.flush())?;
    check!(res.is_ok(), "error-kind", "final flush failed without a fault: {res:?}");
    sink.verify(&accepted, true)
}

fn check_writer_err(e: &io::Error, sink: &SimStream) -> RunResult {
    match e.kind() {
        ErrorKind::Interrupted => Ok(()),
        k if k == HARD_KIND && sink.whard_fired() => Ok(()),
        ErrorKind::WriteZero if sink.zero_fired() => Ok(()),
        k => violation!("error-kind", "unexpected error {k:?} ({e})"),
    }
}

// ------------------------------------------------------------------ Take

fn take() -> RunResult {
    let p = gen_payload("payload.len", 120);
    let f = Faults::draw(false);
    let src = SimStream::reader(&p, f);
    let limit = sim::range("take.limit", 0, p.len() as u64 + 8);
    let want = &p[..(limit as usize).min(p.len())];
    sim::log(|| format!("take({limit}) over {} bytes, {f:?}", p.len()));
    if sim::flip("take.buffered", 1, 2) {
        // the AsyncBufRead path
        let cap = sim::range("bufreader.cap", 1, 16) as usize;
        let mut t = BufReader::with_capacity(cap, src.clone()).take(limit);
        let mut out = Vec::new();
        // at most 3 consecutive Pending and a finite run of Interrupted per byte: this bound is never the limit
        for round in 0.. {
            check!(round < 200_000, "step-bound", "take(BufReader) does not reach EOF");
            let res = bounded(t.fill_buf())?;
            match res {
                Ok(b) if b.is_empty() => break,
                Ok(b) => {
                    // contract of consume: at most what fill_buf returned
                    let k = 1 + sim::range("consume", 0, b.len() as u64 - 1) as usize;
                    out.extend_from_slice(&b[..k]);
                    t.consume(k);
                }
                Err(e) if e.kind() == ErrorKind::Interrupted => {}
                Err(e) => violation!("error-kind", "unexpected error {e:?}"),
            }
        }
        check!(out == want, "content", "take(BufReader) delivered {}", first_diff(&out, want));
    } else {
        let mut t = src.clone().take(limit);
        let BufResult(res, out) = bounded(t.read_to_end(Vec::new()))?;
        check!(res.is_ok(), "error-kind", "unexpected error {res:?}");
        check!(out == want, "content", "take delivered {}", first_diff(&out, want));
        check!(src.consumed() as u64 <= limit, "overread", "take({limit}) consumed {} bytes from its reader", src.consumed());
        check!(t.limit() == limit - want.len() as u64, "limit", "remaining limit {} after reading {} of {limit}", t.limit(), want.len());
    }
    Ok(())
}

// ------------------------------------------------------------------ split halves

fn split_halves() -> RunResult {
    let p_in = gen_payload("payload.len", 120);
    let p_out = gen_payload("payload.len", 120);
    let fr = Faults::draw(false);
    let fw = Faults::draw(false);
    let stream = SimStream {
        rx: Chan::source(&p_in, fr),
        tx: Chan::sink(fw),
    };
    let probe = stream.clone();
    let (mut rd, mut wr) = compio_io::split(stream);
    let mut got: Option<BufResult<usize, Vec<u8>>> = None;
    let mut wres = None;
    {
        let got = &mut got;
        let wres = &mut wres;
        let data = p_out.clone();
        let t1: LocalFut<'_> = Box::pin(async move {
            *got = Some(rd.read_to_end(Vec::new()).await);
        });
        let t2: LocalFut<'_> = Box::pin(async move {
            let BufResult(r, _) = wr.write_all(data).await;
            let r = match r {
                Ok(()) => wr.flush().await,
                e => e,
            };
            *wres = Some(r);
        });
        run_tasks(vec![t1, t2], &mut || false, STEP_BOUND)?;
    }
    let BufResult(res, v) = got.unwrap();
    check!(res.is_ok(), "error-kind", "read half failed: {res:?}");
    check!(v == p_in, "content", "read half delivered {}", first_diff(&v, &p_in));
    let wres = wres.unwrap();
    // flush may be interrupted; the data must be there regardless
    check!(wres.is_ok() || wres.as_ref().unwrap_err().kind() == ErrorKind::Interrupted, "error-kind", "write half failed: {wres:?}");
    probe.verify(&p_out, true)
}

// ------------------------------------------------------------------ positional helpers

fn positional_read() -> RunResult {
    let data = gen_payload("file.len", 120);
    let pos = sim::range("pos", 0, data.len() as u64 + 6);
    let tail: &[u8] = &data[(pos as usize).min(data.len())..];
    let in_memory = sim::flip("file.inmem", 1, 3);
    let f = if in_memory { Faults::none() } else { Faults::draw(true) };
    let file = SimFile::new(data.clone(), f);
    let hard = |file: &SimFile| file.0.borrow().hard_fired;
    match sim::choose("helper", 3) {
        0 => {
            let cap = sim::range("dst.cap", 0, 40) as usize;
            let dst = Vec::with_capacity(cap);
            let cap = dst.capacity();
            sim::log(|| format!("read_exact_at(cap {cap}, pos {pos}) over {} bytes (in-memory: {in_memory})", data.len()));
            let BufResult(res, v) = if in_memory {
                bounded(data.read_exact_at(dst, pos))?
            } else {
                bounded(file.read_exact_at(dst, pos))?
            };
            match res {
                Ok(()) => {
                    check!(tail.len() >= cap, "fabricated", "read_exact_at succeeded with only {} bytes after pos", tail.len());
                    check!(v[..] == tail[..cap], "content", "read_exact_at: {}", first_diff(&v, &tail[..cap]));
                }
                Err(e) if e.kind() == ErrorKind::UnexpectedEof => check!(tail.len() < cap, "spurious-eof", "UnexpectedEof with {} bytes available for {cap}", tail.len()),
                Err(e) if e.kind() == HARD_KIND && hard(&file) => {}
                Err(e) => violation!("error-kind", "unexpected error {e:?}"),
            }
        }
        1 => {
            let len = sim::range("dst.len", 0, 10) as usize;
            let dst = vec_with(len, len + sim::range("dst.spare", 0, 30) as usize);
            let pre = pre_bytes(len);
            sim::log(|| format!("read_to_end_at(Vec len {len}, pos {pos}) over {} bytes (in-memory: {in_memory})", data.len()));
            let BufResult(res, v) = if in_memory {
                bounded(data.read_to_end_at(dst, pos))?
            } else {
                bounded(file.read_to_end_at(dst, pos))?
            };
            check!(v.len() >= len && v[..len] == pre[..], "preexisting-content", "read_to_end_at changed the {len} bytes already in the buffer (documented: appends): now {} (was {})", short(&v[..len.min(v.len())]), short(&pre));
            match res {
                Ok(n) => {
                    check!(n == tail.len(), "count", "read_to_end_at returned {n}, {} bytes follow pos", tail.len());
                    check!(&v[len..] == tail, "content", "read_to_end_at: {}", first_diff(&v[len..], tail));
                }
                Err(e) if e.kind() == HARD_KIND && hard(&file) => {
                    let got = &v[len..];
                    check!(got.len() <= tail.len() && got == &tail[..got.len()], "content", "after failure: {}", first_diff(got, tail));
                }
                Err(e) => violation!("error-kind", "unexpected error {e:?}"),
            }
        }
        _ => {
            let caps = [sim::range("v.cap", 0, 16) as usize, sim::range("v.cap", 0, 16) as usize, sim::range("v.cap", 0, 16) as usize];
            let bufs = [Vec::with_capacity(caps[0]), Vec::with_capacity(caps[1]), Vec::with_capacity(caps[2])];
            let caps: Vec<usize> = bufs.iter().map(|b| b.capacity()).collect();
            let want: usize = caps.iter().sum();
            sim::log(|| format!("read_vectored_exact_at(caps {caps:?}, pos {pos}) over {} bytes (in-memory: {in_memory})", data.len()));
            let BufResult(res, bufs) = if in_memory {
                bounded(data.read_vectored_exact_at(bufs, pos))?
            } else {
                bounded(file.read_vectored_exact_at(bufs, pos))?
            };
            match res {
                Ok(()) => {
                    let got = bufs.concat();
                    check!(tail.len() >= want, "fabricated", "succeeded with only {} bytes after pos", tail.len());
                    check!(got[..] == tail[..want], "content", "read_vectored_exact_at: {}", first_diff(&got, &tail[..want]));
                }
                Err(e) if e.kind() == ErrorKind::UnexpectedEof => check!(tail.len() < want, "spurious-eof", "UnexpectedEof with {} bytes available for {want}", tail.len()),
                Err(e) if e.kind() == HARD_KIND && hard(&file) => {}
                Err(e) => violation!("error-kind", "unexpected error {e:?}"),
            }
        }
    }
    Ok(())
}

fn positional_write() -> RunResult {
    let initial = gen_payload("file.len", 60);
    let pos = sim::range("pos", 0, initial.len() as u64 + 6);
    let in_memory = sim::flip("file.inmem", 1, 2);
    let f = if in_memory { Faults::none() } else { Faults::draw(true) };
    let mut file = SimFile::new(initial.clone(), f);
    let mut mem = initial.clone();
    let vectored = sim::flip("vectored", 1, 2);
    let bufs: Vec<Vec<u8>> = if vectored {
        (0..sim::range("vec.count", 0, 3)).map(|_| gen_payload("v.len", 24)).collect()
    } else {
        vec![gen_payload("w.len", 60)]
    };
    let all = bufs.concat();
    sim::log(|| format!("write{}_all_at({} bytes, pos {pos}) over {} bytes (in-memory: {in_memory})", if vectored { "_vectored" } else { "" }, all.len(), initial.len()));
    let res = if vectored {
        if in_memory {
            bounded(mem.write_vectored_all_at(bufs, pos))?.0
        } else {
            bounded(file.write_vectored_all_at(bufs, pos))?.0
        }
    } else if in_memory {
        bounded(mem.write_all_at(all.clone(), pos))?.0
    } else {
        bounded(file.write_all_at(all.clone(), pos))?.0
    };
    let got = if in_memory { mem.clone() } else { file.0.borrow().data.clone() };
    match res {
        Ok(()) => {
            if !all.is_empty() {
                let want = overlay(&initial, pos as usize, &all);
                check!(got == want, "content", "file content after write: {}", first_diff(&got, &want));
            } else {
                check!(got[..initial.len().min(got.len())] == initial[..initial.len().min(got.len())], "content", "empty write changed the file");
            }
        }
        Err(e) if e.kind() == HARD_KIND && file.0.borrow().hard_fired => {}
        Err(e) => violation!("error-kind", "unexpected error {e:?}"),
    }
    let _ = &mut file;
    Ok(())
}

#[allow(dead_code)]
fn _assert_traits<T: AsyncWriteAt>() {}
