use simcore as sim;

pub const STEP_BOUND: u64 = 200_000;

/// Payload whose every byte is attributable (position-dependent, seed-dependent).
pub fn gen_payload(kind: &'static str, max: usize) -> Vec<u8> {
    let len = sim::range(kind, 0, max as u64) as usize;
    let seed = sim::subseed("payload.seed");
    sim::payload(seed, len)
}

/// A Vec with `len` pre-existing marker bytes and at least `cap` capacity
/// (exactly `cap` when the allocator allows, which it does for these sizes).
pub fn vec_with(len: usize, cap: usize) -> Vec<u8> {
    let mut v = Vec::with_capacity(cap.max(len));
    v.extend((0..len).map(|i| 0xE0 ^ (i as u8 & 0x0f)));
    v
}

pub fn pre_bytes(len: usize) -> Vec<u8> {
    (0..len).map(|i| 0xE0 ^ (i as u8 & 0x0f)).collect()
}

pub fn short(v: &[u8]) -> String {
    if v.len() <= 24 {
        format!("{v:02x?}")
    } else {
        format!("{:02x?}…(+{} bytes)", &v[..24], v.len() - 24)
    }
}

pub fn first_diff(a: &[u8], b: &[u8]) -> String {
    let n = a.len().min(b.len());
    for i in 0..n {
        if a[i] != b[i] {
            return format!("first difference at byte {i}: got {:#04x}, expected {:#04x} (lengths {} vs {})", a[i], b[i], a.len(), b.len());
        }
    }
    format!("common prefix of {n} bytes; lengths {} vs {}", a.len(), b.len())
}
