//! C13 — framing codecs: round-trip under arbitrary fragmentation, and
//! hostile-input safety (the pure ancillary builder/iterator half is not a
//! simulation target, DESIGN §8).

use bytes::Bytes;
use compio_io::framed::{
    Framed,
    codec::{bytes::BytesCodec, serde_json::SerdeJsonCodec},
    frame::{AnyDelimited, CharDelimited, Framer, LengthDelimited, NoopFramer},
};
use futures_util::{SinkExt, StreamExt};
use iosim::*;
use serde::{Deserialize, Serialize};
use simcore::{self as sim, RunResult, check, worker::Scenario};

use crate::util::*;

pub fn scenarios() -> Vec<Scenario> {
    let s = |name, run, weight| Scenario {
        name,
        property: "C13",
        engine: "S",
        run,
        weight,
    };
    vec![s("roundtrip", roundtrip, 2), s("hostile", hostile, 1)]
}

#[derive(Debug, Clone, PartialEq, Serialize, Deserialize)]
struct Msg {
    id: u32,
    name: String,
    vals: Vec<u16>,
}

fn gen_frame(max: usize, forbid: &[u8]) -> Vec<u8> {
    let mut v = gen_payload("frame.len", max);
    if !forbid.is_empty() {
        for b in v.iter_mut() {
            while forbid.contains(b) {
                *b = b.wrapping_add(1);
            }
        }
    }
    v
}

fn transport() -> (SimStream, SimStream, Faults, Faults) {
    let fw = Faults::draw(false);
    let fr = Faults::draw(true).retryable_only();
    let mut fr = fr;
    // a one-shot hard read error loses no data; the stream must carry on
    if sim::flip("cfg.hard.read", 1, 4) {
        fr.hard = 3;
    }
    let cap = sim::range("chan.cap", 1, 96) as usize;
    let (a, b) = SimStream::pair(cap, cap, fw, fr);
    a.tx.0.borrow_mut().hold_until_flush = sim::flip("tx.hold", 1, 3);
    (a, b, fw, fr)
}

fn roundtrip() -> RunResult {
    let nframes = sim::range("frames", 0, 8) as usize;
    match sim::choose("framer", 6) {
        0 => {
            let width = sim::range("lfl", 1, 8) as usize;
            let be = sim::flip("lfl.le", 1, 2);
            let max = if width == 1 { 255 } else { 300 };
            let frames: Vec<Vec<u8>> = (0..nframes).map(|_| gen_frame(max, &[])).collect();
            sim::log(|| format!("LengthDelimited(width {width}, big-endian {}), {} frames {:?}", !be, frames.len(), frames.iter().map(|f| f.len()).collect::<Vec<_>>()));
            let framer = LengthDelimited::new().set_length_field_len(width).set_length_field_is_big_endian(!be);
            bytes_roundtrip(framer, frames, false)
        }
        1 => {
            let frames: Vec<Vec<u8>> = (0..nframes).map(|_| gen_frame(120, b"\n")).collect();
            sim::log(|| format!("CharDelimited<'\\n'>, frames {:?}", frames.iter().map(|f| f.len()).collect::<Vec<_>>()));
            bytes_roundtrip(CharDelimited::<'\n'>::new(), frames, false)
        }
        2 => {
            let dl = sim::range("delim.len", 1, 3) as usize;
            let delim: Vec<u8> = (0..dl).map(|i| 0xA0 + i as u8).collect();
            // a payload never contains the delimiter; with a delimiter of several (distinct) bytes it may
            // contain any part of it, the first byte alone included
            let frames: Vec<Vec<u8>> = (0..nframes)
                .map(|_| {
                    let mut f = gen_frame(120, &delim);
                    if dl > 1 && !f.is_empty() && sim::flip("frame.delimiter.parts", 1, 2) {
                        for _ in 0..1 + sim::range("frame.parts", 0, 3) {
                            let at = sim::range("frame.part.at", 0, f.len() as u64 - 1) as usize;
                            f[at] = delim[sim::choose("frame.part.byte", dl)];
                        }
                        // no complete delimiter by accident
                        while let Some(i) = f.windows(dl).position(|w| w == &delim[..]) {
                            f[i + dl - 1] = 0x11;
                        }
                    }
                    f
                })
                .collect();
            sim::log(|| format!("AnyDelimited({delim:02x?}), frames {:?}", frames.iter().map(|f| f.len()).collect::<Vec<_>>()));
            bytes_roundtrip(AnyDelimited::new(&delim), frames, false)
        }
        3 => {
            let frames: Vec<Vec<u8>> = (0..nframes).map(|_| gen_frame(200, &[])).filter(|f| !f.is_empty()).collect();
            sim::log(|| format!("NoopFramer, frames {:?}", frames.iter().map(|f| f.len()).collect::<Vec<_>>()));
            bytes_roundtrip(NoopFramer::new(), frames, true)
        }
        4 => json_roundtrip(LengthDelimited::new().set_length_field_len(sim::range("lfl", 2, 8) as usize), nframes),
        _ => json_roundtrip(CharDelimited::<'\n'>::new(), nframes),
    }
}

fn bytes_roundtrip<F: Framer<Vec<u8>> + Clone + Unpin>(framer: F, frames: Vec<Vec<u8>>, merge_ok: bool) -> RunResult {
    let (a, b, fw, fr) = transport();
    sim::log(|| format!("writer {fw:?}; reader {fr:?}"));
    let mut sink = Framed::new::<Bytes, Bytes>(BytesCodec::new(), framer.clone()).with_writer(a.clone());
    let mut stream = Framed::new::<Bytes, Bytes>(BytesCodec::new(), framer).with_reader(b.clone());
    let mut got: Vec<Vec<u8>> = Vec::new();
    let mut errs: Vec<String> = Vec::new();
    {
        let got = &mut got;
        let errs_r = std::cell::RefCell::new(Vec::<String>::new());
        let errs_ref = &errs_r;
        let frames_w = frames.clone();
        let probe_w = a.clone();
        let t_w: LocalFut<'_> = Box::pin(async move {
            for f in frames_w {
                if let Err(e) = sink.feed(Bytes::from(f)).await {
                    errs_ref.borrow_mut().push(format!("feed: {e:?}"));
                    return;
                }
                // flushing after every frame is optional; close must deliver everything anyway
                if sim::flip("w.skip_flush", 1, 3) {
                    continue;
                }
                loop {
                    match sink.flush().await {
                        Ok(()) => {
                            let held = probe_w.tx.0.borrow().held.len();
                            if held > 0 {
                                errs_ref.borrow_mut().push(format!("flush returned Ok with {held} bytes still held back by the transport"));
                                return;
                            }
                            break;
                        }
                        Err(e) if e.kind() == std::io::ErrorKind::Interrupted => {}
                        Err(e) => {
                            errs_ref.borrow_mut().push(format!("flush: {e:?}"));
                            return;
                        }
                    }
                }
            }
            loop {
                match sink.close().await {
                    Ok(()) => break,
                    Err(e) if e.kind() == std::io::ErrorKind::Interrupted => {}
                    Err(e) => {
                        errs_ref.borrow_mut().push(format!("close: {e:?}"));
                        return;
                    }
                }
            }
        });
        let t_r: LocalFut<'_> = Box::pin(async move {
            while let Some(item) = stream.next().await {
                match item {
                    Ok(b) => got.push(b.to_vec()),
                    Err(e) if e.kind() == std::io::ErrorKind::Interrupted || e.kind() == HARD_KIND => {}
                    Err(e) => {
                        errs_ref.borrow_mut().push(format!("next: {e:?}"));
                        return;
                    }
                }
            }
        });
        run_tasks(vec![t_w, t_r], &mut || false, STEP_BOUND)?;
        errs.extend(errs_r.into_inner());
    }
    check!(errs.is_empty(), "error-kind", "unexpected failure without a non-retryable fault: {}", errs[0]);
    if merge_ok {
        let g = got.concat();
        let w = frames.concat();
        check!(g == w, "content", "byte stream through NoopFramer differs: {}", first_diff(&g, &w));
        check!(got.iter().all(|f| !f.is_empty() && f.len() <= 4096), "frame-size", "NoopFramer produced an empty or oversized frame");
    } else {
        check!(got.len() == frames.len(), "frame-count", "{} frames sent, {} decoded (sizes sent {:?}, got {:?})", frames.len(), got.len(), frames.iter().map(|f| f.len()).collect::<Vec<_>>(), got.iter().map(|f| f.len()).collect::<Vec<_>>());
        for (i, (g, w)) in got.iter().zip(frames.iter()).enumerate() {
            check!(g == w, "content", "frame {i}: {}", first_diff(g, w));
        }
    }
    Ok(())
}

fn json_roundtrip<F: Framer<Vec<u8>> + Clone + Unpin>(framer: F, n: usize) -> RunResult {
    let msgs: Vec<Msg> = (0..n)
        .map(|i| Msg {
            id: sim::range("msg.id", 0, u32::MAX as u64) as u32,
            name: format!("m{i}-{}", "x".repeat(sim::range("msg.name", 0, 40) as usize)),
            vals: (0..sim::range("msg.vals", 0, 20)).map(|v| v as u16 * 3).collect(),
        })
        .collect();
    let (a, b, fw, fr) = transport();
    sim::log(|| format!("serde_json codec, {n} messages; writer {fw:?}; reader {fr:?}"));
    let mut sink = Framed::new::<Msg, Msg>(SerdeJsonCodec::new(), framer.clone()).with_writer(a.clone());
    let mut stream = Framed::new::<Msg, Msg>(SerdeJsonCodec::new(), framer).with_reader(b.clone());
    let mut got: Vec<Msg> = Vec::new();
    let errs = std::cell::RefCell::new(Vec::<String>::new());
    {
        let got = &mut got;
        let errs = &errs;
        let msgs_w = msgs.clone();
        use compio_io::framed::codec::serde_json::SerdeJsonCodecError as E;
        let retry = |e: &E| matches!(e, E::IoError(e) if e.kind() == std::io::ErrorKind::Interrupted || e.kind() == HARD_KIND);
        let t_w: LocalFut<'_> = Box::pin(async move {
            for m in msgs_w {
                if let Err(e) = sink.feed(m).await {
                    errs.borrow_mut().push(format!("feed: {e:?}"));
                    return;
                }
                loop {
                    match sink.flush().await {
                        Ok(()) => break,
                        Err(e) if retry(&e) => {}
                        Err(e) => {
                            errs.borrow_mut().push(format!("flush: {e:?}"));
                            return;
                        }
                    }
                }
            }
            loop {
                match sink.close().await {
                    Ok(()) => break,
                    Err(e) if retry(&e) => {}
                    Err(e) => {
                        errs.borrow_mut().push(format!("close: {e:?}"));
                        return;
                    }
                }
            }
        });
        let t_r: LocalFut<'_> = Box::pin(async move {
            while let Some(item) = stream.next().await {
                match item {
                    Ok(m) => got.push(m),
                    Err(e) if retry(&e) => {}
                    Err(e) => {
                        errs.borrow_mut().push(format!("next: {e:?}"));
                        return;
                    }
                }
            }
        });
        run_tasks(vec![t_w, t_r], &mut || false, STEP_BOUND)?;
    }
    let errs = errs.into_inner();
    check!(errs.is_empty(), "error-kind", "unexpected failure: {}", errs[0]);
    check!(got == msgs, "content", "decoded messages differ: sent {} got {}", msgs.len(), got.len());
    Ok(())
}

// ------------------------------------------------------------------ hostile peer

fn hostile_bytes(width: usize) -> Vec<u8> {
    let mut v = Vec::new();
    let pieces = sim::range("hostile.pieces", 0, 6);
    for _ in 0..pieces {
        match sim::choose("hostile.kind", 6) {
            0 => v.extend(gen_payload("hostile.len", 40)),
            // a length header of all ones / near-maximal values
            1 => v.extend(std::iter::repeat_n(0xFF, width)),
            2 => {
                v.extend(std::iter::repeat_n(0xFF, width.saturating_sub(1)));
                v.push(0xF0 | sim::range("hostile.low", 0, 15) as u8);
            }
            3 => v.extend(std::iter::repeat_n(0u8, sim::range("hostile.zeros", 0, 12) as usize)),
            4 => {
                // a well-formed small frame
                let n = sim::range("hostile.small", 0, 9) as usize;
                let mut h = vec![0u8; width];
                h[width - 1] = n as u8;
                v.extend(h);
                v.extend(gen_payload("hostile.len", n).into_iter().chain(std::iter::repeat(7)).take(n));
            }
            _ => v.extend(b"\n\xA0\xA1{\"id\":1}\n\xA0"),
        }
    }
    v
}

fn hostile() -> RunResult {
    let which = sim::choose("framer", 5);
    let width = if which == 0 { sim::range("lfl", 1, 8) as usize } else { 4 };
    let data = hostile_bytes(width);
    let fr = Faults::draw(true);
    let src = SimStream::reader(&data, fr);
    sim::log(|| format!("hostile input {} to framer #{which} (width {width}); {fr:?}", short(&data)));
    fn drive<S: futures_util::Stream + Unpin>(mut s: S, data_len: usize) -> RunResult {
        let items = block_on(
            async move {
                let mut n = 0usize;
                while let Some(_item) = s.next().await {
                    n += 1;
                    if n > 4 * data_len + 64 {
                        return Err(n);
                    }
                }
                Ok(n)
            },
            STEP_BOUND,
        )?;
        match items {
            Ok(_) => Ok(()),
            Err(n) => Err(sim::Violation::new("endless", format!("{n} items produced from {data_len} input bytes without reaching the end"))),
        }
    }
    match which {
        0 => {
            let be = sim::flip("lfl.le", 1, 2);
            let framer = LengthDelimited::new().set_length_field_len(width).set_length_field_is_big_endian(!be);
            drive(Framed::new::<Bytes, Bytes>(BytesCodec::new(), framer).with_reader(src), data.len())
        }
        1 => drive(Framed::new::<Bytes, Bytes>(BytesCodec::new(), CharDelimited::<'\n'>::new()).with_reader(src), data.len()),
        2 => drive(Framed::new::<Bytes, Bytes>(BytesCodec::new(), AnyDelimited::new(&[0xA0, 0xA1])).with_reader(src), data.len()),
        3 => drive(Framed::new::<Bytes, Bytes>(BytesCodec::new(), NoopFramer::new()).with_reader(src), data.len()),
        _ => drive(Framed::new::<Msg, Msg>(SerdeJsonCodec::new(), CharDelimited::<'\n'>::new()).with_reader(src), data.len()),
    }
}
