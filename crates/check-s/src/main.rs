//! Engine S checks: C11 (I/O helpers), C12 (compat adapters), C13 (framing),
//! C15 (TLS / WebSocket over a simulated duplex transport).

mod c11;
mod c12;
mod c13;
mod c15;
mod util;

use simcore::worker::Scenario;

fn main() {
    let mut scenarios: Vec<Scenario> = Vec::new();
    scenarios.extend(c11::scenarios());
    scenarios.extend(c12::scenarios());
    scenarios.extend(c13::scenarios());
    scenarios.extend(c15::scenarios());
    simcore::worker::main(&scenarios)
}
