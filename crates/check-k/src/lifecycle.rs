//! C01 / C06 — what an in-flight operation refers to stays alive until the kernel is done with it, and
//! is then released exactly once; descriptors produced by operations are delivered or closed.
//!
//! Actors start one operation each (receive, vectored receive, pipe read, multishot and managed
//! receives, zero-copy send, accept, positional file read/write, open, a blocking-pool job) on their own
//! resource and abandon it in a generated way at a generated instant — the task is dropped, a token
//! fires, a timeout elapses — or await it; the awaited event (the peer writes, a client connects)
//! happens at a generated instant or never; the whole runtime may be dropped at a generated instant
//! with everything still in flight. The oracles are global ones of Engine K: the allocator reports
//! memory freed or moved while a pending operation's ranges cover it, `close` reports descriptors closed
//! under a pending operation, freed blocks must stay unmodified, the descriptor table must be back to
//! what it was, every instrumented buffer is dropped exactly once, and a zero-copy send's buffer comes
//! back only after the kernel's notification.

use std::{
    cell::{Cell, RefCell},
    io::Write,
    mem::MaybeUninit,
    rc::Rc,
    time::Duration,
};

use compio_buf::{BufResult, IoBuf, IoBufMut, SetLen};
use compio_driver::ProactorBuilder;
use compio_io::{AsyncRead, AsyncReadAt, AsyncReadManaged, AsyncReadMulti, AsyncWriteAt, AsyncWriteZerocopy};
use compio_runtime::{CancelToken, FutureExt as _, time::sleep};
use futures_util::StreamExt;
use simcore::{self as sim, RunResult, check, worker::Scenario};

use crate::kutil::*;

pub fn scenarios() -> Vec<Scenario> {
    vec![
        Scenario {
            name: "lifecycle",
            property: "C01",
            engine: "K",
            run: lifecycle,
            weight: 1,
        },
        Scenario {
            name: "lifecycle",
            property: "C06",
            engine: "K",
            run: lifecycle,
            weight: 1,
        },
    ]
}

// ---------------------------------------------------------------- instrumented buffers

#[derive(Default)]
struct Registry {
    drops: RefCell<Vec<u32>>,
}

/// A `Vec<u8>` that reports its drop.
struct TBuf {
    v: Vec<u8>,
    id: usize,
    reg: Rc<Registry>,
}

impl TBuf {
    fn with_capacity(reg: &Rc<Registry>, cap: usize) -> Self {
        let id = {
            let mut d = reg.drops.borrow_mut();
            d.push(0);
            d.len() - 1
        };
        TBuf { v: Vec::with_capacity(cap), id, reg: reg.clone() }
    }

    fn from_vec(reg: &Rc<Registry>, v: Vec<u8>) -> Self {
        let mut b = Self::with_capacity(reg, 0);
        b.v = v;
        b
    }
}

impl Drop for TBuf {
    fn drop(&mut self) {
        self.reg.drops.borrow_mut()[self.id] += 1;
    }
}

impl IoBuf for TBuf {
    fn as_init(&self) -> &[u8] {
        &self.v
    }
}

impl SetLen for TBuf {
    unsafe fn set_len(&mut self, len: usize) {
        unsafe { self.v.set_len(len) }
    }
}

impl IoBufMut for TBuf {
    fn as_uninit(&mut self) -> &mut [MaybeUninit<u8>] {
        let cap = self.v.capacity();
        unsafe { std::slice::from_raw_parts_mut(self.v.as_mut_ptr() as *mut MaybeUninit<u8>, cap) }
    }
}

// ---------------------------------------------------------------- programs

#[derive(Clone, Copy, Debug, PartialEq)]
enum Kind {
    Recv,
    RecvVectored,
    PipeRead,
    Multi,
    Managed,
    ZcSend,
    Accept,
    /// the listener's stream of connections: several clients connect at once, the actor takes the first
    /// connections it is given and drops the stream with the others (accepted by the kernel already) still
    /// queued in it
    Incoming,
    FileRead,
    FileWrite,
    Open,
    PoolJob,
}

#[derive(Clone, Copy, Debug, PartialEq)]
enum Abandon {
    None,
    DropTask(u64),
    Token(u64),
    Timeout(u64),
}

#[derive(Clone, Debug)]
struct Actor {
    kind: Kind,
    abandon: Abandon,
    /// when the awaited event happens (µs); None = never
    event_at: Option<u64>,
    len: usize,
    /// a second receive on the previous actor's socket (both then pend on one descriptor); it never gets
    /// data of its own
    share_prev: bool,
}

fn gen_actor(prev: Option<&Actor>) -> Actor {
    let kind = [Kind::Recv, Kind::RecvVectored, Kind::PipeRead, Kind::Multi, Kind::Managed, Kind::ZcSend, Kind::Accept, Kind::FileRead, Kind::FileWrite, Kind::Open, Kind::PoolJob, Kind::Incoming][sim::choose("actor.kind", 12)];
    let t = |k: &'static str| 1 + sim::range(k, 0, 30);
    let abandon = match sim::choose("actor.abandon", 4) {
        0 => Abandon::None,
        1 => Abandon::DropTask(t("abandon.at")),
        2 => Abandon::Token(t("abandon.at")),
        _ => Abandon::Timeout(t("abandon.at")),
    };
    // an awaited operation needs its event; abandoned ones mostly never get it, sometimes around the abandon
    let event_at = match abandon {
        Abandon::None => Some(t("event.at")),
        _ if sim::flip("event.race", 1, 2) => Some(t("event.at")),
        _ => None,
    };
    let share_prev = kind == Kind::Recv && abandon != Abandon::None && matches!(prev, Some(p) if p.kind == Kind::Recv && !p.share_prev && p.abandon != Abandon::None) && sim::flip("actor.share", 1, 2);
    let event_at = if share_prev { None } else { event_at };
    Actor { kind, abandon, event_at, len: 1 + sim::range("actor.len", 0, 200) as usize, share_prev }
}

fn lifecycle() -> RunResult {
    let cfg = simkernel::KConfig::draw();
    let mut actors: Vec<Actor> = Vec::new();
    for _ in 0..1 + sim::range("actors", 0, 3) {
        let a = gen_actor(actors.last());
        actors.push(a);
    }
    let runtime_drop_at = if sim::flip("runtime.drop", 1, 3) { Some(1 + sim::range("runtime.drop.at", 0, 40)) } else { None };
    let capacity = 1u32 << sim::range("ring.capacity.log2", 0, 4);
    let pool_size = 1u16 << sim::range("bufpool.size.log2", 0, 2);
    let payload_seed = sim::subseed("payload");
    sim::log(|| format!("ring capacity {capacity}, pool of {pool_size}; runtime dropped at {runtime_drop_at:?}; {cfg:?}"));
    sim::log(|| format!("{actors:?}"));
    let errs = Errs::default();
    let reg: Rc<Registry> = Rc::default();
    static N: std::sync::atomic::AtomicU64 = std::sync::atomic::AtomicU64::new(0);
    let run_no = N.fetch_add(1, std::sync::atomic::Ordering::Relaxed);
    let dir = std::env::temp_dir().join(format!("verif-k-life-{}-{run_no}", std::process::id()));
    let _ = std::fs::remove_dir_all(&dir);
    std::fs::create_dir_all(&dir).expect("scratch directory");
    let end = run_on_kernel(cfg, {
        let (errs, actors, reg, dir) = (errs.clone(), actors.clone(), reg.clone(), dir.clone());
        move || {
            let mut pb = ProactorBuilder::new();
            pb.capacity(capacity).buffer_pool_size(std::num::NonZero::new(pool_size).unwrap()).buffer_pool_buffer_len(64);
            draw_driver(&mut pb);
            let rt = compio_runtime::Runtime::builder().with_proactor(pb).build().expect("runtime");
            // peers and clients stay open until the runtime is gone
            let keep: Rc<RefCell<Vec<Box<dyn std::any::Any>>>> = Rc::default();
            rt.block_on(async {
                let mut handles = Vec::new();
                let mut controllers = Vec::new();
                let last_sock: Rc<RefCell<Option<Rc<compio_net::UnixStream>>>> = Rc::default();
                for (i, a) in actors.iter().cloned().enumerate() {
                    let data = sim::payload(payload_seed ^ i as u64, a.len);
                    let token = CancelToken::new();
                    // the socket of a Recv actor is created here, so that the next actor can share it
                    let sock = if a.kind == Kind::Recv {
                        if a.share_prev {
                            last_sock.borrow().clone()
                        } else {
                            let (x, y) = std::os::unix::net::UnixStream::pair().expect("socketpair");
                            let s = Rc::new(compio_net::UnixStream::from_std(x).expect("from_std"));
                            let peer = Rc::new(RefCell::new(y));
                            keep.borrow_mut().push(Box::new(peer.clone()));
                            if let Some(t) = a.event_at {
                                let d = data.clone();
                                simkernel::at(Duration::from_micros(t), format!("peer of actor {i} writes {} bytes", d.len()), move || {
                                    let _ = peer.borrow_mut().write_all(&d);
                                });
                            }
                            *last_sock.borrow_mut() = Some(s.clone());
                            Some(s)
                        }
                    } else {
                        None
                    };
                    // (a socket is shared when a later Recv actor joins it: then either receive may get the bytes)
                    let joined_later = a.kind == Kind::Recv && actors[i + 1..].iter().take_while(|b| !(b.kind == Kind::Recv && !b.share_prev)).any(|b| b.kind == Kind::Recv && b.share_prev);
                    let mut a_for_actor = a.clone();
                    a_for_actor.share_prev |= joined_later;
                    let fut = actor(i, a_for_actor, data, reg.clone(), errs.clone(), keep.clone(), dir.clone(), run_no, sock);
                    let (tok, errs_a) = (token.clone(), errs.clone());
                    let h = compio_runtime::spawn(async move {
                        match a.abandon {
                            Abandon::None | Abandon::DropTask(_) => fut.await,
                            Abandon::Token(_) => fut.with_cancel(tok).await,
                            Abandon::Timeout(at) => {
                                let _ = compio_runtime::time::timeout(Duration::from_micros(at), fut).await;
                            }
                        }
                        let _ = errs_a;
                    });
                    match a.abandon {
                        Abandon::DropTask(at) => controllers.push(compio_runtime::spawn(async move {
                            sleep(Duration::from_micros(at)).await;
                            drop(h);
                        })),
                        Abandon::Token(at) => {
                            handles.push(h);
                            controllers.push(compio_runtime::spawn(async move {
                                sleep(Duration::from_micros(at)).await;
                                token.cancel();
                            }));
                        }
                        _ => handles.push(h),
                    }
                }
                match runtime_drop_at {
                    // leave with everything still in flight
                    Some(at) => sleep(Duration::from_micros(at)).await,
                    None => {
                        for c in controllers {
                            let _ = c.await;
                        }
                        for h in handles {
                            let _ = h.await;
                        }
                        sleep(Duration::from_millis(1)).await;
                    }
                }
            });
            drop(rt);
            keep.borrow_mut().clear();
        }
    });
    let _ = std::fs::remove_dir_all(&dir);
    let end = end?;
    errs.first()?;
    for (id, n) in reg.drops.borrow().iter().enumerate() {
        check!(*n >= 1, "buffer-leaked", "instrumented buffer {id} was handed to an operation and never dropped, although the runtime and every task are gone");
        check!(*n == 1, "buffer-dropped-twice", "instrumented buffer {id} was dropped {n} times");
    }
    check!(end.open_rings == 0, "ring-leak", "{} rings still open", end.open_rings);
    Ok(())
}

#[allow(clippy::too_many_arguments)]
#[allow(clippy::too_many_arguments)]
async fn actor(i: usize, a: Actor, data: Vec<u8>, reg: Rc<Registry>, errs: Errs, keep: Rc<RefCell<Vec<Box<dyn std::any::Any>>>>, dir: std::path::PathBuf, run_no: u64, sock: Option<Rc<compio_net::UnixStream>>) {
    let at = |us: u64| Duration::from_micros(us);
    match a.kind {
        Kind::Recv => {
            let Some(s) = sock else { return };
            let mut r = &*s;
            let BufResult(res, b) = r.read(TBuf::with_capacity(&reg, a.len + 8)).await;
            // (on a shared socket either receive may get the bytes: only the owner of an unshared one is checked)
            if let (Ok(n), false) = (res, a.share_prev) {
                if b.v[..n] != data[..n.min(data.len())] || n > data.len() {
                    errs.push("content", format!("actor {i}: received {n} bytes that are not what the peer wrote"));
                }
            }
        }
        Kind::RecvVectored | Kind::Multi | Kind::Managed => {
            let (x, y) = std::os::unix::net::UnixStream::pair().expect("socketpair");
            let s = compio_net::UnixStream::from_std(x).expect("from_std");
            let peer = Rc::new(RefCell::new(y));
            keep.borrow_mut().push(Box::new(peer.clone()));
            if let Some(t) = a.event_at {
                let d = data.clone();
                let close_after = matches!(a.kind, Kind::Multi);
                simkernel::at(at(t), format!("peer of actor {i} writes {} bytes", d.len()), move || {
                    let _ = peer.borrow_mut().write_all(&d);
                    if close_after {
                        let _ = peer.borrow().shutdown(std::net::Shutdown::Write);
                    }
                });
            }
            let mut r = &s;
            match a.kind {
                Kind::RecvVectored => {
                    let bufs = [TBuf::with_capacity(&reg, a.len / 2 + 1), TBuf::with_capacity(&reg, a.len / 2 + 8)];
                    let BufResult(res, bufs) = r.read_vectored(bufs).await;
                    if let Ok(n) = res {
                        let got: Vec<u8> = bufs.iter().flat_map(|b| b.v.iter().copied()).collect();
                        if got.len() != n || got[..] != data[..n.min(data.len())] {
                            errs.push("content", format!("actor {i}: vectored receive of {n} bytes delivered {} bytes that are not what the peer wrote", got.len()));
                        }
                    }
                }
                Kind::Multi => {
                    let mut st = r.read_multi(0).boxed_local();
                    let mut got = Vec::new();
                    while let Some(item) = st.next().await {
                        match item {
                            Ok(b) if b.is_empty() => break,
                            Ok(b) => got.extend_from_slice(&b),
                            Err(e) if e.kind() == std::io::ErrorKind::ResourceBusy => sleep(at(5)).await,
                            Err(_) => break,
                        }
                    }
                    if got[..] != data[..got.len().min(data.len())] || got.len() > data.len() {
                        errs.push("content", format!("actor {i}: multishot receive delivered {} bytes that are not what the peer wrote", got.len()));
                    }
                }
                _ => {
                    for _ in 0..200 {
                        match r.read_managed(0).await {
                            Ok(Some(b)) => {
                                if b[..] != data[..b.len().min(data.len())] || b.len() > data.len() {
                                    errs.push("content", format!("actor {i}: managed receive delivered {} bytes that are not what the peer wrote", b.len()));
                                }
                                break;
                            }
                            Err(e) if e.kind() == std::io::ErrorKind::ResourceBusy => sleep(at(5)).await,
                            _ => break,
                        }
                    }
                }
            }
        }
        Kind::PipeRead => {
            let Ok((rx, tx)) = compio_fs::pipe::anonymous().await else { return };
            match a.event_at {
                Some(t) => {
                    let d = data.clone();
                    simkernel::at(at(t), format!("writer of actor {i}'s pipe writes {} bytes", d.len()), move || {
                        use std::os::fd::AsRawFd;
                        unsafe { libc::write(tx.as_raw_fd(), d.as_ptr() as *const libc::c_void, d.len()) };
                        drop(tx);
                    });
                }
                None => keep.borrow_mut().push(Box::new(tx)),
            }
            let mut r = &rx;
            let BufResult(res, b) = r.read(TBuf::with_capacity(&reg, a.len + 8)).await;
            if let Ok(n) = res {
                if b.v[..n] != data[..n.min(data.len())] || n > data.len() {
                    errs.push("content", format!("actor {i}: the pipe read returned {n} bytes that are not what the writer wrote"));
                }
            }
        }
        Kind::ZcSend => {
            let Ok(l) = compio_net::TcpListener::bind("127.0.0.1:0").await else { return };
            let Ok(addr) = l.local_addr() else { return };
            let (c, acc) = futures_util::join!(compio_net::TcpStream::connect(addr), l.accept());
            let (Ok(mut c), Ok((srv, _))) = (c, acc) else { return };
            no_time_wait(&c);
            no_time_wait(&srv);
            keep.borrow_mut().push(Box::new(srv));
            // a send that fails when it is issued (the socket is shut down for writing) still owes its notification
            if sim::flip("zc.broken", 1, 3) {
                unsafe { libc::shutdown(std::os::fd::AsRawFd::as_raw_fd(&c), libc::SHUT_WR) };
            }
            let buf = TBuf::from_vec(&reg, data.clone());
            let ptr = buf.v.as_ptr() as usize;
            let BufResult(res, ready) = c.write_zerocopy(buf).await;
            // the send itself may have been cancelled: the buffer still comes back through the future
            let back = ready.await;
            if back.v.as_ptr() as usize != ptr || back.v != data {
                errs.push("buffer", format!("actor {i}: the zero-copy send gave a different or modified buffer back"));
            }
            if let Some(false) = simkernel::zc_released(ptr) {
                errs.push("zerocopy-early-release", format!("actor {i}: the zero-copy send ({res:?}) handed its buffer back before the kernel's notification that it no longer uses it"));
            }
        }
        Kind::Accept => {
            use std::os::{linux::net::SocketAddrExt, unix::net::SocketAddr};
            let name = format!("verif-k-life-{}-{run_no}-{i}", std::process::id());
            let addr = SocketAddr::from_abstract_name(name.as_bytes()).expect("abstract address");
            let l = compio_net::UnixListener::from_std(std::os::unix::net::UnixListener::bind_addr(&addr).expect("bind")).expect("from_std");
            if let Some(t) = a.event_at {
                let keep = keep.clone();
                simkernel::at(at(t), format!("a client connects to actor {i}'s listener"), move || {
                    if let Ok(s) = std::os::unix::net::UnixStream::connect_addr(&addr) {
                        keep.borrow_mut().push(Box::new(s));
                    }
                });
            }
            if let Ok((s, _)) = l.accept().await {
                // delivered: ours to close
                let _ = s.close().await;
            }
        }
        Kind::Incoming => {
            use std::os::{linux::net::SocketAddrExt, unix::net::SocketAddr};
            let name = format!("verif-k-life-in-{}-{run_no}-{i}", std::process::id());
            let addr = SocketAddr::from_abstract_name(name.as_bytes()).expect("abstract address");
            let l = compio_net::UnixListener::from_std(std::os::unix::net::UnixListener::bind_addr(&addr).expect("bind")).expect("from_std");
            let clients = 2 + a.len % 3;
            let take = a.len % 2 + 1;
            if let Some(t) = a.event_at {
                let keep = keep.clone();
                simkernel::at(at(t), format!("{clients} clients connect to actor {i}'s listener"), move || {
                    for _ in 0..clients {
                        if let Ok(s) = std::os::unix::net::UnixStream::connect_addr(&addr) {
                            keep.borrow_mut().push(Box::new(s));
                        }
                    }
                });
            }
            let mut st = l.incoming().boxed_local();
            for _ in 0..take {
                match st.next().await {
                    Some(Ok(s)) => {
                        // delivered: ours to close
                        let _ = s.close().await;
                    }
                    _ => break,
                }
            }
            // dropped with whatever it still holds
        }
        Kind::FileRead | Kind::FileWrite => {
            let path = dir.join(format!("f{i}"));
            std::fs::write(&path, &data).expect("scratch file");
            let Ok(mut f) = compio_fs::OpenOptions::new().read(true).write(true).open(&path).await else { return };
            if a.kind == Kind::FileRead {
                let BufResult(res, b) = f.read_at(TBuf::with_capacity(&reg, a.len + 8), 0).await;
                if let Ok(n) = res {
                    if b.v[..n] != data[..n.min(data.len())] || n != data.len() {
                        errs.push("content", format!("actor {i}: read_at returned {n} bytes, the file has {}", data.len()));
                    }
                }
            } else {
                let BufResult(res, b) = f.write_at(TBuf::from_vec(&reg, data.clone()), 3).await;
                if res.is_ok() && b.v != data {
                    errs.push("buffer", format!("actor {i}: write_at gave a modified buffer back"));
                }
            }
            let _ = f.close().await;
        }
        Kind::Open => {
            let path = dir.join(format!("o{i}"));
            std::fs::write(&path, &data).expect("scratch file");
            if let Ok(f) = compio_fs::File::open(&path).await {
                if let Ok(m) = f.metadata().await {
                    if m.len() != data.len() as u64 {
                        errs.push("content", format!("actor {i}: metadata reports {} bytes, the file has {}", m.len(), data.len()));
                    }
                }
                let _ = f.close().await;
            }
        }
        Kind::PoolJob => {
            let d = data.clone();
            let flag = Rc::new(Cell::new(false));
            let r = compio_runtime::spawn_blocking(move || {
                let mut v = d;
                v.reverse();
                v
            })
            .await;
            flag.set(true);
            if let Ok(v) = r {
                let mut want = data.clone();
                want.reverse();
                if v != want {
                    errs.push("content", format!("actor {i}: the blocking job returned something else than it computed"));
                }
            }
        }
    }
}
