//! C16 — QUIC streams and datagrams: ordered, exactly once, never stranded.
//!
//! A client and a server endpoint (real compio-quic on quinn-proto and rustls, real UDP sockets on
//! loopback) live in one runtime on the simulated kernel, which decides the order and timing of the
//! UDP completions and, as the network between the two sockets, loses or duplicates datagrams; time
//! (loss detection, idle time-outs) is the simulated clock and the endpoints' random bytes come from the
//! run's seed. The client opens a generated set of uni- and bidirectional streams and writes generated
//! payloads in generated chunks; the server reads them with generated chunk sizes and pacing and echoes
//! on bidirectional ones; receive and stream windows and the stream-count limits are generated (small
//! ones force flow-control stalls). Unreliable datagrams go both ways. Then a generated close point:
//! everything finishes, or one side closes the connection or its endpoint while operations are pending.
//! Oracles: per stream the bytes read are the bytes written, then end of stream; a datagram received is
//! one that was sent, at most once; after a close every pending operation resolves (with an error)
//! within a bound of simulated time.

use std::{
    cell::RefCell,
    net::{IpAddr, Ipv4Addr, SocketAddr},
    rc::Rc,
    sync::Arc,
    time::Duration,
};

use compio_buf::BufResult;
use compio_driver::ProactorBuilder;
use compio_io::{AsyncRead, AsyncWrite};
use compio_quic::{ClientBuilder, Endpoint, ServerBuilder, TransportConfig, VarInt};
use compio_runtime::time::{sleep, timeout};
use rustls::pki_types::{CertificateDer, PrivateKeyDer, pem::PemObject};
use simcore::{self as sim, RunResult, check, worker::Scenario};

use crate::kutil::*;

pub fn scenarios() -> Vec<Scenario> {
    vec![Scenario {
        name: "quic",
        property: "C16",
        engine: "K",
        run: quic,
        weight: 1,
    }]
}

const CERT: &str = include_str!("../../../data/cert.pem");
const KEY: &str = include_str!("../../../data/key.pem");

#[derive(Clone, Debug)]
struct StreamPlan {
    bidi: bool,
    len: usize,
    write_chunk: usize,
    read_chunk: usize,
    /// µs the reader pauses between reads
    read_pause: u64,
    /// µs between the last write and `finish()` (the connection may have gone idle by then)
    finish_pause: u64,
}

#[derive(Clone, Copy, Debug, PartialEq)]
enum Close {
    /// everything runs to its end, then the client closes
    AtEnd,
    /// the client closes the connection at this instant, whatever is pending
    ClientConn(u64),
    ServerConn(u64),
    /// the server closes its whole endpoint
    ServerEndpoint(u64),
}

fn gen_stream() -> StreamPlan {
    let len = match sim::choose("stream.len", 5) {
        0 => 0,
        1 => 1 + sim::range("stream.small", 0, 100) as usize,
        2 => 1100 + sim::range("stream.mtu", 0, 300) as usize,
        3 => 5000 + sim::range("stream.mid", 0, 9000) as usize,
        _ => 40_000 + sim::range("stream.big", 0, 40_000) as usize,
    };
    StreamPlan {
        bidi: sim::flip("stream.bidi", 1, 2),
        len,
        write_chunk: [1usize, 17, 1200, 5000, 100_000][sim::choose("stream.wchunk", 5)].max(len / 300 + 1),
        read_chunk: [1usize, 33, 1200, 9000, 100_000][sim::choose("stream.rchunk", 5)].max(len / 300 + 1),
        read_pause: [0u64, 0, 20, 500][sim::choose("stream.pause", 4)],
        finish_pause: [0u64, 0, 300, 50_000][sim::choose("stream.finish.pause", 4)],
    }
}

const BOUND: Duration = Duration::from_secs(40);

/// (a side has closed the connection or the endpoint; the network of this run loses datagrams; when it was closed)
type Flags = Rc<(std::cell::Cell<bool>, bool, std::cell::Cell<Option<std::time::Instant>>)>;

/// Wait for a task of the run. `false`: it is stranded — still pending 40 s (simulated) after a side closed
/// the connection or the endpoint, or, on a network without loss, 40 s after the wait began. On a lossy
/// network and before any close, time proves nothing (retransmission back-off): the wait goes on, and is
/// given up quietly after 400 s.
async fn settled<T>(mut t: compio_runtime::JoinHandle<T>, closed: &Flags) -> bool {
    let started = std::time::Instant::now();
    loop {
        if timeout(Duration::from_secs(5), &mut t).await.is_ok() {
            return true;
        }
        let now = std::time::Instant::now();
        match closed.2.get() {
            Some(at) if now.duration_since(at) >= BOUND => return false,
            Some(_) => {}
            None if !closed.1 && now.duration_since(started) >= BOUND => return false,
            None if now.duration_since(started) >= BOUND * 10 => return true,
            None => {}
        }
    }
}

fn quic() -> RunResult {
    let mut cfg = simkernel::KConfig::draw();
    // the network: QUIC recovers from loss and duplication
    cfg.udp_loss = [0u32, 0, 2, 8][sim::choose("net.loss", 4)];
    cfg.udp_dup = [0u32, 0, 2][sim::choose("net.dup", 3)];
    let lossy = cfg.udp_loss > 0;
    let streams: Vec<StreamPlan> = (0..sim::range("streams", 0, 4)).map(|_| gen_stream()).collect();
    let dgrams_c: Vec<usize> = (0..sim::range("dgrams.client", 0, 3)).map(|_| 1 + sim::range("dgram.len", 0, 900) as usize).collect();
    let dgrams_s: Vec<usize> = (0..sim::range("dgrams.server", 0, 3)).map(|_| 1 + sim::range("dgram.len", 0, 900) as usize).collect();
    let recv_window = [2_000u32, 20_000, 1_000_000][sim::choose("window.conn", 3)];
    let stream_window = [1_500u32, 10_000, 1_000_000][sim::choose("window.stream", 3)];
    let max_streams = [1u32, 2, 100][sim::choose("max.streams", 3)];
    let close = match sim::choose("close", 5) {
        0 | 1 => Close::AtEnd,
        2 => Close::ClientConn(sim::range("close.at", 0, 3000)),
        3 => Close::ServerConn(sim::range("close.at", 0, 3000)),
        _ => Close::ServerEndpoint(sim::range("close.at", 0, 3000)),
    };
    // the streams opened last (as many as the limit allows at once) stay open until every stream of their
    // direction is open: a task waiting for a stream credit then depends on being woken for it
    let hold_last = sim::flip("hold.last", 1, 3);
    let capacity = 1u32 << sim::range("ring.capacity.log2", 1, 5);
    let seed = sim::subseed("payload");
    sim::log(|| format!("ring capacity {capacity}; hold the last streams open: {hold_last}; windows conn {recv_window} stream {stream_window}, max concurrent streams {max_streams}; close {close:?}; {cfg:?}"));
    sim::log(|| format!("streams {streams:?}; datagrams client {dgrams_c:?} server {dgrams_s:?}"));
    let errs = Errs::default();
    let end = run_on_kernel(cfg, {
        let (errs, streams, dgrams_c, dgrams_s) = (errs.clone(), streams.clone(), dgrams_c.clone(), dgrams_s.clone());
        move || {
            let mut pb = ProactorBuilder::new();
            pb.capacity(capacity);
            draw_driver(&mut pb);
            let rt = compio_runtime::Runtime::builder().with_proactor(pb).build().expect("runtime");
            rt.block_on(async {
                let cert = CertificateDer::from_pem_slice(CERT.as_bytes()).expect("cert");
                let key = PrivateKeyDer::from_pem_slice(KEY.as_bytes()).expect("key");
                let mut transport = TransportConfig::default();
                transport
                    .receive_window(VarInt::from_u32(recv_window))
                    .stream_receive_window(VarInt::from_u32(stream_window))
                    .max_concurrent_bidi_streams(VarInt::from_u32(max_streams))
                    .max_concurrent_uni_streams(VarInt::from_u32(max_streams))
                    .max_idle_timeout(Some(Duration::from_secs(20).try_into().unwrap()))
                    .datagram_receive_buffer_size(Some(65536));
                let transport = Arc::new(transport);
                let mut server_config = ServerBuilder::new_with_single_cert(vec![cert], key).expect("server config").build();
                server_config.transport_config(transport.clone());
                let mut client_config = ClientBuilder::new_with_no_server_verification().build();
                client_config.transport_config(transport);
                let Ok(server_ep) = Endpoint::server("127.0.0.1:0", server_config).await else { return };
                let Ok(client_ep) = Endpoint::client("127.0.0.1:0").await else { return };
                let Ok(saddr) = server_ep.local_addr() else { return };
                let saddr = SocketAddr::new(IpAddr::V4(Ipv4Addr::LOCALHOST), saddr.port());
                // (a side has closed the connection or the endpoint; the network of this run loses datagrams)
                let closed: Flags = Rc::new((std::cell::Cell::new(false), lossy, std::cell::Cell::new(None)));
                // streams the server has read to their end; streams the client has opened, per direction
                let served = Rc::new(std::cell::Cell::new(0usize));
                let opened = Rc::new(std::cell::Cell::new([0usize; 2]));
                // (datagram payloads start with their index, so that two of them never look alike)
                let payload = move |k: usize, dir: u64, len: usize| {
                    let mut v = vec![k as u8];
                    v.extend_from_slice(&sim::payload(seed ^ ((k as u64 + 1) << 16) ^ dir, len));
                    v
                };

                // ---------------- server
                let server = {
                    let (errs, streams, dgrams_s, dgrams_c, closed, served) = (errs.clone(), streams.clone(), dgrams_s.clone(), dgrams_c.clone(), closed.clone(), served.clone());
                    let server_ep = server_ep.clone();
                    compio_runtime::spawn(async move {
                        let Some(incoming) = server_ep.wait_incoming().await else { return };
                        let conn = match incoming.await {
                            Ok(c) => c,
                            Err(e) => {
                                if !closed.0.get() {
                                    errs.push("handshake", format!("the server side of the handshake failed: {e}"));
                                }
                                return;
                            }
                        };
                        let mut tasks = Vec::new();
                        // datagrams to the client
                        for (k, len) in dgrams_s.iter().copied().enumerate() {
                            let _ = conn.send_datagram(payload(k, 0xd5, len).into());
                        }
                        // datagrams from the client: each one is one the client sent, at most once
                        {
                            let (conn, errs, closed) = (conn.clone(), errs.clone(), closed.clone());
                            tasks.push(compio_runtime::spawn(async move {
                                let mut seen = vec![false; dgrams_c.len()];
                                while let Ok(d) = conn.recv_datagram().await {
                                    match dgrams_c.iter().enumerate().position(|(k, len)| d[..] == payload(k, 0xdc, *len)[..]) {
                                        Some(k) if !seen[k] => seen[k] = true,
                                        Some(k) => errs.push("datagram-duplicated", format!("the server received client datagram {k} twice")),
                                        None => errs.push("datagram-invented", format!("the server received a datagram of {} bytes the client never sent", d.len())),
                                    }
                                }
                                let _ = closed;
                            }));
                        }
                        // streams: the k-th stream the client opens carries its index in the first byte pair
                        let n_uni = streams.iter().filter(|s| !s.bidi).count();
                        let n_bi = streams.len() - n_uni;
                        for _ in 0..n_uni {
                            let (conn, errs, streams, closed, served) = (conn.clone(), errs.clone(), streams.clone(), closed.clone(), served.clone());
                            tasks.push(compio_runtime::spawn(async move {
                                let mut rx = match conn.accept_uni().await {
                                    Ok(rx) => rx,
                                    Err(e) => return broken(&errs, &closed, "accept_uni", &e),
                                };
                                serve(&mut rx, None, &streams, &errs, &closed, seed).await;
                                served.set(served.get() + 1);
                            }));
                        }
                        for _ in 0..n_bi {
                            let (conn, errs, streams, closed, served) = (conn.clone(), errs.clone(), streams.clone(), closed.clone(), served.clone());
                            tasks.push(compio_runtime::spawn(async move {
                                let (mut tx, mut rx) = match conn.accept_bi().await {
                                    Ok(p) => p,
                                    Err(e) => return broken(&errs, &closed, "accept_bi", &e),
                                };
                                serve(&mut rx, Some(&mut tx), &streams, &errs, &closed, seed).await;
                                served.set(served.get() + 1);
                            }));
                        }
                        match close {
                            Close::ServerConn(at) => {
                                sleep(Duration::from_micros(at)).await;
                                closed.0.set(true);
                                closed.2.set(Some(std::time::Instant::now()));
                                conn.close(VarInt::from_u32(7), b"server closes");
                            }
                            Close::ServerEndpoint(at) => {
                                sleep(Duration::from_micros(at)).await;
                                closed.0.set(true);
                                closed.2.set(Some(std::time::Instant::now()));
                                server_ep.close(VarInt::from_u32(8), b"endpoint closes");
                            }
                            _ => {}
                        }
                        // never stranded: whatever was pending resolves
                        for t in tasks {
                            if !settled(t, &closed).await {
                                errs.push("stranded", format!("a server-side stream, datagram or accept task was still pending {BOUND:?} after {}", if closed.0.get() { "the connection or endpoint was closed" } else { "it started (on a network without loss)" }));
                                return;
                            }
                        }
                    })
                };

                // ---------------- client
                let client = {
                    let (errs, streams, dgrams_c, dgrams_s, closed, served, opened) = (errs.clone(), streams.clone(), dgrams_c.clone(), dgrams_s.clone(), closed.clone(), served.clone(), opened.clone());
                    let client_ep = client_ep.clone();
                    compio_runtime::spawn(async move {
                        let connecting = match client_ep.connect(saddr, "localhost", Some(client_config)) {
                            Ok(c) => c,
                            Err(e) => {
                                errs.push("handshake", format!("connect failed: {e}"));
                                return;
                            }
                        };
                        let conn = match connecting.await {
                            Ok(c) => c,
                            Err(e) => {
                                if !closed.0.get() {
                                    errs.push("handshake", format!("the client side of the handshake failed: {e}"));
                                }
                                return;
                            }
                        };
                        let mut tasks = Vec::new();
                        for (k, len) in dgrams_c.iter().copied().enumerate() {
                            let _ = conn.send_datagram(payload(k, 0xdc, len).into());
                        }
                        {
                            let (conn, errs) = (conn.clone(), errs.clone());
                            tasks.push(compio_runtime::spawn(async move {
                                let mut seen = vec![false; dgrams_s.len()];
                                while let Ok(d) = conn.recv_datagram().await {
                                    match dgrams_s.iter().enumerate().position(|(k, len)| d[..] == payload(k, 0xd5, *len)[..]) {
                                        Some(k) if !seen[k] => seen[k] = true,
                                        Some(k) => errs.push("datagram-duplicated", format!("the client received server datagram {k} twice")),
                                        None => errs.push("datagram-invented", format!("the client received a datagram of {} bytes the server never sent", d.len())),
                                    }
                                }
                            }));
                        }
                        let n_dir = [streams.iter().filter(|s| s.bidi).count(), streams.iter().filter(|s| !s.bidi).count()];
                        for (k, s) in streams.iter().cloned().enumerate() {
                            let (conn, errs, closed, opened) = (conn.clone(), errs.clone(), closed.clone(), opened.clone());
                            tasks.push(compio_runtime::spawn(async move {
                                let (mut tx, rx) = if s.bidi {
                                    match conn.open_bi_wait().await {
                                        Ok((t, r)) => (t, Some(r)),
                                        Err(e) => return broken(&errs, &closed, "open_bi_wait", &e),
                                    }
                                } else {
                                    match conn.open_uni_wait().await {
                                        Ok(t) => (t, None),
                                        Err(e) => return broken(&errs, &closed, "open_uni_wait", &e),
                                    }
                                };
                                let dir = if s.bidi { 0 } else { 1 };
                                let rank = opened.get()[dir];
                                opened.set({
                                    let mut o = opened.get();
                                    o[dir] += 1;
                                    o
                                });
                                // header: which stream of the plan this is
                                let mut data = vec![k as u8, 0xA5];
                                data.extend_from_slice(&sim::payload(seed ^ ((k as u64 + 1) << 16) ^ 0xc5, s.len));
                                let wr = async {
                                    let mut off = 0;
                                    while off < data.len() {
                                        let n = s.write_chunk.min(data.len() - off);
                                        match tx.write(data[off..off + n].to_vec()).await {
                                            BufResult(Ok(w), _) if w > 0 && w <= n => off += w,
                                            BufResult(Ok(w), _) => {
                                                errs.push("count", format!("stream {k}: write of {n} bytes reported {w}"));
                                                return false;
                                            }
                                            BufResult(Err(e), _) => {
                                                broken(&errs, &closed, &format!("stream {k}: write"), &e);
                                                return false;
                                            }
                                        }
                                    }
                                    if hold_last && rank + max_streams as usize >= n_dir[dir] {
                                        // one of the last streams: stays open until all of its direction are
                                        let mut nap = 50u64;
                                        let mut waited = 0u64;
                                        while opened.get()[dir] < n_dir[dir] && !closed.0.get() && conn.close_reason().is_none() {
                                            if waited > BOUND.as_micros() as u64 * if lossy { 10 } else { 1 } {
                                                if lossy {
                                                    return false;
                                                }
                                                errs.push("stranded", format!("stream {k} (opened as number {rank} of its direction, limit {max_streams}) is held open until all {} are open; {BOUND:?} later only {} are: a task waiting in open_*_wait was not served although the limit allows it", n_dir[dir], opened.get()[dir]));
                                                return false;
                                            }
                                            sleep(Duration::from_micros(nap)).await;
                                            waited += nap;
                                            nap = (nap * 2).min(100_000);
                                        }
                                    }
                                    if s.finish_pause > 0 {
                                        sleep(Duration::from_micros(s.finish_pause)).await;
                                    }
                                    tx.finish().is_ok()
                                };
                                let rd = async {
                                    let Some(mut rx) = rx else { return };
                                    // the echo: the same bytes back, then end of stream
                                    let mut got = Vec::new();
                                    loop {
                                        match rx.read(Vec::with_capacity(s.read_chunk)).await {
                                            BufResult(Ok(0), _) => break,
                                            BufResult(Ok(_), b) => got.extend_from_slice(&b),
                                            BufResult(Err(e), _) => return broken(&errs, &closed, &format!("stream {k}: read of the echo"), &e),
                                        }
                                    }
                                    if got != data {
                                        errs.push("stream-content", format!("stream {k}: the echo has {} bytes, {} were written: {}", got.len(), data.len(), first_diff(&got, &data)));
                                    }
                                };
                                let (_, _) = futures_util::join!(wr, rd);
                            }));
                        }
                        if let Close::ClientConn(at) = close {
                            sleep(Duration::from_micros(at)).await;
                            closed.0.set(true);
                                closed.2.set(Some(std::time::Instant::now()));
                            conn.close(VarInt::from_u32(9), b"client closes");
                        }
                        let n = tasks.len();
                        for (i, t) in tasks.into_iter().enumerate() {
                            // the datagram listener (task 0) only ends with the connection
                            if i == 0 && close == Close::AtEnd {
                                continue;
                            }
                            if !settled(t, &closed).await {
                                errs.push("stranded", format!("client task {i} of {n} (streams and datagrams) was still pending {BOUND:?} after {}", if closed.0.get() { "the connection was closed" } else { "it started (on a network without loss)" }));
                                return;
                            }
                        }
                        if close == Close::AtEnd {
                            // finishing a stream yields end-of-stream on the peer: the server reads every stream to its end
                            let (mut nap, mut waited) = (50u64, 0u64);
                            while served.get() < streams.len() && errs.is_empty() && conn.close_reason().is_none() {
                                if waited > BOUND.as_micros() as u64 * if lossy { 10 } else { 1 } {
                                    if lossy {
                                        break;
                                    }
                                    errs.push("stranded", format!("the client wrote and finished {} streams; {BOUND:?} later the server has read only {} of them to their end", streams.len(), served.get()));
                                    break;
                                }
                                sleep(Duration::from_micros(nap)).await;
                                waited += nap;
                                nap = (nap * 2).min(100_000);
                            }
                            closed.0.set(true);
                                closed.2.set(Some(std::time::Instant::now()));
                            conn.close(VarInt::from_u32(0), b"done");
                        }
                    })
                };
                let _ = client.await;
                if !settled(server, &closed).await {
                    errs.push("stranded", "the server side did not finish after the client was done".to_string());
                }
                let _ = timeout(Duration::from_secs(5), client_ep.shutdown()).await;
                let _ = timeout(Duration::from_secs(5), server_ep.shutdown()).await;
            });
        }
    })?;
    errs.first()?;
    check!(end.open_rings == 0, "ring-leak", "{} rings still open", end.open_rings);
    Ok(())
}

/// The server's side of one stream: read everything (chunked, paced), check it against the plan named
/// in the header, echo it on a bidirectional stream.
async fn serve(rx: &mut compio_quic::RecvStream, mut tx: Option<&mut compio_quic::SendStream>, streams: &[StreamPlan], errs: &Errs, closed: &Flags, seed: u64) {
    let mut got: Vec<u8> = Vec::new();
    let mut plan: Option<(usize, StreamPlan)> = None;
    let mut clean_end = false;
    loop {
        let chunk = plan.as_ref().map(|p| p.1.read_chunk).unwrap_or(2);
        match rx.read(Vec::with_capacity(chunk)).await {
            BufResult(Ok(0), _) => {
                clean_end = true;
                break;
            }
            BufResult(Ok(_), b) => {
                if let Some(tx) = tx.as_deref_mut() {
                    // echo as it comes
                    let mut off = 0;
                    while off < b.len() {
                        match tx.write(b[off..].to_vec()).await {
                            BufResult(Ok(w), _) if w > 0 => off += w,
                            _ => return,
                        }
                    }
                }
                got.extend_from_slice(&b);
                if plan.is_none() && got.len() >= 2 {
                    let k = got[0] as usize;
                    match streams.get(k) {
                        Some(p) if got[1] == 0xA5 => plan = Some((k, p.clone())),
                        _ => {
                            errs.push("stream-content", format!("a stream starts with {:?}, which is no stream header the client wrote", &got[..2]));
                            return;
                        }
                    }
                }
                if let Some((_, p)) = &plan {
                    if p.read_pause > 0 {
                        sleep(Duration::from_micros(p.read_pause)).await;
                    }
                }
            }
            BufResult(Err(e), _) => {
                broken(errs, closed, "server: read", &e);
                break;
            }
        }
    }
    if let Some(tx) = tx.as_deref_mut() {
        if let Some((_, p)) = &plan {
            if clean_end && p.finish_pause > 0 {
                sleep(Duration::from_micros(p.finish_pause)).await;
            }
        }
        let _ = tx.finish();
    }
    if let Some((k, p)) = plan {
        let mut want = vec![k as u8, 0xA5];
        want.extend_from_slice(&sim::payload(seed ^ ((k as u64 + 1) << 16) ^ 0xc5, p.len));
        if clean_end {
            if got != want {
                errs.push("stream-content", format!("stream {k}: the server read {} bytes up to the end of the stream, the client wrote {}: {}", got.len(), want.len(), first_diff(&got, &want)));
            }
        } else if got[..] != want[..got.len().min(want.len())] || got.len() > want.len() {
            errs.push("stream-content", format!("stream {k}: what the server read before the stream broke off is not a prefix of what the client wrote: {}", first_diff(&got, &want)));
        }
    } else if clean_end && !got.is_empty() {
        errs.push("stream-content", format!("a stream ended after {} bytes, less than a header", got.len()));
    }
}

/// An operation failed: fine once a side has closed the connection or the endpoint, a broken connection
/// before that — unless the network loses datagrams: enough of them lost in a row let a connection time out,
/// which is QUIC's answer to such a network and not a defect (the runs without loss are the judge of this).
fn broken(errs: &Errs, closed: &Flags, what: &str, e: &dyn std::fmt::Display) {
    if !closed.0.get() && !closed.1 {
        errs.push("stream-broken", format!("{what} failed with ({e}) although nobody has closed the connection"));
    }
}
