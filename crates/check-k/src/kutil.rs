//! Shared pieces of the Engine K scenarios.

use std::{cell::RefCell, rc::Rc};

use simcore::{RunResult, Violation};

/// Errors raised from inside tasks (first one wins).
#[derive(Clone, Default)]
pub struct Errs(Rc<RefCell<Vec<(String, String)>>>);

impl Errs {
    pub fn push(&self, oracle: &str, detail: impl Into<String>) {
        self.0.borrow_mut().push((oracle.to_string(), detail.into()));
    }

    pub fn first(&self) -> RunResult {
        match self.0.borrow().first() {
            Some((o, d)) => Err(Violation::new(o, d.clone())),
            None => Ok(()),
        }
    }
}

/// Run `body` (which creates and drops its runtime) on a fresh simulated kernel.
/// A violation raised by the kernel (e.g. `blocked-forever`) wins over the panic it unwinds with.
pub fn run_on_kernel(cfg: simkernel::KConfig, body: impl FnOnce()) -> Result<simkernel::EndState, Violation> {
    simkernel::begin(cfg);
    let r = std::panic::catch_unwind(std::panic::AssertUnwindSafe(body));
    let end = simkernel::end();
    simcore::log(|| {
        format!(
            "kernel: {} enters, {} sqes, {} cqes ({} overflowed), {} pool jobs, {} clock jumps, {:.6}s simulated; pending at end {:?}",
            end.stats.enters,
            end.stats.sqes,
            end.stats.cqes,
            end.stats.overflowed,
            end.stats.pool_jobs,
            end.stats.clock_jumps,
            (end.clock_ns - 1_000_000_000) as f64 / 1e9,
            end.pending_ops
        )
    });
    simcore::pending()?;
    if let Err(p) = r {
        std::panic::resume_unwind(p);
    }
    Ok(end)
}

pub fn first_diff(a: &[u8], b: &[u8]) -> String {
    let n = a.len().min(b.len());
    for i in 0..n {
        if a[i] != b[i] {
            return format!("first difference at byte {i}: got {:#04x}, expected {:#04x}", a[i], b[i]);
        }
    }
    format!("common prefix of {n} bytes")
}

/// The driver of this run: io_uring (on the simulated ring) or polling (real epoll asked with zero
/// time-outs, waits and time simulated). Choice 0 is io_uring.
pub fn draw_driver(pb: &mut compio_driver::ProactorBuilder) -> compio_driver::DriverType {
    let t = match simcore::weighted("driver", &[2, 1]) {
        0 => compio_driver::DriverType::IoUring,
        _ => compio_driver::DriverType::Poll,
    };
    pb.driver_type(t);
    simcore::log(|| format!("driver: {t:?}"));
    simcore::sig(0xd1 + (t == compio_driver::DriverType::Poll) as u64);
    t
}
