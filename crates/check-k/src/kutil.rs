//! Shared pieces of the Engine K scenarios.

use std::{cell::RefCell, rc::Rc};

use simcore::{RunResult, Violation};

/// Errors raised from inside tasks (first one wins).
#[derive(Clone, Default)]
pub struct Errs(Rc<RefCell<Vec<(String, String)>>>);

impl Errs {
    pub fn is_empty(&self) -> bool {
        self.0.borrow().is_empty()
    }
    pub fn push(&self, oracle: &str, detail: impl Into<String>) {
        self.0.borrow_mut().push((oracle.to_string(), detail.into()));
    }

    pub fn first(&self) -> RunResult {
        match self.0.borrow().first() {
            Some((o, d)) => Err(Violation::new(o, d.clone())),
            None => Ok(()),
        }
    }
}

/// Run `body` (which creates and drops its runtime) on a fresh simulated kernel.
/// A violation raised by the kernel (e.g. `blocked-forever`) wins over the panic it unwinds with.
pub fn run_on_kernel(cfg: simkernel::KConfig, body: impl FnOnce()) -> Result<simkernel::EndState, Violation> {
    let fds_before = open_fds();
    // rand's thread-local generator lives as long as the thread: reseed it (from the run's entropy stream) so
    // that what quinn-proto or tungstenite draw from it does not depend on the runs that came before
    let _ = rand::rng().reseed();
    simkernel::begin(cfg);
    let r = std::panic::catch_unwind(std::panic::AssertUnwindSafe(body));
    let end = simkernel::end();
    let fds_after = open_fds();
    simcore::log(|| {
        format!(
            "kernel: {} enters, {} sqes, {} cqes ({} overflowed), {} pool jobs, {} clock jumps, {:.6}s simulated; pending at end {:?}",
            end.stats.enters,
            end.stats.sqes,
            end.stats.cqes,
            end.stats.overflowed,
            end.stats.pool_jobs,
            end.stats.clock_jumps,
            (end.clock_ns - 1_000_000_000) as f64 / 1e9,
            end.pending_ops
        )
    });
    simcore::pending()?;
    if let Err(p) = r {
        std::panic::resume_unwind(p);
    }
    // the descriptor ledger: the body creates and drops its runtime and everything it opened
    let leaked: Vec<String> = fds_after.iter().filter(|(fd, _)| !fds_before.iter().any(|(b, _)| b == fd)).map(|(fd, what)| format!("{fd} -> {what}")).collect();
    let vanished: Vec<String> = fds_before.iter().filter(|(fd, _)| !fds_after.iter().any(|(a, _)| a == fd)).map(|(fd, what)| format!("{fd} -> {what}")).collect();
    let leaked_fds: Vec<i32> = fds_after.iter().filter(|(fd, _)| !fds_before.iter().any(|(b, _)| b == fd)).map(|(fd, _)| *fd).collect();
    if !leaked_fds.is_empty() && leaked_fds.iter().all(|fd| end.lost_closes.contains(fd)) {
        // kept apart from other leaks, see known_findings.txt
        for fd in &leaked_fds {
            unsafe { libc::close(*fd) };
        }
        return Err(Violation::new(
            "close-lost-at-runtime-drop",
            format!("the runtime was dropped while the Close request of {} descriptor(s) was still unsubmitted or queued in the ring; it never ran and nothing closes them any more: {leaked:?}", leaked_fds.len()),
        ));
    }
    if !leaked.is_empty() {
        for fd in &leaked_fds {
            unsafe { libc::close(*fd) };
        }
        return Err(Violation::new("fd-leak", format!("descriptors still open after the runtime and everything the program opened were dropped: {leaked:?}")));
    }
    if !vanished.is_empty() {
        return Err(Violation::new("fd-closed-behind", format!("descriptors that were open before the run and do not belong to it were closed: {vanished:?}")));
    }
    Ok(end)
}

/// Like `run_on_kernel`, with the calling thread as thread 0 of a multi-threaded run (Engine M): threads the
/// body starts are scheduled by the simulator; all of them have ended when this returns.
pub fn run_on_kernel_multi(cfg: simkernel::KConfig, body: impl FnOnce()) -> Result<(simkernel::EndState, simkernel::multi::MultiEnd), Violation> {
    let mut multi = None;
    let end = run_on_kernel(cfg, || {
        simkernel::multi::begin();
        let r = std::panic::catch_unwind(std::panic::AssertUnwindSafe(body));
        multi = Some(simkernel::multi::end());
        if let Err(p) = r {
            std::panic::resume_unwind(p);
        }
    })?;
    Ok((end, multi.expect("multi-threaded run ended")))
}

/// The process's open descriptors with what they refer to (kind only: no inode numbers, which differ
/// between processes and would make logs of the same run differ).
fn open_fds() -> Vec<(i32, String)> {
    let mut v = Vec::new();
    let Ok(dir) = std::fs::read_dir("/proc/self/fd") else { return v };
    let dir_fd_guess: Vec<_> = dir.filter_map(|e| e.ok()).collect();
    for e in dir_fd_guess {
        let Ok(fd) = e.file_name().to_string_lossy().parse::<i32>() else { continue };
        let Ok(target) = std::fs::read_link(e.path()) else { continue }; // the directory handle itself
        let t = target.to_string_lossy().to_string();
        if t.starts_with("/proc/") && t.ends_with("/fd") {
            continue; // the handle this listing itself uses
        }
        let kind = t.split(':').next().unwrap_or("").trim_start_matches("anon_inode").to_string();
        v.push((fd, if t.starts_with('/') { t } else { format!("{kind}{}", if t.contains("anon_inode") { t.clone() } else { String::new() }) }));
    }
    v.sort();
    v
}

pub fn first_diff(a: &[u8], b: &[u8]) -> String {
    let n = a.len().min(b.len());
    for i in 0..n {
        if a[i] != b[i] {
            return format!("first difference at byte {i}: got {:#04x}, expected {:#04x}", a[i], b[i]);
        }
    }
    format!("common prefix of {n} bytes")
}

/// The driver of this run: io_uring (on the simulated ring) or polling (real epoll asked with zero
/// time-outs, waits and time simulated). Choice 0 is io_uring.
pub fn draw_driver(pb: &mut compio_driver::ProactorBuilder) -> compio_driver::DriverType {
    let t = match simcore::weighted("driver", &[2, 1]) {
        0 => compio_driver::DriverType::IoUring,
        _ => compio_driver::DriverType::Poll,
    };
    pb.driver_type(t);
    simcore::log(|| format!("driver: {t:?}"));
    simcore::sig(0xd1 + (t == compio_driver::DriverType::Poll) as u64);
    t
}

/// Close with a reset instead of lingering in TIME_WAIT: the harness opens thousands of loopback TCP
/// connections per second and would otherwise use up the ephemeral ports.
pub fn no_time_wait(fd: &impl std::os::fd::AsRawFd) {
    let l = libc::linger { l_onoff: 1, l_linger: 0 };
    unsafe { libc::setsockopt(fd.as_raw_fd(), libc::SOL_SOCKET, libc::SO_LINGER, &l as *const _ as *const libc::c_void, std::mem::size_of::<libc::linger>() as libc::socklen_t) };
}

/// The machine ran out of local ports (or the 4-tuple is still in TIME_WAIT): an environment condition of
/// the harness, not a behaviour of the code under test.
pub fn out_of_ports(e: &std::io::Error) -> bool {
    matches!(e.kind(), std::io::ErrorKind::AddrInUse | std::io::ErrorKind::AddrNotAvailable)
}
