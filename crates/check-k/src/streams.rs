//! C14 / C02 — byte streams through the real runtime and driver on the simulated kernel:
//! pipes, Unix stream sockets and loopback TCP, every read/write flavour, concurrent reader and
//! writer tasks per channel; the kernel decides completion order, short counts, CQ/SQ sizes,
//! lazily discovered completions, interrupted waits, multishot termination.

use std::{cell::RefCell, rc::Rc};

use compio_buf::{BufResult, IoBuf};
use compio_driver::ProactorBuilder;
use compio_io::{AsyncRead, AsyncReadManaged, AsyncReadMulti, AsyncWrite, AsyncWriteZerocopy};
use futures_util::StreamExt;
use simcore::{self as sim, RunResult, check, worker::Scenario};

use crate::kutil::*;

pub fn scenarios() -> Vec<Scenario> {
    vec![Scenario {
        name: "streams",
        property: "C14",
        engine: "K",
        run: streams,
        weight: 1,
    }]
}

#[derive(Clone, Copy, Debug, PartialEq)]
enum Kind {
    Pipe,
    Unix,
    Tcp,
}

#[derive(Clone, Copy, Debug)]
enum W {
    Write,
    Vectored,
    Zerocopy,
}

#[derive(Clone, Copy, Debug)]
enum R {
    Read,
    Vectored,
    Managed,
    Multi,
}

/// How the writing side reaches its socket.
#[derive(Clone, Copy, Debug, PartialEq)]
enum Via {
    Direct,
    /// through the borrowed halves of `split()`; the stream stays open until the reader saw end of stream
    Borrowed,
    /// through the halves of `into_split()`; the read half stays open until the reader saw end of stream
    Owned,
}

#[derive(Clone, Debug)]
struct Chan {
    kind: Kind,
    via: Via,
    writes: Vec<(W, usize)>,
    reads: Vec<(R, usize)>,
}

fn gen_chan() -> Chan {
    let kind = match sim::choose("chan.kind", 3) {
        0 => Kind::Pipe,
        1 => Kind::Unix,
        _ => Kind::Tcp,
    };
    let nw = sim::range("chan.writes", 0, 5) as usize;
    let writes = (0..nw)
        .map(|_| {
            let w = match sim::choose("w.kind", if kind == Kind::Pipe { 2 } else { 3 }) {
                0 => W::Write,
                1 => W::Vectored,
                _ => W::Zerocopy,
            };
            (w, sim::range("w.len", 0, 300) as usize)
        })
        .collect();
    let nr = 1 + sim::range("chan.read.kinds", 0, 3) as usize;
    let reads = (0..nr)
        .map(|_| {
            let r = match sim::choose("r.kind", 4) {
                0 => R::Read,
                1 => R::Vectored,
                2 => R::Managed,
                _ => R::Multi,
            };
            (r, 1 + sim::range("r.len", 0, 200) as usize)
        })
        .collect();
    let via = if kind == Kind::Pipe {
        Via::Direct
    } else {
        match sim::choose("chan.via", 3) {
            0 => Via::Direct,
            1 => Via::Borrowed,
            _ => Via::Owned,
        }
    };
    Chan { kind, via, writes, reads }
}

enum Rd {
    Pipe(compio_fs::pipe::Receiver),
    Unix(compio_net::UnixStream),
    Tcp(compio_net::TcpStream),
}

enum Wr {
    Pipe(compio_fs::pipe::Sender),
    Unix(compio_net::UnixStream),
    Tcp(compio_net::TcpStream),
}

async fn open(kind: Kind) -> std::io::Result<(Rd, Wr)> {
    Ok(match kind {
        Kind::Pipe => {
            let (r, w) = compio_fs::pipe::anonymous().await?;
            (Rd::Pipe(r), Wr::Pipe(w))
        }
        Kind::Unix => {
            let (a, b) = std::os::unix::net::UnixStream::pair()?;
            (Rd::Unix(compio_net::UnixStream::from_std(a)?), Wr::Unix(compio_net::UnixStream::from_std(b)?))
        }
        Kind::Tcp => {
            let l = compio_net::TcpListener::bind("127.0.0.1:0").await?;
            let addr = l.local_addr()?;
            let (c, a) = futures_util::join!(compio_net::TcpStream::connect(addr), l.accept());
            let (a, c) = (a?.0, c?);
            no_time_wait(&a);
            no_time_wait(&c);
            (Rd::Tcp(a), Wr::Tcp(c))
        }
    })
}

macro_rules! each_rd {
    ($s:expr, |$x:ident| $body:expr) => {
        match $s {
            Rd::Pipe($x) => $body,
            Rd::Unix($x) => $body,
            Rd::Tcp($x) => $body,
        }
    };
}

async fn write_chunk(w: &mut Wr, how: W, data: &[u8], errs: &Errs) -> bool {
    let mut off = 0;
    let mut first = true;
    while off < data.len() || (first && data.is_empty()) {
        first = false;
        let rest = data[off..].to_vec();
        let ptr = rest.as_ptr();
        let n = match how {
            W::Write => {
                let BufResult(r, back) = match w {
                    Wr::Pipe(x) => x.write(rest).await,
                    Wr::Unix(x) => x.write(rest).await,
                    Wr::Tcp(x) => x.write(rest).await,
                };
                if back.as_ptr() != ptr {
                    errs.push("buffer-identity", "write returned a different buffer than the one submitted");
                }
                r
            }
            W::Vectored => {
                let cut = rest.len() / 3;
                let bufs = [rest[..cut].to_vec(), Vec::new(), rest[cut..].to_vec()];
                let BufResult(r, _) = match w {
                    Wr::Pipe(x) => x.write_vectored(bufs).await,
                    Wr::Unix(x) => x.write_vectored(bufs).await,
                    Wr::Tcp(x) => x.write_vectored(bufs).await,
                };
                r
            }
            W::Zerocopy => match w {
                Wr::Pipe(x) => x.write(rest).await.0,
                Wr::Unix(x) => {
                    let BufResult(r, fut) = x.write_zerocopy(rest).await;
                    let back = fut.await;
                    if back.as_ptr() != ptr {
                        errs.push("buffer-identity", "zero-copy write returned a different buffer");
                    }
                    r
                }
                Wr::Tcp(x) => {
                    let BufResult(r, fut) = x.write_zerocopy(rest).await;
                    let back = fut.await;
                    if back.as_ptr() != ptr {
                        errs.push("buffer-identity", "zero-copy write returned a different buffer");
                    }
                    r
                }
            },
        };
        match n {
            Ok(n) => {
                if n > data.len() - off {
                    errs.push("count", format!("write reported {n} bytes for a {}-byte buffer", data.len() - off));
                    return false;
                }
                if n == 0 && off < data.len() {
                    errs.push("count", "write of a non-empty buffer reported 0 bytes");
                    return false;
                }
                off += n;
            }
            Err(e) => {
                errs.push("io-error", format!("{how:?} failed: {e}"));
                return false;
            }
        }
    }
    true
}

/// The writes of a channel through a split half, then its shutdown; afterwards the reader must reach end of
/// stream although the socket itself is still open.
async fn half_writes<T: AsyncWrite>(w: &mut T, writes: &[(W, usize)], data: &[Vec<u8>], errs: &Errs) -> bool {
    for ((how, _), d) in writes.iter().zip(data.iter()) {
        let mut off = 0;
        let mut first = true;
        while off < d.len() || (first && d.is_empty()) {
            first = false;
            let rest = d[off..].to_vec();
            let want = rest.len();
            let r = match how {
                W::Vectored => {
                    let cut = rest.len() / 3;
                    w.write_vectored([rest[..cut].to_vec(), Vec::new(), rest[cut..].to_vec()]).await.0
                }
                _ => w.write(rest).await.0,
            };
            match r {
                Ok(n) if n > want => {
                    errs.push("count", format!("write reported {n} bytes for a {want}-byte buffer"));
                    return false;
                }
                Ok(0) if want > 0 => {
                    errs.push("count", "write of a non-empty buffer reported 0 bytes");
                    return false;
                }
                Ok(n) => off += n,
                Err(e) => {
                    errs.push("io-error", format!("{how:?} through a split half failed: {e}"));
                    return false;
                }
            }
        }
    }
    if let Err(e) = w.shutdown().await {
        errs.push("io-error", format!("shutdown of a write half failed: {e}"));
        return false;
    }
    true
}

async fn wait_eof(eof: &Rc<RefCell<Vec<bool>>>, ci: usize, errs: &Errs) {
    for _ in 0..500 {
        if eof.borrow()[ci] {
            return;
        }
        compio_runtime::time::sleep(std::time::Duration::from_micros(100)).await;
    }
    errs.push("no-eof", format!("channel {ci}: the write half was shut down 50 ms ago and the socket is still open, but the reader has not reached end of stream"));
}

fn streams() -> RunResult {
    let cfg = simkernel::KConfig::draw();
    let nchan = 1 + sim::range("chans", 0, 2) as usize;
    let chans: Vec<Chan> = (0..nchan).map(|_| gen_chan()).collect();
    let payloads: Vec<Vec<Vec<u8>>> = chans.iter().map(|c| c.writes.iter().map(|(_, n)| sim::payload(sim::subseed("payload"), *n)).collect()).collect();
    let capacity = 1 << sim::range("ring.capacity.log2", 0, 5);
    let pool_size = 1u16 << sim::range("bufpool.size.log2", 0, 3);
    let pool_len = 16 + sim::range("bufpool.len", 0, 240) as usize;
    sim::log(|| format!("ring capacity {capacity}, buffer pool {pool_size}x{pool_len}; {cfg:?}"));
    sim::log(|| format!("{chans:?}"));
    let errs = Errs::default();
    let got: Rc<RefCell<Vec<Vec<u8>>>> = Rc::new(RefCell::new(vec![Vec::new(); nchan]));
    let eof: Rc<RefCell<Vec<bool>>> = Rc::new(RefCell::new(vec![false; nchan]));
    let end = run_on_kernel(cfg, {
        let (errs, got, eof, chans, payloads) = (errs.clone(), got.clone(), eof.clone(), chans.clone(), payloads.clone());
        move || {
            let mut pb = ProactorBuilder::new();
            pb.capacity(capacity).buffer_pool_size(std::num::NonZero::new(pool_size).unwrap()).buffer_pool_buffer_len(pool_len);
            draw_driver(&mut pb);
            let rt = compio_runtime::Runtime::builder().with_proactor(pb).build().expect("runtime");
            rt.block_on(async move {
                let mut tasks = Vec::new();
                for (ci, c) in chans.iter().cloned().enumerate() {
                    let (mut rd, mut wr) = match open(c.kind).await {
                        Ok(p) => p,
                        Err(e) if out_of_ports(&e) => {
                            sim::probe("tcp-ports-exhausted");
                            continue;
                        }
                        Err(e) => {
                            errs.push("io-error", format!("opening a {:?} channel failed: {e}", c.kind));
                            return;
                        }
                    };
                    let (errs_w, data) = (errs.clone(), payloads[ci].clone());
                    let writes = c.writes.clone();
                    let via = c.via;
                    let eof_w = eof.clone();
                    tasks.push(compio_runtime::spawn(async move {
                        match via {
                            Via::Direct => {}
                            Via::Borrowed => {
                                let ok = match &wr {
                                    Wr::Unix(x) => half_writes(&mut x.split().1, &writes, &data, &errs_w).await,
                                    Wr::Tcp(x) => half_writes(&mut x.split().1, &writes, &data, &errs_w).await,
                                    Wr::Pipe(_) => unreachable!(),
                                };
                                if ok {
                                    wait_eof(&eof_w, ci, &errs_w).await;
                                }
                                return;
                            }
                            Via::Owned => {
                                let ok = match wr {
                                    Wr::Unix(x) => {
                                        let (_rh, mut wh) = x.into_split();
                                        let ok = half_writes(&mut wh, &writes, &data, &errs_w).await;
                                        drop(wh);
                                        if ok {
                                            wait_eof(&eof_w, ci, &errs_w).await;
                                        }
                                        ok
                                    }
                                    Wr::Tcp(x) => {
                                        let (_rh, mut wh) = x.into_split();
                                        let ok = half_writes(&mut wh, &writes, &data, &errs_w).await;
                                        drop(wh);
                                        if ok {
                                            wait_eof(&eof_w, ci, &errs_w).await;
                                        }
                                        ok
                                    }
                                    Wr::Pipe(_) => unreachable!(),
                                };
                                let _ = ok;
                                return;
                            }
                        }
                        for ((how, _), d) in writes.iter().zip(data.iter()) {
                            if !write_chunk(&mut wr, *how, d, &errs_w).await {
                                return;
                            }
                        }
                        // end of stream
                        let r = match &mut wr {
                            Wr::Pipe(x) => x.shutdown().await,
                            Wr::Unix(x) => x.shutdown().await,
                            Wr::Tcp(x) => x.shutdown().await,
                        };
                        if let Err(e) = r {
                            errs_w.push("io-error", format!("shutdown failed: {e}"));
                        }
                        drop(wr);
                    }));
                    let (errs_r, got, eof) = (errs.clone(), got.clone(), eof.clone());
                    let reads = c.reads.clone();
                    tasks.push(compio_runtime::spawn(async move {
                        let mut round = 0usize;
                        'outer: loop {
                            let (how, len) = reads[round % reads.len()];
                            round += 1;
                            if round > 5000 {
                                errs_r.push("step-bound", "reader never reaches end of stream");
                                break;
                            }
                            match how {
                                R::Read => {
                                    let buf = Vec::with_capacity(len);
                                    let ptr = buf.as_ptr();
                                    let BufResult(r, b) = each_rd!(&mut rd, |x| x.read(buf).await);
                                    if b.as_ptr() != ptr {
                                        errs_r.push("buffer-identity", "read returned a different buffer than the one submitted");
                                    }
                                    match r {
                                        Ok(0) => break,
                                        Ok(n) => {
                                            if b.len() != n {
                                                errs_r.push("count", format!("read reported {n} bytes, buffer length is {}", b.len()));
                                                break;
                                            }
                                            got.borrow_mut()[ci].extend_from_slice(&b);
                                        }
                                        Err(e) => {
                                            errs_r.push("io-error", format!("read failed: {e}"));
                                            break;
                                        }
                                    }
                                }
                                R::Vectored => {
                                    let bufs = [Vec::with_capacity(len / 2), Vec::with_capacity(len - len / 2)];
                                    let BufResult(r, b) = each_rd!(&mut rd, |x| x.read_vectored(bufs).await);
                                    match r {
                                        Ok(0) => break,
                                        Ok(n) => {
                                            let all = b.concat();
                                            if all.len() != n {
                                                errs_r.push("count", format!("read_vectored reported {n} bytes, buffers hold {}", all.len()));
                                                break;
                                            }
                                            got.borrow_mut()[ci].extend_from_slice(&all);
                                        }
                                        Err(e) => {
                                            errs_r.push("io-error", format!("read_vectored failed: {e}"));
                                            break;
                                        }
                                    }
                                }
                                R::Managed => {
                                    let r = each_rd!(&mut rd, |x| x.read_managed(len).await);
                                    match r {
                                        Ok(Some(b)) if b.is_empty() => break,
                                        Ok(Some(b)) => got.borrow_mut()[ci].extend_from_slice(&b),
                                        Ok(None) => break,
                                        // every pool buffer is out (completed but not yet handed to us): documented, retry
                                        Err(e) if e.kind() == std::io::ErrorKind::ResourceBusy => {
                                            sim::probe("pool-exhausted-reported");
                                            // on the fallback pool another pending read may hold the buffers: let it run
                                            compio_runtime::time::sleep(std::time::Duration::from_micros(10)).await;
                                        }
                                        Err(e) => {
                                            errs_r.push("io-error", format!("read_managed failed: {e}"));
                                            break;
                                        }
                                    }
                                }
                                R::Multi => {
                                    // a multishot stream is consumed until it ends by itself (end of stream, kernel-side
                                    // termination, pool exhaustion): dropping it early would throw away data the kernel
                                    // has already taken off the socket, which no later read can bring back
                                    let mut ended = false;
                                    let mut items = 0usize;
                                    let mut busy = 0usize;
                                    {
                                        let mut s = each_rd!(&mut rd, |x| x.read_multi(len).boxed_local());
                                        loop {
                                            let item = s.next().await;
                                            if !matches!(&item, Some(Err(e)) if e.kind() == std::io::ErrorKind::ResourceBusy) {
                                                busy = 0;
                                            }
                                            match item {
                                                Some(Ok(b)) => {
                                                    if b.is_empty() {
                                                        ended = true;
                                                        break;
                                                    }
                                                    items += 1;
                                                    got.borrow_mut()[ci].extend_from_slice(&b);
                                                }
                                                Some(Err(e)) if e.kind() == std::io::ErrorKind::ResourceBusy => {
                                                    sim::probe("pool-exhausted-reported");
                                                    items += 1;
                                                    busy += 1;
                                                    if busy > 20_000 {
                                                        // nobody holds a buffer here: the pool cannot stay empty
                                                        errs_r.push("pool-shrunk", format!("channel {ci}: read_multi reported an exhausted buffer pool {busy} times in a row over 200 ms; every other holder of a buffer is a read whose writer finishes by itself"));
                                                        break 'outer;
                                                    }
                                                    // somebody else's pending read may hold the buffers (fallback pool): let it run
                                                    compio_runtime::time::sleep(std::time::Duration::from_micros(10)).await;
                                                    continue;
                                                }
                                                Some(Err(e)) => {
                                                    errs_r.push("io-error", format!("read_multi failed: {e}"));
                                                    break 'outer;
                                                }
                                                None => break,
                                            }
                                        }
                                    }
                                    // a stream that ends without a single item or error has hit end of file
                                    if ended || items == 0 {
                                        break;
                                    }
                                }
                            }
                        }
                        eof.borrow_mut()[ci] = true;
                    }));
                }
                for t in tasks {
                    let _ = t.await;
                }
            });
        }
    })?;
    errs.first()?;
    for (ci, c) in chans.iter().enumerate() {
        let want: Vec<u8> = payloads[ci].concat();
        let got = &got.borrow()[ci];
        check!(*got == want, "stream-content", "channel {ci} ({:?}): receiver saw {} bytes, sender wrote {}: {}", c.kind, got.len(), want.len(), first_diff(got, &want));
        check!(eof.borrow()[ci], "no-eof", "channel {ci}: the reader did not reach end of stream after shutdown");
    }
    check!(end.open_rings == 0, "ring-leak", "{} rings still open after the runtime was dropped", end.open_rings);
    Ok(())
}

#[allow(dead_code)]
fn _t<T: IoBuf>() {}
