//! C15 (WebSocket half) — messages written on one side are read unchanged, in order and exactly once on
//! the other side, followed by a clean close, whatever the transport does.
//!
//! Both ends are the real compio-ws (tungstenite driven through `PollFd` readiness) on the two ends of a
//! Unix socket pair whose buffers are made small, so that frames larger than the buffers are written in
//! many partial writes and reads return fragments; the simulated kernel decides when readiness is
//! reported to which side (late, out of order, after interrupted waits), on the io_uring driver
//! (`PollAdd`) or the polling driver. Client and server each send a generated list of text/binary
//! messages (sizes 0 .. 70 KB) while receiving the other's, then close. The sending and the receiving half
//! of each side (`StreamExt::split`) run in one task or in two tasks of their own.

use std::{rc::Rc, time::Duration};

use compio_driver::ProactorBuilder;
use compio_runtime::fd::PollFd;
use compio_ws::tungstenite::Message;
use futures_util::{SinkExt, StreamExt};
use simcore::{self as sim, RunResult, check, worker::Scenario};

use crate::kutil::*;

pub fn scenarios() -> Vec<Scenario> {
    vec![Scenario {
        name: "ws_echo",
        property: "C15",
        engine: "K",
        run: ws_echo,
        weight: 1,
    }]
}

fn gen_msgs(who: &'static str) -> Vec<(bool, usize)> {
    let _ = who;
    (0..sim::range("msgs", 0, 4))
        .map(|_| {
            let len = match sim::choose("msg.len", 5) {
                0 => 0,
                1 => 1 + sim::range("msg.small", 0, 120) as usize,
                2 => 126 + sim::range("msg.mid", 0, 3) as usize - 1, // around the 7-bit / 16-bit length boundary
                3 => 4000 + sim::range("msg.buf", 0, 300) as usize,  // around the socket buffer size
                _ => 65_530 + sim::range("msg.big", 0, 5000) as usize, // around the 16-bit / 64-bit length boundary
            };
            (sim::flip("msg.text", 1, 2), len)
        })
        .collect()
}

fn make(seed: u64, k: usize, text: bool, len: usize) -> Message {
    let bytes = sim::payload(seed ^ (k as u64 + 1) << 12, len);
    if text { Message::text(bytes.iter().map(|b| (b'a' + b % 26) as char).collect::<String>()) } else { Message::binary(bytes) }
}

fn shrink_buffers(s: &std::os::unix::net::UnixStream, size: i32) {
    use std::os::fd::AsRawFd;
    for opt in [libc::SO_SNDBUF, libc::SO_RCVBUF] {
        unsafe { libc::setsockopt(s.as_raw_fd(), libc::SOL_SOCKET, opt, &size as *const _ as *const libc::c_void, 4) };
    }
}

fn ws_echo() -> RunResult {
    let cfg = simkernel::KConfig::draw();
    let (from_client, from_server) = (gen_msgs("client"), gen_msgs("server"));
    let bufsize = [2048i32, 4096, 65536][sim::choose("sockbuf", 3)];
    let client_closes = sim::flip("client.closes", 1, 2);
    // the two halves of a `split()` live in one task (join!) or in two tasks with wakers of their own
    let two_tasks = sim::flip("two.tasks", 1, 2);
    let capacity = 1u32 << sim::range("ring.capacity.log2", 0, 4);
    let seed = sim::subseed("payload");
    sim::log(|| format!("ring capacity {capacity}, socket buffers {bufsize}; client sends {from_client:?}, server sends {from_server:?}; {} closes; halves in {}; {cfg:?}", if client_closes { "client" } else { "server" }, if two_tasks { "two tasks" } else { "one task" }));
    let errs = Errs::default();
    let end = run_on_kernel(cfg, {
        let (errs, from_client, from_server) = (errs.clone(), from_client.clone(), from_server.clone());
        move || {
            let mut pb = ProactorBuilder::new();
            pb.capacity(capacity);
            draw_driver(&mut pb);
            let rt = compio_runtime::Runtime::builder().with_proactor(pb).build().expect("runtime");
            rt.block_on(async {
                let Ok((a, b)) = std::os::unix::net::UnixStream::pair() else { return };
                shrink_buffers(&a, bufsize);
                shrink_buffers(&b, bufsize);
                let (Ok(pa), Ok(pb_)) = (PollFd::new(a), PollFd::new(b)) else { return };
                let limit = Duration::from_millis(400);
                // ---- handshake
                let server = compio_runtime::spawn(async move { compio_ws::accept_async(pb_).await });
                let client = compio_ws::client_async("ws://localhost/chat", pa).await;
                let (Ok(server), Ok((client, _))) = (server.await.expect("server task"), client) else {
                    errs.push("handshake", "the WebSocket handshake over a Unix socket pair failed".to_string());
                    return;
                };
                // ---- each side sends its list while receiving the other's; one side then closes
                let c_errs = errs.clone();
                let s_errs = errs.clone();
                let run_side = |name: &'static str, ws: compio_ws::WebSocketStream<std::os::unix::net::UnixStream>, mine: Vec<(bool, usize)>, theirs: Vec<(bool, usize)>, base: u64, their_base: u64, closes: bool, errs: Errs| async move {
                    let (mut tx, mut rx) = ws.split();
                    let done_receiving = Rc::new(std::cell::Cell::new(false));
                    let dr = done_receiving.clone();
                    let errs2 = errs.clone();
                    let sender = async move {
                        for (k, (text, len)) in mine.iter().copied().enumerate() {
                            if let Err(e) = tx.send(make(base, k, text, len)).await {
                                errs2.push("ws-send", format!("{name}: sending message {k} of {len} bytes failed: {e}"));
                                return;
                            }
                            sim::log(|| format!("{name} sent message {k} ({len} bytes)"));
                        }
                        if closes {
                            // everything of ours is out; wait until everything of theirs is in, then close
                            while !dr.get() {
                                compio_runtime::time::sleep(Duration::from_micros(50)).await;
                            }
                            if let Err(e) = tx.send(Message::Close(None)).await {
                                errs2.push("ws-send", format!("{name}: sending the close frame failed: {e}"));
                            }
                        }
                        // the other side: its writer half stays until the reader saw the close (tungstenite answers it)
                        let _ = tx.flush().await;
                    };
                    let errs3 = errs.clone();
                    let receiver = async move {
                        let mut k = 0usize;
                        loop {
                            if k == theirs.len() {
                                done_receiving.set(true);
                            }
                            match rx.next().await {
                                Some(Ok(m)) if m.is_text() || m.is_binary() => {
                                    match theirs.get(k) {
                                        Some((text, len)) if m == make(their_base, k, *text, *len) => {}
                                        Some((_, len)) => errs3.push("ws-content", format!("{name}: message {k} differs from what the peer sent ({len} bytes sent, {} received)", m.len())),
                                        None => errs3.push("ws-content", format!("{name}: received a message the peer never sent ({} bytes)", m.len())),
                                    }
                                    sim::log(|| format!("{name} received message {k} ({} bytes)", m.len()));
                                    k += 1;
                                }
                                Some(Ok(m)) => sim::log(|| format!("{name} received a control frame (close: {})", m.is_close())),
                                Some(Err(compio_ws::tungstenite::Error::ConnectionClosed)) | None => break,
                                Some(Err(e)) => {
                                    errs3.push("ws-unclean-close", format!("{name}: the read side ended with ({e}) after {k} of {} messages", theirs.len()));
                                    break;
                                }
                            }
                        }
                        if k != theirs.len() {
                            errs3.push("ws-content", format!("{name}: received {k} of the {} messages the peer sent before the connection ended", theirs.len()));
                        }
                    };
                    if two_tasks {
                        let (a, b) = (compio_runtime::spawn(sender), compio_runtime::spawn(receiver));
                        let _ = a.await;
                        let _ = b.await;
                    } else {
                        futures_util::join!(sender, receiver);
                    }
                };
                let c = compio_runtime::spawn(run_side("client", client, from_client.clone(), from_server.clone(), seed, seed ^ 0x5555, client_closes, c_errs));
                let s = compio_runtime::spawn(run_side("server", server, from_server.clone(), from_client.clone(), seed ^ 0x5555, seed, !client_closes, s_errs));
                match compio_runtime::time::timeout(limit, async { (c.await, s.await) }).await {
                    Ok(_) => {}
                    Err(_) => errs.push("ws-stuck", format!("client and server did not finish their exchange and close within {limit:?} of simulated time")),
                }
            });
        }
    })?;
    errs.first()?;
    check!(end.open_rings == 0, "ring-leak", "{} rings still open", end.open_rings);
    Ok(())
}
