//! The scripted child of the C20 scenario (shared by the check and the `kchild` binary).

#![allow(dead_code)]

use std::{
    io::{BufRead, BufReader, Write},
    os::{fd::FromRawFd, unix::net::UnixStream},
};

pub fn pattern(stream: u8, offset: usize, len: usize) -> Vec<u8> {
    (offset..offset + len).map(|i| (i as u64).wrapping_mul(0x9E37_79B9).wrapping_add(stream as u64 * 77).to_le_bytes()[1]).collect()
}

fn set_nonblocking(fd: i32) {
    unsafe {
        let fl = libc::fcntl(fd, libc::F_GETFL);
        libc::fcntl(fd, libc::F_SETFL, fl | libc::O_NONBLOCK);
    }
}

/// `kchild <fd>`: obey commands, one per line, answer each with one line.
pub fn child_main(ctl_fd: i32) -> ! {
    let ctl = unsafe { UnixStream::from_raw_fd(ctl_fd) };
    let mut lines = BufReader::new(ctl.try_clone().expect("control socket"));
    let mut ctl = ctl;
    for fd in 0..3 {
        set_nonblocking(fd);
    }
    let mut written = [0usize; 3]; // per stream (1, 2)
    let mut stdin_total = 0usize;
    let mut stdin_hash = 0xcbf29ce484222325u64;
    let mut line = String::new();
    loop {
        line.clear();
        if lines.read_line(&mut line).unwrap_or(0) == 0 {
            std::process::exit(97); // the parent is gone
        }
        let mut it = line.split_whitespace();
        let reply = match (it.next(), it.next().and_then(|x| x.parse::<i64>().ok())) {
            // W <stream> then length on the next token
            (Some("O"), Some(n)) | (Some("E"), Some(n)) => {
                let stream = if line.starts_with('O') { 1usize } else { 2 };
                let data = pattern(stream as u8, written[stream], n as usize);
                let mut done = 0usize;
                while done < data.len() {
                    let r = unsafe { libc::write(stream as i32, data[done..].as_ptr() as *const libc::c_void, data.len() - done) };
                    if r <= 0 {
                        break;
                    }
                    done += r as usize;
                }
                written[stream] += done;
                format!("{done}")
            }
            (Some("I"), Some(n)) => {
                let mut buf = vec![0u8; n as usize];
                let r = unsafe { libc::read(0, buf.as_mut_ptr() as *mut libc::c_void, buf.len()) };
                if r > 0 {
                    for b in &buf[..r as usize] {
                        stdin_hash = (stdin_hash ^ *b as u64).wrapping_mul(0x100000001b3);
                    }
                    stdin_total += r as usize;
                }
                // -1 = nothing available yet, 0 = end of input
                format!("{} {stdin_total} {stdin_hash}", if r < 0 { -1 } else { r as i64 })
            }
            (Some("C"), Some(fd)) => {
                unsafe { libc::close(fd as i32) };
                "ok".into()
            }
            (Some("X"), Some(code)) => {
                let _ = writeln!(ctl, "bye");
                std::process::exit(code as i32)
            }
            (Some("K"), Some(sig)) => {
                let _ = writeln!(ctl, "bye");
                unsafe {
                    libc::signal(sig as i32, libc::SIG_DFL);
                    libc::raise(sig as i32);
                }
                std::process::exit(98)
            }
            _ => "?".into(),
        };
        if writeln!(ctl, "{reply}").is_err() {
            std::process::exit(97);
        }
    }
}

