//! C18 — the dispatcher starts every accepted task exactly once.
//!
//! Engine M: the real `compio-dispatcher` with 1..3 worker threads (real OS threads, each with its own
//! runtime on its own simulated kernel), driven by the main thread and up to two further dispatching
//! threads; which thread runs at any time is the simulator's decision (`simkernel::multi`). A generated set
//! of tasks (returning at once, yielding, sleeping, doing pipe I/O, spawning a local task) is dispatched; the
//! main task awaits a generated subset of the receivers (a task may also panic: its receiver then reports
//! cancellation and nothing else is affected), joins the dispatcher at a generated point, and
//! then looks at every remaining receiver.
//!
//! Oracles: a task body is never entered twice (`started-twice`); a receiver awaited before the join yields
//! the task's own value (`wrong-result`, `lost-before-join`); after the join every receiver resolves at once
//! with the value or with cancellation (`receiver-hangs`); in sequential mode a worker never has two tasks
//! in progress (`overlap`) and every accepted task has finished when join returns (`unfinished-at-join`);
//! no task code runs after join has returned (`ran-after-join`); join reports success when no worker
//! panicked; rings and descriptors of all threads are released.

use std::{
    cell::Cell,
    future::Future,
    num::NonZeroUsize,
    pin::Pin,
    sync::{
        Arc, Mutex,
        atomic::{AtomicBool, AtomicUsize, Ordering::SeqCst},
    },
    task::{Context, Poll},
    time::Duration,
};

use compio_buf::BufResult;
use compio_driver::ProactorBuilder;
use compio_io::{AsyncRead, AsyncWriteExt};
use simcore::{self as sim, RunResult, check, worker::Scenario};

use crate::kutil::*;

pub fn scenarios() -> Vec<Scenario> {
    vec![Scenario {
        name: "dispatch",
        property: "C18",
        engine: "M",
        run: dispatch,
        weight: 1,
    }]
}

/// Violations noted by any thread of the run.
#[derive(Clone, Default)]
pub struct SharedErrs(Arc<Mutex<Vec<(String, String)>>>);

impl SharedErrs {
    pub fn push(&self, oracle: &str, detail: impl Into<String>) {
        self.0.lock().unwrap().push((oracle.to_string(), detail.into()));
    }

    pub fn first(&self) -> RunResult {
        match self.0.lock().unwrap().first() {
            Some((o, d)) => Err(sim::Violation::new(o, d.clone())),
            None => Ok(()),
        }
    }
}

#[derive(Clone, Copy, Debug)]
enum Body {
    Immediate,
    Yield(u32),
    Sleep(u64),
    Pipe,
    Nested,
    /// the task panics (the executor catches it): its receiver reports cancellation, nothing else is affected
    Panic,
}

/// Returns `Pending` once, having woken itself.
pub struct YieldNow(pub bool);

impl Future for YieldNow {
    type Output = ();

    fn poll(mut self: Pin<&mut Self>, cx: &mut Context<'_>) -> Poll<()> {
        if self.0 {
            return Poll::Ready(());
        }
        self.0 = true;
        cx.waker().wake_by_ref();
        Poll::Pending
    }
}

thread_local! {
    /// dispatched tasks in progress on this (worker) thread
    static IN_PROGRESS: Cell<u32> = const { Cell::new(0) };
}

struct InProgress;

impl Drop for InProgress {
    fn drop(&mut self) {
        IN_PROGRESS.with(|c| c.set(c.get() - 1));
    }
}

fn value(k: usize) -> u64 {
    k as u64 * 7 + 1
}

fn dispatch() -> RunResult {
    let mut cfg = simkernel::KConfig::draw();
    cfg.unsupported.clear();
    let workers = 1 + sim::choose("workers", 3);
    let concurrent = sim::flip("concurrent", 1, 2);
    let bodies: Vec<Body> = (0..sim::range("tasks", 0, 6))
        .map(|_| match sim::choose("task.body", 6) {
            0 => Body::Immediate,
            1 => Body::Yield(1 + sim::range("task.yields", 0, 3) as u32),
            2 => Body::Sleep([1u64, 50, 2000][sim::choose("task.sleep", 3)]),
            3 => Body::Pipe,
            4 => Body::Nested,
            _ => Body::Panic,
        })
        .collect();
    // which thread dispatches which task: 0 = the main thread, 1..=extra = a dispatching thread of its own
    let extra = sim::choose("dispatching.threads", 3);
    let by: Vec<usize> = bodies.iter().map(|_| sim::choose("task.dispatched.by", extra + 1)).collect();
    // receivers the main task awaits before it joins (the others are looked at afterwards)
    let before_join: Vec<bool> = bodies.iter().map(|_| sim::flip("await.before.join", 1, 2)).collect();
    // fire and forget: the receiver is dropped as soon as the task is dispatched (the task runs all the same)
    let forget: Vec<bool> = bodies.iter().map(|_| sim::flip("receiver.dropped", 1, 5)).collect();
    // the results awaited before the join are awaited by the main task itself or by a local task each (their
    // wake-ups then come through the main runtime's cross-thread queue, which may be as short as one entry)
    let in_tasks = sim::flip("await.in.tasks", 1, 2);
    let sync_queue = [1usize, 2, 64][sim::choose("sync.queue.size", 3)];
    let capacity = 1u32 << sim::range("ring.capacity.log2", 1, 5);
    sim::log(|| format!("{workers} workers, {}; tasks {bodies:?} dispatched by {by:?}, awaited before join {before_join:?} ({}), receivers dropped {forget:?}; ring capacity {capacity}, cross-thread queue of {sync_queue}; {cfg:?}", if concurrent { "concurrent" } else { "sequential" }, if in_tasks { "by a task each" } else { "by the main task" }));

    let errs = SharedErrs::default();
    let n = bodies.len();
    let started: Arc<Vec<AtomicUsize>> = Arc::new((0..n).map(|_| AtomicUsize::new(0)).collect());
    let finished: Arc<Vec<AtomicBool>> = Arc::new((0..n).map(|_| AtomicBool::new(false)).collect());
    let joined = Arc::new(AtomicBool::new(false));

    let (end, multi) = run_on_kernel_multi(cfg, {
        let (errs, started, finished, joined, bodies, by, before_join, forget) = (errs.clone(), started.clone(), finished.clone(), joined.clone(), bodies.clone(), by.clone(), before_join.clone(), forget.clone());
        move || {
            let mut pb = ProactorBuilder::new();
            pb.capacity(capacity);
            draw_driver(&mut pb);
            let rt = compio_runtime::Runtime::builder().with_proactor(pb.clone()).sync_queue_size(sync_queue).build().expect("runtime");
            rt.block_on(async {
                let dispatcher = compio_dispatcher::Dispatcher::builder()
                    .worker_threads(NonZeroUsize::new(workers).unwrap())
                    .concurrent(concurrent)
                    .proactor_builder(pb.clone())
                    .build()
                    .expect("dispatcher");
                let dispatcher = Arc::new(dispatcher);
                // the closure handed to the dispatcher for task k
                let make = {
                    let (errs, started, finished, joined) = (errs.clone(), started.clone(), finished.clone(), joined.clone());
                    move |k: usize, body: Body| {
                        let (errs, started, finished, joined) = (errs.clone(), started.clone(), finished.clone(), joined.clone());
                        move || async move {
                            if started[k].fetch_add(1, SeqCst) != 0 {
                                errs.push("started-twice", format!("the body of task {k} was entered a second time"));
                            }
                            let now = IN_PROGRESS.with(|c| {
                                c.set(c.get() + 1);
                                c.get()
                            });
                            let _in_progress = InProgress;
                            if !concurrent && now > 1 {
                                errs.push("overlap", format!("sequential mode: task {k} was started while {} other dispatched task(s) were in progress on the same worker", now - 1));
                            }
                            let check_joined = |at: &str| {
                                if joined.load(SeqCst) {
                                    errs.push("ran-after-join", format!("task {k} was still running ({at}) after Dispatcher::join had returned"));
                                }
                            };
                            check_joined("at its start");
                            match body {
                                Body::Immediate => {}
                                Body::Yield(times) => {
                                    for _ in 0..times {
                                        YieldNow(false).await;
                                        check_joined("after a yield");
                                    }
                                }
                                Body::Sleep(us) => {
                                    compio_runtime::time::sleep(Duration::from_micros(us)).await;
                                    check_joined("after its sleep");
                                }
                                Body::Pipe => {
                                    if let Ok((mut rx, mut tx)) = compio_fs::pipe::anonymous().await {
                                        let _ = tx.write_all(vec![k as u8; 3]).await;
                                        let BufResult(r, b) = rx.read(Vec::with_capacity(3)).await;
                                        if r.is_ok() && b[..] != [k as u8; 3][..b.len()] {
                                            errs.push("wrong-result", format!("task {k} read {b:?} from its own pipe"));
                                        }
                                    }
                                    check_joined("after its pipe I/O");
                                }
                                Body::Panic => {
                                    YieldNow(false).await;
                                    finished[k].store(true, SeqCst);
                                    panic!("[expected] task {k} panics");
                                }
                                Body::Nested => {
                                    let inner = compio_runtime::spawn(async move {
                                        YieldNow(false).await;
                                        k
                                    });
                                    if inner.await.ok() != Some(k) {
                                        errs.push("wrong-result", format!("the local task spawned by task {k} did not return {k}"));
                                    }
                                    check_joined("after its local task");
                                }
                            }
                            finished[k].store(true, SeqCst);
                            value(k)
                        }
                    }
                };
                // ---- dispatch: by further threads and by this one
                let mut receivers: Vec<Option<futures_channel::oneshot::Receiver<u64>>> = (0..n).map(|_| None).collect();
                let helpers: Vec<std::thread::JoinHandle<Vec<(usize, futures_channel::oneshot::Receiver<u64>)>>> = (1..=extra)
                    .map(|t| {
                        let (dispatcher, make, errs) = (dispatcher.clone(), make.clone(), errs.clone());
                        let mine: Vec<(usize, Body)> = (0..n).filter(|&k| by[k] == t).map(|k| (k, bodies[k])).collect();
                        std::thread::spawn(move || {
                            let mut got = Vec::new();
                            for (k, body) in mine {
                                match dispatcher.dispatch(make(k, body)) {
                                    Ok(rx) => got.push((k, rx)),
                                    Err(_) => errs.push("refused", format!("dispatching task {k} was refused although the dispatcher has not been joined")),
                                }
                            }
                            got
                        })
                    })
                    .collect();
                for k in (0..n).filter(|&k| by[k] == 0) {
                    match dispatcher.dispatch(make(k, bodies[k])) {
                        Ok(rx) => receivers[k] = Some(rx),
                        Err(_) => errs.push("refused", format!("dispatching task {k} was refused although the dispatcher has not been joined")),
                    }
                }
                for h in helpers {
                    match h.join() {
                        Ok(got) => {
                            for (k, rx) in got {
                                receivers[k] = Some(rx);
                            }
                        }
                        Err(_) => errs.push("panic", "a dispatching thread panicked".to_string()),
                    }
                }
                for k in (0..n).filter(|&k| forget[k]) {
                    receivers[k] = None;
                }
                sim::log(|| "everything is dispatched".to_string());
                // ---- results awaited before the join: the task runs to its end and its own value arrives
                let limit = Duration::from_secs(5);
                let mut waiting: Vec<Option<compio_runtime::JoinHandle<Result<Result<u64, futures_channel::oneshot::Canceled>, compio_runtime::time::Elapsed>>>> = (0..n).map(|_| None).collect();
                if in_tasks {
                    for k in (0..n).filter(|&k| before_join[k]) {
                        if let Some(rx) = receivers[k].take() {
                            waiting[k] = Some(compio_runtime::spawn(async move { compio_runtime::time::timeout(limit, rx).await }));
                        }
                    }
                }
                for k in 0..n {
                    if !before_join[k] {
                        continue;
                    }
                    let got = if let Some(w) = waiting[k].take() {
                        match w.await {
                            Ok(r) => r,
                            Err(_) => continue,
                        }
                    } else {
                        let Some(rx) = receivers[k].take() else { continue };
                        compio_runtime::time::timeout(limit, rx).await
                    };
                    match got {
                        Ok(Ok(v)) if v == value(k) && !matches!(bodies[k], Body::Panic) => sim::log(|| format!("result of task {k} received")),
                        Ok(Err(_)) if matches!(bodies[k], Body::Panic) => sim::log(|| format!("task {k} panicked: its receiver reports cancellation")),
                        Ok(Ok(v)) => errs.push("wrong-result", format!("the receiver of task {k} yielded {v}, the task returns {}", value(k))),
                        Ok(Err(_)) => errs.push("lost-before-join", format!("the receiver of task {k} reported cancellation although the dispatcher had not been joined")),
                        Err(_) => errs.push("lost-before-join", format!("the result of task {k} did not arrive within {limit:?} of simulated time (started {} times, finished: {})", started[k].load(SeqCst), finished[k].load(SeqCst))),
                    }
                }
                // ---- join
                let Ok(dispatcher) = Arc::try_unwrap(dispatcher) else {
                    errs.push("harness", "the dispatcher is still shared".to_string());
                    return;
                };
                match compio_runtime::time::timeout(Duration::from_secs(120), dispatcher.join()).await {
                    Ok(Ok(())) => {}
                    Ok(Err(e)) => errs.push("join-failed", format!("Dispatcher::join failed: {e}")),
                    Err(_) => errs.push("join-hangs", "Dispatcher::join did not return within 120 s of simulated time".to_string()),
                }
                joined.store(true, SeqCst);
                sim::log(|| "joined".to_string());
                if !concurrent {
                    for k in 0..n {
                        if !finished[k].load(SeqCst) {
                            errs.push("unfinished-at-join", format!("sequential mode: join returned although accepted task {k} has not finished (started {} times)", started[k].load(SeqCst)));
                        }
                    }
                }
                // ---- the remaining receivers resolve at once
                for k in 0..n {
                    let Some(mut rx) = receivers[k].take() else { continue };
                    match rx.try_recv() {
                        Ok(Some(v)) if v == value(k) && !matches!(bodies[k], Body::Panic) => {}
                        Err(_) if matches!(bodies[k], Body::Panic) => {}
                        Ok(Some(v)) => errs.push("wrong-result", format!("the receiver of task {k} yielded {v}, the task returns {}", value(k))),
                        Err(_) if concurrent => {} // the task was dropped with its worker's runtime
                        Err(_) => errs.push("unfinished-at-join", format!("sequential mode: the receiver of accepted task {k} reports cancellation after join")),
                        Ok(None) => errs.push("receiver-hangs", format!("after join the receiver of task {k} is neither resolved nor cancelled (started {} times, finished: {})", started[k].load(SeqCst), finished[k].load(SeqCst))),
                    }
                }
            });
        }
    })?;
    errs.first()?;
    for k in 0..n {
        check!(started[k].load(SeqCst) <= 1, "started-twice", "task {k} was started {} times", started[k].load(SeqCst));
    }
    check!(end.open_rings == 0 && multi.open_rings == 0, "ring-leak", "{} rings still open", end.open_rings + multi.open_rings);
    sim::log(|| format!("{} threads, {} baton hand-overs, {} clock jumps with every thread idle", multi.threads, multi.switches, multi.clock_jumps));
    Ok(())
}
