//! C07 — the managed buffer pool: exclusive ownership and conservation.
//!
//! Readers on their own channels (pipe, Unix stream, TCP, UDP, file) run generated programs of managed
//! reads, multishot streams dropped after a generated number of items, and managed reads cancelled by
//! drop / token / timeout around the arrival of their data; every buffer they get is held for a
//! generated time. Pool size 1..16, small buffers, io_uring buffer ring or (polling driver) the fallback
//! pool. Oracles: live handles never overlap; a held buffer's bytes do not change while it is held and the
//! simulated kernel never selects it; what a buffer carries is the next unread part of what the peer
//! wrote (no duplicated or invented bytes); after everything has been released exactly `pool size`
//! buffers can be obtained again and one more request is refused with an error rather than left
//! hanging.

use std::{
    cell::RefCell,
    io::Write,
    os::fd::AsRawFd,
    rc::Rc,
    time::{Duration, Instant},
};

use compio_driver::{BufferRef, ProactorBuilder};
use compio_io::{AsyncReadManaged, AsyncReadManagedAt, AsyncReadMulti};
use compio_runtime::{CancelToken, FutureExt as _, time::sleep};
use futures_util::StreamExt;
use simcore::{self as sim, RunResult, check, worker::Scenario};

use crate::kutil::*;

pub fn scenarios() -> Vec<Scenario> {
    vec![Scenario {
        name: "bufpool",
        property: "C07",
        engine: "K",
        run: bufpool,
        weight: 1,
    }]
}

#[derive(Clone, Copy, Debug, PartialEq)]
enum Chan {
    Pipe,
    Unix,
    Tcp,
    Udp,
    File,
}

#[derive(Clone, Copy, Debug)]
enum Route {
    Drop,
    Token,
    Timeout,
}

#[derive(Clone, Debug)]
enum Step {
    /// one managed read; the buffer is kept for `hold` µs
    Managed { len: usize, hold: u64 },
    /// a managed read abandoned `at` µs after it started
    Cancelled { len: usize, route: Route, at: u64, hold: u64 },
    /// a multishot stream dropped after `items` items
    Multi { len: usize, items: usize, hold: u64 },
    Pause(u64),
}

#[derive(Clone, Debug)]
struct Reader {
    chan: Chan,
    steps: Vec<Step>,
    /// (at µs, bytes) the peer writes
    writes: Vec<(u64, usize)>,
}

fn gen_reader() -> Reader {
    let chan = [Chan::Pipe, Chan::Unix, Chan::Tcp, Chan::Udp, Chan::File][sim::choose("chan", 5)];
    let hold = || [0u64, 0, 3, 20, 200][sim::choose("hold", 5)];
    let len = || [0usize, 1, 7, 64][sim::choose("len", 4)];
    let steps = (0..1 + sim::range("steps", 0, 5))
        .map(|_| match sim::weighted("step", &[5, 2, 3, 1]) {
            0 => Step::Managed { len: len(), hold: hold() },
            1 => Step::Cancelled { len: len(), route: [Route::Drop, Route::Token, Route::Timeout][sim::choose("route", 3)], at: 1 + sim::range("cancel.at", 0, 20), hold: hold() },
            2 => Step::Multi { len: len(), items: 1 + sim::range("multi.items", 0, 3) as usize, hold: hold() },
            _ => Step::Pause(1 + sim::range("pause", 0, 30)),
        })
        .collect();
    let writes = (0..1 + sim::range("writes", 0, 4)).map(|_| (sim::range("write.at", 0, 60), 1 + sim::range("write.len", 0, 90) as usize)).collect();
    Reader { chan, steps, writes }
}

/// A buffer the program holds: the handle, what it contained when received, when to let go.
struct Held {
    buf: BufferRef,
    snapshot: Vec<u8>,
    until: Instant,
    id: u64,
}

#[derive(Default)]
struct Holdings {
    held: Vec<Held>,
    next_id: u64,
}

type Shared = Rc<RefCell<Holdings>>;

thread_local! {
    static POOL_LEN: std::cell::Cell<usize> = const { std::cell::Cell::new(0) };
    /// buffers the pool's allocator has handed out and not got back
    static LIVE: RefCell<Vec<usize>> = const { RefCell::new(Vec::new()) };
    static FREED_TWICE: std::cell::Cell<usize> = const { std::cell::Cell::new(0) };
}

/// The pool's memory comes from here: every buffer is freed exactly once, whoever owns it when the pool,
/// the driver and the runtime go away (the pool, a handle, an operation still pending in the driver).
struct Tracking;

impl compio_driver::BufferAllocator for Tracking {
    fn allocate(len: u32) -> std::ptr::NonNull<std::mem::MaybeUninit<u8>> {
        let p = compio_driver::BoxAllocator::allocate(len);
        LIVE.with(|l| l.borrow_mut().push(p.as_ptr() as usize));
        p
    }

    unsafe fn deallocate(ptr: std::ptr::NonNull<std::mem::MaybeUninit<u8>>, len: u32) {
        let known = LIVE.with(|l| {
            let mut l = l.borrow_mut();
            match l.iter().position(|a| *a == ptr.as_ptr() as usize) {
                Some(i) => {
                    l.swap_remove(i);
                    true
                }
                None => false,
            }
        });
        if !known {
            // (not handed to the real allocator a second time)
            FREED_TWICE.with(|f| f.set(f.get() + 1));
            return;
        }
        unsafe { compio_driver::BoxAllocator::deallocate(ptr, len) }
    }
}

/// Take a received buffer into custody: it must not overlap any other live handle.
fn hold(sh: &Shared, errs: &Errs, who: &str, buf: BufferRef, hold_us: u64) {
    let limit = POOL_LEN.with(|p| p.get());
    if buf.len() > limit {
        errs.push("buffer-too-long", format!("{who}: received a buffer of {} bytes from a pool whose buffers have {limit}", buf.len()));
    }
    let (a, l) = (buf.as_ptr() as usize, buf.len().max(1));
    let mut h = sh.borrow_mut();
    if let Some(o) = h.held.iter().find(|o| {
        let (b, m) = (o.buf.as_ptr() as usize, o.buf.len().max(1));
        a < b + m && b < a + l
    }) {
        errs.push("alias", format!("{who}: received a buffer of {} bytes that overlaps another live handle of {} bytes", buf.len(), o.buf.len()));
    }
    let id = h.next_id;
    h.next_id += 1;
    // the whole pool buffer is the program's, not just the bytes received
    simkernel::user_hold(a, l, id);
    let snapshot = buf.to_vec();
    h.held.push(Held { buf, snapshot, until: Instant::now() + Duration::from_micros(hold_us), id });
}

/// Let go of what is due (`all`: everything). A held buffer's bytes must still be what was received.
fn release(sh: &Shared, errs: &Errs, all: bool) {
    let now = Instant::now();
    let mut h = sh.borrow_mut();
    let mut i = 0;
    while i < h.held.len() {
        if all || h.held[i].until <= now {
            let x = h.held.swap_remove(i);
            if x.buf[..] != x.snapshot[..] {
                errs.push("held-buffer-changed", format!("a held buffer of {} bytes changed while the program held it: {}", x.snapshot.len(), first_diff(&x.buf, &x.snapshot)));
            }
            simkernel::user_release(x.id);
            drop(x.buf);
        } else {
            i += 1;
        }
    }
}

/// What arrived must be the next unread part of what the peer wrote: find it at or after `*pos`.
fn account(errs: &Errs, who: &str, table: &[u8], pos: &mut usize, got: &[u8], datagram: Option<&[(usize, usize)]>) {
    if got.is_empty() {
        return;
    }
    match datagram {
        // a datagram (possibly truncated to the buffer) is a prefix of one of the datagrams sent, in order
        Some(dgrams) => {
            let hit = dgrams.iter().position(|(off, len)| *off >= *pos && got.len() <= *len && table[*off..*off + got.len()] == *got);
            match hit {
                Some(k) => *pos = dgrams[k].0 + dgrams[k].1,
                None => errs.push("content", format!("{who}: a datagram of {} bytes is not (the start of) any datagram the peer sent after offset {}", got.len(), *pos)),
            }
        }
        None => {
            let hit = (*pos..=table.len().saturating_sub(got.len())).find(|o| table[*o..*o + got.len()] == *got);
            match hit {
                Some(o) => *pos = o + got.len(),
                None => errs.push("content", format!("{who}: {} bytes received are not a part of the peer's stream at or after offset {} (duplicated, reordered or invented bytes)", got.len(), *pos)),
            }
        }
    }
}

enum Src {
    Pipe(compio_fs::pipe::Receiver),
    Unix(compio_net::UnixStream),
    Tcp(compio_net::TcpStream),
    Udp(compio_net::UdpSocket),
    File(compio_fs::File, u64),
}

fn bufpool() -> RunResult {
    let cfg = simkernel::KConfig::draw();
    let readers: Vec<Reader> = (0..1 + sim::range("readers", 0, 3)).map(|_| gen_reader()).collect();
    let pool_size = 1u16 << sim::range("bufpool.size.log2", 0, 4);
    let pool_len = [8usize, 16, 33, 64][sim::choose("bufpool.len", 4)];
    let capacity = 1u32 << sim::range("ring.capacity.log2", 0, 5);
    POOL_LEN.with(|p| p.set(pool_len));
    let seed = sim::subseed("payload");
    // a managed read on a silent socket is still pending when the runtime is dropped
    let leave_pending = sim::flip("leave.a.read.pending", 1, 3);
    LIVE.with(|l| l.borrow_mut().clear());
    FREED_TWICE.with(|f| f.set(0));
    sim::log(|| format!("pool {pool_size} x {pool_len}, ring capacity {capacity}, a read left pending at the end: {leave_pending}; {cfg:?}"));
    for (i, r) in readers.iter().enumerate() {
        sim::log(|| format!("reader {i}: {r:?}"));
    }
    let errs = Errs::default();
    static N: std::sync::atomic::AtomicU64 = std::sync::atomic::AtomicU64::new(0);
    let dir = std::env::temp_dir().join(format!("verif-k-pool-{}-{}", std::process::id(), N.fetch_add(1, std::sync::atomic::Ordering::Relaxed)));
    let _ = std::fs::remove_dir_all(&dir);
    std::fs::create_dir_all(&dir).expect("scratch directory");
    let end = run_on_kernel(cfg, {
        let (errs, readers, dir) = (errs.clone(), readers.clone(), dir.clone());
        move || {
            let mut pb = ProactorBuilder::new();
            pb.capacity(capacity).buffer_pool_size(std::num::NonZero::new(pool_size).unwrap()).buffer_pool_buffer_len(pool_len).buffer_pool_allocator::<Tracking>();
            draw_driver(&mut pb);
            let rt = compio_runtime::Runtime::builder().with_proactor(pb).build().expect("runtime");
            let sh: Shared = Rc::default();
            let keep: Rc<RefCell<Vec<Box<dyn std::any::Any>>>> = Rc::default();
            let silent: Rc<RefCell<Vec<Box<dyn std::any::Any>>>> = Rc::default();
            rt.block_on(async {
                let mut tasks = Vec::new();
                for (i, r) in readers.iter().cloned().enumerate() {
                    let total: usize = r.writes.iter().map(|w| w.1).sum();
                    let table = sim::payload(seed ^ (i as u64) << 8, total);
                    let mut sorted = r.writes.clone();
                    sorted.sort();
                    // offsets of the chunks in write order
                    let mut chunks = Vec::new();
                    let mut off = 0;
                    for (at, len) in sorted {
                        chunks.push((at, off, len));
                        off += len;
                    }
                    let feed: Rc<Feed> = Rc::default();
                    let Some(src) = open(i, r.chan, &table, &chunks, &keep, &dir, &feed).await else { continue };
                    let (errs, sh) = (errs.clone(), sh.clone());
                    tasks.push(compio_runtime::spawn(reader(i, r, src, table, chunks, errs, sh, feed)));
                }
                for t in tasks {
                    let _ = t.await;
                }
                release(&sh, &errs, true);
                // let cancelled operations reach their final completion
                sleep(Duration::from_millis(1)).await;
                if errs.first().is_ok() {
                    conservation(pool_size as usize, pool_len, &errs).await;
                }
                if leave_pending {
                    if let Ok((a, b)) = std::os::unix::net::UnixStream::pair() {
                        if let Ok(s) = compio_net::UnixStream::from_std(a) {
                            compio_runtime::spawn(async move {
                                let mut r = &s;
                                let _ = r.read_managed(0).await;
                            })
                            .detach();
                            // (the peer stays silent and open until the runtime is gone)
                            silent.borrow_mut().push(Box::new(b));
                            sleep(Duration::from_micros(20)).await;
                        }
                    }
                }
                keep.borrow_mut().clear();
            });
            drop(rt);
            silent.borrow_mut().clear();
        }
    });
    let _ = std::fs::remove_dir_all(&dir);
    let end = end?;
    errs.first()?;
    check!(end.open_rings == 0, "ring-leak", "{} rings still open", end.open_rings);
    let (live, twice) = (LIVE.with(|l| l.borrow().len()), FREED_TWICE.with(|f| f.get()));
    check!(twice == 0, "buffer-freed-twice", "{twice} pool buffer(s) were handed back to the pool's allocator a second time");
    check!(live == 0, "buffer-leaked", "the runtime, its driver and pool and every buffer handle are gone; {live} of the pool's {pool_size} buffers were never handed back to the pool's allocator{}", if leave_pending { " (a managed read was pending when the runtime was dropped)" } else { "" });
    Ok(())
}

/// Writes due at the same instant may happen in any order: each takes the next `len` bytes of the table
/// when it happens, and datagrams are logged as sent.
#[derive(Default)]
struct Feed {
    cursor: std::cell::Cell<usize>,
    dgrams: RefCell<Vec<(usize, usize)>>,
}

impl Feed {
    fn next(&self, table: &[u8], len: usize) -> Vec<u8> {
        let off = self.cursor.get();
        self.cursor.set(off + len);
        self.dgrams.borrow_mut().push((off, len));
        table[off..off + len].to_vec()
    }
}

async fn open(i: usize, chan: Chan, table: &[u8], chunks: &[(u64, usize, usize)], keep: &Rc<RefCell<Vec<Box<dyn std::any::Any>>>>, dir: &std::path::Path, feed: &Rc<Feed>) -> Option<Src> {
    let at = |us: u64| Duration::from_micros(us);
    let table: Rc<Vec<u8>> = Rc::new(table.to_vec());
    Some(match chan {
        Chan::Pipe => {
            let (rx, tx) = compio_fs::pipe::anonymous().await.ok()?;
            let tx = Rc::new(tx);
            for (t, _, len) in chunks.iter().copied() {
                let (table, feed, tx) = (table.clone(), feed.clone(), tx.clone());
                simkernel::at(at(t), format!("writer of reader {i}'s pipe writes {len} bytes"), move || {
                    let d = feed.next(&table, len);
                    unsafe { libc::write(tx.as_raw_fd(), d.as_ptr() as *const libc::c_void, d.len()) };
                });
            }
            keep.borrow_mut().push(Box::new(tx));
            Src::Pipe(rx)
        }
        Chan::Unix => {
            let (a, b) = std::os::unix::net::UnixStream::pair().ok()?;
            let peer = Rc::new(RefCell::new(b));
            for (t, _, len) in chunks.iter().copied() {
                let (table, feed, peer) = (table.clone(), feed.clone(), peer.clone());
                simkernel::at(at(t), format!("peer of reader {i} writes {len} bytes"), move || {
                    let d = feed.next(&table, len);
                    let _ = peer.borrow_mut().write_all(&d);
                });
            }
            keep.borrow_mut().push(Box::new(peer));
            Src::Unix(compio_net::UnixStream::from_std(a).ok()?)
        }
        Chan::Tcp => {
            let l = std::net::TcpListener::bind("127.0.0.1:0").ok()?;
            let c = std::net::TcpStream::connect(l.local_addr().ok()?).ok()?;
            let (srv, _) = l.accept().ok()?;
            let _ = c.set_nodelay(true);
            no_time_wait(&c);
            no_time_wait(&srv);
            let peer = Rc::new(RefCell::new(c));
            for (t, _, len) in chunks.iter().copied() {
                let (table, feed, peer) = (table.clone(), feed.clone(), peer.clone());
                simkernel::at(at(t), format!("peer of reader {i} writes {len} bytes"), move || {
                    let d = feed.next(&table, len);
                    let _ = peer.borrow_mut().write_all(&d);
                });
            }
            keep.borrow_mut().push(Box::new(peer));
            Src::Tcp(compio_net::TcpStream::from_std(srv).ok()?)
        }
        Chan::Udp => {
            let rx = std::net::UdpSocket::bind("127.0.0.1:0").ok()?;
            let tx = std::net::UdpSocket::bind("127.0.0.1:0").ok()?;
            tx.connect(rx.local_addr().ok()?).ok()?;
            let tx = Rc::new(tx);
            for (t, _, len) in chunks.iter().copied() {
                let (table, feed, tx) = (table.clone(), feed.clone(), tx.clone());
                simkernel::at(at(t), format!("peer of reader {i} sends a datagram of {len} bytes"), move || {
                    let d = feed.next(&table, len);
                    let _ = tx.send(&d);
                });
            }
            keep.borrow_mut().push(Box::new(tx));
            Src::Udp(compio_net::UdpSocket::from_std(rx).ok()?)
        }
        Chan::File => {
            let path = dir.join(format!("f{i}"));
            std::fs::write(&path, &table[..]).ok()?;
            Src::File(compio_fs::File::open(&path).await.ok()?, 0)
        }
    })
}

async fn managed(src: &mut Src, len: usize) -> std::io::Result<Option<BufferRef>> {
    match src {
        Src::Pipe(r) => {
            let mut r = &*r;
            r.read_managed(len).await
        }
        Src::Unix(s) => {
            let mut r = &*s;
            r.read_managed(len).await
        }
        Src::Tcp(s) => {
            let mut r = &*s;
            r.read_managed(len).await
        }
        Src::Udp(s) => s.recv_managed(len).await,
        Src::File(f, pos) => {
            // now and then a read at (or beyond) the end of the file: it delivers nothing and must not cost a buffer
            if sim::flip("file.read.at.end", 1, 3) {
                return match f.read_managed_at(len, 1 << 20).await {
                    Ok(Some(b)) if !b.is_empty() => Err(std::io::Error::other(format!("a read beyond the end of the file delivered {} bytes", b.len()))),
                    Ok(_) => Ok(None),
                    Err(e) => Err(e),
                };
            }
            let r = f.read_managed_at(len, *pos).await;
            if let Ok(Some(b)) = &r {
                *pos += b.len() as u64;
            }
            r
        }
    }
}

#[allow(clippy::too_many_arguments)]
async fn reader(i: usize, r: Reader, mut src: Src, table: Vec<u8>, chunks: Vec<(u64, usize, usize)>, errs: Errs, sh: Shared, feed: Rc<Feed>) {
    let who = format!("reader {i} ({:?})", r.chan);
    let udp = r.chan == Chan::Udp;
    let mut pos = 0usize;
    // a reader never waits for more than its peer will ever send
    let end_of_data = Duration::from_micros(chunks.iter().map(|c| c.0).max().unwrap_or(0) + 200);
    let started = Instant::now();
    for step in r.steps {
        release(&sh, &errs, false);
        match step {
            Step::Pause(us) => sleep(Duration::from_micros(us)).await,
            Step::Managed { len, hold: h } => {
                let left = end_of_data.saturating_sub(started.elapsed()) + Duration::from_micros(50);
                match compio_runtime::time::timeout(left, managed(&mut src, len)).await {
                    Ok(Ok(Some(b))) => {
                        {
                            let sent = feed.dgrams.borrow().clone();
                            account(&errs, &who, &table, &mut pos, &b, if udp { Some(&sent[..]) } else { None });
                        }
                        hold(&sh, &errs, &who, b, h);
                    }
                    // end of file, pool exhausted (reported as an error), or nothing more to come
                    Ok(Ok(None)) | Ok(Err(_)) | Err(_) => {}
                }
            }
            Step::Cancelled { len, route, at, hold: h } => {
                let token = CancelToken::new();
                let r = match route {
                    Route::Timeout => compio_runtime::time::timeout(Duration::from_micros(at), managed(&mut src, len)).await.ok(),
                    Route::Token => {
                        let t = token.clone();
                        let c = compio_runtime::spawn(async move {
                            sleep(Duration::from_micros(at)).await;
                            t.cancel();
                        });
                        let r = managed(&mut src, len).with_cancel(token).await;
                        let _ = c.await;
                        Some(r)
                    }
                    Route::Drop => {
                        let fut = managed(&mut src, len);
                        futures_util::pin_mut!(fut);
                        match futures_util::future::select(fut, Box::pin(sleep(Duration::from_micros(at)))).await {
                            futures_util::future::Either::Left((r, _)) => Some(r),
                            futures_util::future::Either::Right(_) => None,
                        }
                    }
                };
                if let Some(Ok(Some(b))) = r {
                    {
                            let sent = feed.dgrams.borrow().clone();
                            account(&errs, &who, &table, &mut pos, &b, if udp { Some(&sent[..]) } else { None });
                        }
                    hold(&sh, &errs, &who, b, h);
                } else if !matches!(src, Src::File(..)) {
                    // what a read dropped in flight had already taken off the channel is gone with it: the next
                    // buffer may start later in the stream (never earlier)
                }
            }
            Step::Multi { len, items, hold: h } => {
                let left = end_of_data.saturating_sub(started.elapsed()) + Duration::from_micros(50);
                let deadline = Instant::now() + left;
                let mut got = 0;
                macro_rules! drain {
                    ($st:expr) => {{
                        let mut st = $st;
                        while got < items && Instant::now() < deadline {
                            match compio_runtime::time::timeout(deadline.saturating_duration_since(Instant::now()), st.next()).await {
                                Ok(Some(Ok(b))) if b.is_empty() => break,
                                Ok(Some(Ok(b))) => {
                                    {
                            let sent = feed.dgrams.borrow().clone();
                            account(&errs, &who, &table, &mut pos, &b, if udp { Some(&sent[..]) } else { None });
                        }
                                    hold(&sh, &errs, &who, b, h);
                                    got += 1;
                                }
                                // pool exhausted: reported, not hung; let holders release
                                Ok(Some(Err(_))) => {
                                    release(&sh, &errs, false);
                                    sleep(Duration::from_micros(5)).await;
                                }
                                Ok(None) | Err(_) => break,
                            }
                        }
                        // dropped here, with whatever the kernel has already put into further buffers
                    }};
                }
                match &mut src {
                    Src::Pipe(r) => {
                        let mut r = &*r;
                        drain!(r.read_multi(len).boxed_local())
                    }
                    Src::Unix(s) => {
                        let mut r = &*s;
                        drain!(r.read_multi(len).boxed_local())
                    }
                    Src::Tcp(s) => {
                        let mut r = &*s;
                        drain!(r.read_multi(len).boxed_local())
                    }
                    Src::Udp(s) => drain!(s.recv_multi(len).boxed_local()),
                    Src::File(..) => {}
                }
            }
        }
    }
}

/// With nothing held and nothing pending, exactly `pool_size` buffers can be obtained and the next request
/// is refused with an error.
async fn conservation(pool_size: usize, pool_len: usize, errs: &Errs) {
    let Ok((a, mut b)) = std::os::unix::net::UnixStream::pair() else { return };
    let Ok(s) = compio_net::UnixStream::from_std(a) else { return };
    let _ = b.write_all(&vec![0x42u8; (pool_size + 2) * pool_len]);
    let mut r = &s;
    let mut got: Vec<BufferRef> = Vec::new();
    for k in 0..pool_size {
        match compio_runtime::time::timeout(Duration::from_millis(20), r.read_managed(0)).await {
            Ok(Ok(Some(buf))) if !buf.is_empty() => {
                if got.iter().any(|o| {
                    let (x, y) = (o.as_ptr() as usize, buf.as_ptr() as usize);
                    x < y + buf.len() && y < x + o.len()
                }) {
                    errs.push("alias", format!("conservation: buffer {k} overlaps a buffer still held"));
                }
                got.push(buf);
            }
            Ok(other) => {
                errs.push("pool-shrunk", format!("after every holder let go, only {k} of the pool's {pool_size} buffers could be obtained: request {k} returned {:?}", other.map(|o| o.map(|b| b.len()))));
                return;
            }
            Err(_) => {
                errs.push("pool-shrunk", format!("after every holder let go, only {k} of the pool's {pool_size} buffers could be obtained: request {k} never completed although data is waiting"));
                return;
            }
        }
    }
    match compio_runtime::time::timeout(Duration::from_millis(20), r.read_managed(0)).await {
        Ok(Err(_)) => sim::probe("exhaustion-reported"),
        Ok(Ok(b)) => errs.push("pool-grew", format!("all {pool_size} buffers are held, yet another managed read delivered {:?} bytes", b.map(|b| b.len()))),
        Err(_) => errs.push("exhaustion-hangs", format!("all {pool_size} buffers are held and data is waiting: the next managed read neither failed nor completed within 20 ms")),
    }
    // the same for a multishot stream: it reports that it has no buffer, it does not go quiet
    {
        let mut r = &s;
        let mut st = r.read_multi(0).boxed_local();
        match compio_runtime::time::timeout(Duration::from_millis(20), st.next()).await {
            Ok(Some(Err(_))) => sim::probe("multishot-exhaustion-reported"),
            Ok(Some(Ok(b))) => errs.push("pool-grew", format!("all {pool_size} buffers are held, yet a multishot read delivered {} bytes", b.len())),
            Ok(None) => errs.push("exhaustion-hangs", format!("all {pool_size} buffers are held and data is waiting: a multishot read ended without an item instead of reporting the exhausted pool")),
            Err(_) => errs.push("exhaustion-hangs", format!("all {pool_size} buffers are held and data is waiting: a multishot read yielded nothing within 20 ms instead of reporting the exhausted pool")),
        }
    }
    drop(got);
}
