//! C14 (datagram and accept halves) — each received datagram is one sent datagram with its source
//! address, cut to the buffer when it does not fit and flagged where the call reports flags; every
//! incoming connection is accepted exactly once, through single accepts or the multishot stream.

use std::{
    cell::RefCell,
    io::Write,
    net::SocketAddr,
    rc::Rc,
    time::{Duration, Instant},
};

use compio_buf::BufResult;
use compio_driver::ProactorBuilder;
use compio_io::AsyncRead;
use futures_util::StreamExt;
use simcore::{self as sim, RunResult, check, worker::Scenario};

use crate::kutil::*;

pub fn scenarios() -> Vec<Scenario> {
    vec![
        Scenario {
            name: "datagrams",
            property: "C14",
            engine: "K",
            run: datagrams,
            weight: 1,
        },
        Scenario {
            name: "accepts",
            property: "C14",
            engine: "K",
            run: accepts,
            weight: 1,
        },
    ]
}

#[derive(Clone, Copy, Debug)]
enum Rx {
    Recv(usize),
    RecvFrom(usize),
    RecvVectored(usize, usize),
    RecvFromVectored(usize, usize),
    RecvMsg(usize),
    RecvMsgVectored(usize, usize),
    MsgManaged(usize),
    /// the stream variants take up to this many datagrams
    MsgMulti(usize),
    Managed(usize),
    FromManaged(usize),
    /// the stream variants take up to this many datagrams
    Multi(usize, usize),
    FromMulti(usize),
}

#[derive(Clone, Copy, Debug)]
enum Tx {
    SendTo(usize),
    SendToVectored(usize),
    /// from a socket connected to the receiver
    Send(usize),
    SendVectored(usize),
    SendMsg(usize),
    /// by the environment (a plain std socket), at a generated instant
    Env(u64, usize),
}

fn dlen() -> usize {
    // (an empty datagram is indistinguishable from "nothing" in the managed and stream-style calls)
    [1usize, 2, 9, 40, 200, 1400][sim::choose("dgram.len", 6)]
}

fn cap() -> usize {
    [1usize, 8, 39, 64, 256, 2048][sim::choose("rx.cap", 6)]
}

fn datagrams() -> RunResult {
    let cfg = simkernel::KConfig::draw();
    let n = 1 + sim::range("dgrams", 0, 5) as usize;
    let txs: Vec<Tx> = (0..n)
        .map(|_| match sim::choose("tx.kind", 6) {
            0 => Tx::SendTo(dlen()),
            1 => Tx::SendToVectored(dlen()),
            2 => Tx::Send(dlen()),
            3 => Tx::SendVectored(dlen()),
            4 => Tx::SendMsg(dlen()),
            _ => Tx::Env(sim::range("tx.at", 0, 50), dlen()),
        })
        .collect();
    let rxs: Vec<Rx> = (0..n)
        .map(|_| match sim::choose("rx.kind", 12) {
            0 => Rx::Recv(cap()),
            1 => Rx::RecvFrom(cap()),
            2 => Rx::RecvVectored(cap().min(64), cap()),
            3 => Rx::RecvFromVectored(cap().min(64), cap()),
            4 => Rx::RecvMsg(cap()),
            5 => Rx::Managed([0usize, 8, 64][sim::choose("rx.mlen", 3)]),
            6 => Rx::FromManaged([0usize, 8, 64][sim::choose("rx.mlen", 3)]),
            7 => Rx::Multi([0usize, 8][sim::choose("rx.mlen", 2)], 1 + sim::range("rx.take", 0, 2) as usize),
            8 => Rx::FromMulti(1 + sim::range("rx.take", 0, 2) as usize),
            9 => Rx::RecvMsgVectored(cap().min(64), cap()),
            10 => Rx::MsgManaged([0usize, 8, 64][sim::choose("rx.mlen", 3)]),
            _ => Rx::MsgMulti(1 + sim::range("rx.take", 0, 2) as usize),
        })
        .collect();
    let capacity = 1u32 << sim::range("ring.capacity.log2", 0, 4);
    let pool_len = [16usize, 64, 256][sim::choose("bufpool.len", 3)];
    // the sockets of a run are IPv4 or IPv6 ones (a source address of 16 or of 28 bytes)
    let host = if sim::flip("ipv6", 1, 3) { "[::1]:0" } else { "127.0.0.1:0" };
    let seed = sim::subseed("payload");
    sim::log(|| format!("ring capacity {capacity}, pool buffers of {pool_len}, sockets on {host}; {cfg:?}"));
    sim::log(|| format!("send: {txs:?}"));
    sim::log(|| format!("receive: {rxs:?}"));
    let errs = Errs::default();
    let end = run_on_kernel(cfg, {
        let errs = errs.clone();
        move || {
            let mut pb = ProactorBuilder::new();
            pb.capacity(capacity).buffer_pool_size(std::num::NonZero::new(4).unwrap()).buffer_pool_buffer_len(pool_len);
            let iour = draw_driver(&mut pb) == compio_driver::DriverType::IoUring;
            let rt = compio_runtime::Runtime::builder().with_proactor(pb).build().expect("runtime");
            rt.block_on(async {
                let Ok(rx) = compio_net::UdpSocket::bind(host).await else { return };
                let Ok(tx) = compio_net::UdpSocket::bind(host).await else { return };
                let Ok(txc) = compio_net::UdpSocket::bind(host).await else { return };
                let Ok(envs) = std::net::UdpSocket::bind(host) else { return };
                let (Ok(rx_addr), Ok(tx_addr), Ok(txc_addr), Ok(env_addr)) = (rx.local_addr(), tx.local_addr(), txc.local_addr(), envs.local_addr()) else { return };
                if txc.connect(rx_addr).await.is_err() {
                    return;
                }
                let envs = Rc::new(envs);
                // what was sent, in order of sending: (payload, source)
                let sent: Rc<RefCell<Vec<(Vec<u8>, SocketAddr)>>> = Rc::default();
                // ---- the sender: one after the other, so that the order of arrival is the order of `sent`
                let sender = {
                    let (errs, sent, txs) = (errs.clone(), sent.clone(), txs.clone());
                    async move {
                        for (k, t) in txs.iter().copied().enumerate() {
                            // (a datagram starts with its number: even cut to one byte it is attributable to one sender)
                            let data = |len: usize| {
                                let mut d = sim::payload(seed ^ (k as u64 + 1) << 8, len);
                                if let Some(b) = d.first_mut() {
                                    *b = k as u8;
                                }
                                d
                            };
                            let (l, src) = match t {
                                Tx::SendTo(l) | Tx::SendToVectored(l) | Tx::SendMsg(l) => (l, tx_addr),
                                Tx::Send(l) | Tx::SendVectored(l) => (l, txc_addr),
                                Tx::Env(_, l) => (l, env_addr),
                            };
                            let d = data(l);
                            // on record before it is under way: the receiver may see it before this task goes on
                            sent.borrow_mut().push((d.clone(), src));
                            let res: std::io::Result<usize> = match t {
                                Tx::SendTo(_) => tx.send_to(d.clone(), rx_addr).await.0,
                                Tx::SendToVectored(_) => {
                                    let cut = l / 2;
                                    tx.send_to_vectored([d[..cut].to_vec(), Vec::new(), d[cut..].to_vec()], rx_addr).await.0
                                }
                                Tx::Send(_) => txc.send(d.clone()).await.0,
                                Tx::SendVectored(_) => {
                                    let cut = l / 3;
                                    txc.send_vectored([d[..cut].to_vec(), d[cut..].to_vec()]).await.0
                                }
                                Tx::SendMsg(_) => tx.send_msg(d.clone(), Vec::<u8>::new(), rx_addr).await.0,
                                Tx::Env(at, _) => {
                                    compio_runtime::time::sleep(Duration::from_micros(at)).await;
                                    envs.send_to(&d, rx_addr)
                                }
                            };
                            match res {
                                Ok(n) if n == d.len() => {}
                                Ok(n) => errs.push("count", format!("datagram {k} ({t:?}): {n} bytes reported for a datagram of {}", d.len())),
                                Err(e) => errs.push("io-error", format!("datagram {k} ({t:?}) failed: {e}")),
                            }
                        }
                    }
                };
                // ---- the receiver
                let receiver = {
                    let (errs, sent, rxs) = (errs.clone(), sent.clone(), rxs.clone());
                    let rx = &rx;
                    async move {
                        let mut next = 0usize; // index into `sent` of the next datagram expected
                        let deadline = Instant::now() + Duration::from_millis(3);
                        // one received datagram against the next one sent
                        // one received datagram against what was sent: it must be (the start of) the next datagram not
                        // yet accounted for, or a later one (a multishot stream dropped early takes with it what the
                        // kernel had already received for it; datagrams may be lost, never duplicated or reordered)
                        let mut judge = |what: &str, got: &[u8], room: usize, from: Option<SocketAddr>, truncated: Option<bool>| {
                            let s = sent.borrow();
                            let hit = (next..s.len()).find(|i| {
                                let fit = s[*i].0.len().min(room);
                                got.len() == fit && got[..] == s[*i].0[..fit]
                            });
                            let Some(i) = hit else {
                                errs.push("datagram-content", format!("{what}: received {} bytes (room {room}) that are not (the start of) any datagram sent and not yet received; {} sent, {next} accounted for", got.len(), s.len()));
                                return;
                            };
                            let (want, src) = &s[i];
                            next = i + 1;
                            if let Some(a) = from {
                                if a != *src {
                                    errs.push("datagram-source", format!("{what}: datagram {i} came from {src}, reported {a}"));
                                }
                            }
                            if let Some(t) = truncated {
                                if t != (want.len() > room) {
                                    errs.push("datagram-truncation-flag", format!("{what}: datagram {i} of {} bytes into room for {room}: truncation flag is {t}", want.len()));
                                }
                            }
                        };
                        for (k, r) in rxs.iter().copied().enumerate() {
                            let left = deadline.saturating_duration_since(Instant::now()) + Duration::from_micros(100);
                            let what = format!("receive {k} ({r:?})");
                            match r {
                                Rx::Recv(c) => {
                                    if let Ok(BufResult(Ok(n), b)) = compio_runtime::time::timeout(left, rx.recv(Vec::with_capacity(c))).await {
                                        check_len(&errs, &what, n, b.len());
                                        judge(&what, &b, b.capacity(), None, None);
                                    }
                                }
                                Rx::RecvFrom(c) => {
                                    if let Ok(BufResult(Ok((n, a)), b)) = compio_runtime::time::timeout(left, rx.recv_from(Vec::with_capacity(c))).await {
                                        check_len(&errs, &what, n, b.len());
                                        judge(&what, &b, b.capacity(), Some(a), None);
                                    }
                                }
                                Rx::RecvVectored(c1, c2) => {
                                    if let Ok(BufResult(Ok(n), bs)) = compio_runtime::time::timeout(left, rx.recv_vectored([Vec::with_capacity(c1), Vec::with_capacity(c2)])).await {
                                        let room = bs[0].capacity() + bs[1].capacity();
                                        let got: Vec<u8> = bs.iter().flatten().copied().collect();
                                        check_len(&errs, &what, n, got.len());
                                        judge(&what, &got, room, None, None);
                                    }
                                }
                                Rx::RecvFromVectored(c1, c2) => {
                                    if let Ok(BufResult(Ok((n, a)), bs)) = compio_runtime::time::timeout(left, rx.recv_from_vectored([Vec::with_capacity(c1), Vec::with_capacity(c2)])).await {
                                        let room = bs[0].capacity() + bs[1].capacity();
                                        let got: Vec<u8> = bs.iter().flatten().copied().collect();
                                        check_len(&errs, &what, n, got.len());
                                        judge(&what, &got, room, Some(a), None);
                                    }
                                }
                                Rx::RecvMsg(c) => {
                                    if let Ok(BufResult(Ok((n, _, a, flags)), (b, _))) = compio_runtime::time::timeout(left, rx.recv_msg(Vec::with_capacity(c), Vec::<u8>::with_capacity(64))).await {
                                        check_len(&errs, &what, n, b.len());
                                        judge(&what, &b, b.capacity(), Some(a), Some(flags.contains(compio_driver::op::ReturnFlags::TRUNC)));
                                    }
                                }
                                Rx::RecvMsgVectored(c1, c2) => {
                                    if let Ok(BufResult(Ok((n, _, a, flags)), (bs, _))) = compio_runtime::time::timeout(left, rx.recv_msg_vectored([Vec::with_capacity(c1), Vec::with_capacity(c2)], Vec::<u8>::with_capacity(64))).await {
                                        let room = bs[0].capacity() + bs[1].capacity();
                                        let got: Vec<u8> = bs.iter().flatten().copied().collect();
                                        check_len(&errs, &what, n, got.len());
                                        judge(&what, &got, room, Some(a), Some(flags.contains(compio_driver::op::ReturnFlags::TRUNC)));
                                    }
                                }
                                Rx::MsgManaged(l) => {
                                    if let Ok(Ok(Some((b, _, a, flags)))) = compio_runtime::time::timeout(left, rx.recv_msg_managed(l, Vec::<u8>::with_capacity(64))).await {
                                        judge(&what, &b, if l == 0 { pool_len } else { l.min(pool_len) }, Some(a), Some(flags.contains(compio_driver::op::ReturnFlags::TRUNC)));
                                    }
                                }
                                Rx::MsgMulti(take) => {
                                    let mut st = rx.recv_msg_multi(0).boxed_local();
                                    let mut got = 0;
                                    while got < take {
                                        let left = deadline.saturating_duration_since(Instant::now()) + Duration::from_micros(100);
                                        match compio_runtime::time::timeout(left, st.next()).await {
                                            Ok(Some(Ok(r))) => {
                                                let a = r.addr().and_then(|a| a.as_socket());
                                                let room = if iour { pool_len.saturating_sub(header_room()) } else { pool_len };
                                                judge(&what, r.data(), room, a, Some(r.flags().contains(compio_driver::op::ReturnFlags::TRUNC)));
                                                got += 1;
                                            }
                                            Ok(Some(Err(e))) if e.kind() == std::io::ErrorKind::ResourceBusy && Instant::now() < deadline => compio_runtime::time::sleep(Duration::from_micros(5)).await,
                                            _ => break,
                                        }
                                    }
                                }
                                Rx::Managed(l) => {
                                    if let Ok(Ok(Some(b))) = compio_runtime::time::timeout(left, rx.recv_managed(l)).await {
                                        judge(&what, &b, if l == 0 { pool_len } else { l.min(pool_len) }, None, None);
                                    }
                                }
                                Rx::FromManaged(l) => {
                                    if let Ok(Ok(Some((b, a)))) = compio_runtime::time::timeout(left, rx.recv_from_managed(l)).await {
                                        judge(&what, &b, if l == 0 { pool_len } else { l.min(pool_len) }, Some(a), None);
                                    }
                                }
                                Rx::Multi(l, take) => {
                                    let mut st = rx.recv_multi(l).boxed_local();
                                    let mut got = 0;
                                    while got < take {
                                        let left = deadline.saturating_duration_since(Instant::now()) + Duration::from_micros(100);
                                        match compio_runtime::time::timeout(left, st.next()).await {
                                            Ok(Some(Ok(b))) => {
                                                judge(&what, &b, if l == 0 { pool_len } else { l.min(pool_len) }, None, None);
                                                got += 1;
                                            }
                                            Ok(Some(Err(e))) if e.kind() == std::io::ErrorKind::ResourceBusy && Instant::now() < deadline => compio_runtime::time::sleep(Duration::from_micros(5)).await,
                                            _ => break,
                                        }
                                    }
                                }
                                Rx::FromMulti(take) => {
                                    let mut st = rx.recv_from_multi().boxed_local();
                                    let mut got = 0;
                                    while got < take {
                                        let left = deadline.saturating_duration_since(Instant::now()) + Duration::from_micros(100);
                                        match compio_runtime::time::timeout(left, st.next()).await {
                                            Ok(Some(Ok(r))) => {
                                                let a = r.addr().and_then(|a| a.as_socket());
                                                // on the ring the buffer also carries the message header and the source address
                                                let room = if iour { pool_len.saturating_sub(header_room()) } else { pool_len };
                                                judge(&what, r.data(), room, a, None);
                                                got += 1;
                                            }
                                            Ok(Some(Err(e))) if e.kind() == std::io::ErrorKind::ResourceBusy && Instant::now() < deadline => compio_runtime::time::sleep(Duration::from_micros(5)).await,
                                            _ => break,
                                        }
                                    }
                                }
                            }
                        }
                    }
                };
                futures_util::join!(sender, receiver);
            });
        }
    })?;
    errs.first()?;
    check!(end.open_rings == 0, "ring-leak", "{} rings still open", end.open_rings);
    Ok(())
}

/// Bytes of a provided buffer a multishot recvmsg uses for its header and the source address (IPv4):
/// `io_uring_recvmsg_out` (16) + the name length the operation asked for.
fn header_room() -> usize {
    16 + std::mem::size_of::<libc::sockaddr_storage>()
}

/// Connections waiting in a listening TCP socket's accept queue (`tcpi_unacked` of a listener).
fn accept_queue_len(fd: i32) -> u32 {
    let mut info: libc::tcp_info = unsafe { std::mem::zeroed() };
    let mut len = std::mem::size_of::<libc::tcp_info>() as libc::socklen_t;
    let r = unsafe { libc::getsockopt(fd, libc::IPPROTO_TCP, libc::TCP_INFO, &mut info as *mut _ as *mut libc::c_void, &mut len) };
    if r == 0 { info.tcpi_unacked } else { u32::MAX }
}

fn check_len(errs: &Errs, what: &str, reported: usize, in_buffer: usize) {
    if reported != in_buffer {
        errs.push("count", format!("{what}: {reported} bytes reported, the buffer holds {in_buffer}"));
    }
}

// ---------------------------------------------------------------- accept exactly once

fn accepts() -> RunResult {
    let cfg = simkernel::KConfig::draw();
    let clients: Vec<u64> = (0..1 + sim::range("clients", 0, 5)).map(|_| sim::range("client.at", 0, 60)).collect();
    let unix = sim::flip("accept.unix", 1, 2);
    // how the acceptor takes them: single accepts, or one multishot stream kept for the whole run (a stream
    // dropped early takes with it the connections the kernel has already accepted for it)
    let multi = sim::flip("accept.multi", 1, 2);
    let plan: Vec<(bool, usize)> = vec![(multi, clients.len())];
    let capacity = 1u32 << sim::range("ring.capacity.log2", 0, 4);
    sim::log(|| format!("ring capacity {capacity}; {} listener; clients connect at {clients:?} µs; acceptor plan (multishot, items) {plan:?}; {cfg:?}", if unix { "Unix" } else { "TCP" }));
    let errs = Errs::default();
    static N: std::sync::atomic::AtomicU64 = std::sync::atomic::AtomicU64::new(0);
    let run_no = N.fetch_add(1, std::sync::atomic::Ordering::Relaxed);
    let end = run_on_kernel(cfg, {
        let (errs, clients, plan) = (errs.clone(), clients.clone(), plan.clone());
        move || {
            let mut pb = ProactorBuilder::new();
            pb.capacity(capacity);
            draw_driver(&mut pb);
            let rt = compio_runtime::Runtime::builder().with_proactor(pb).build().expect("runtime");
            let keep: Rc<RefCell<Vec<Box<dyn std::any::Any>>>> = Rc::default();
            rt.block_on(async {
                enum L {
                    Tcp(compio_net::TcpListener),
                    Unix(compio_net::UnixListener),
                }
                let connected: Rc<RefCell<Vec<u8>>> = Rc::default();
                // TCP clients are told apart by their source port (delivery of data on loopback TCP may lag behind
                // the write by a softirq, which the simulator does not control); Unix clients by a byte they send
                let ports: Rc<RefCell<Vec<(u16, u8)>>> = Rc::default();
                let l = if unix {
                    use std::os::{linux::net::SocketAddrExt, unix::net::SocketAddr};
                    let name = format!("verif-k-acc-{}-{run_no}", std::process::id());
                    let addr = SocketAddr::from_abstract_name(name.as_bytes()).expect("abstract address");
                    let Ok(std_l) = std::os::unix::net::UnixListener::bind_addr(&addr) else { return };
                    for (id, at) in clients.iter().copied().enumerate() {
                        let (keep, addr, connected) = (keep.clone(), addr.clone(), connected.clone());
                        simkernel::at(Duration::from_micros(at), format!("client {id} connects"), move || {
                            if let Ok(mut s) = std::os::unix::net::UnixStream::connect_addr(&addr) {
                                let _ = s.write_all(&[id as u8]);
                                connected.borrow_mut().push(id as u8);
                                keep.borrow_mut().push(Box::new(s));
                            }
                        });
                    }
                    let Ok(l) = compio_net::UnixListener::from_std(std_l) else { return };
                    L::Unix(l)
                } else {
                    // the listener lives as long as the run and clients connect only while it does: no other
                    // process can reach or be reached through its port meanwhile
                    let Ok(l) = compio_net::TcpListener::bind("127.0.0.1:0").await else { return };
                    let Ok(addr) = l.local_addr() else { return };
                    let lfd = {
                        use std::os::fd::AsRawFd;
                        l.as_raw_fd()
                    };
                    for (id, at) in clients.iter().copied().enumerate() {
                        let (keep, connected, ports) = (keep.clone(), connected.clone(), ports.clone());
                        simkernel::at(Duration::from_micros(at), format!("client {id} connects"), move || {
                            let before = accept_queue_len(lfd);
                            if let Ok(s) = std::net::TcpStream::connect(addr) {
                                // connect() returns when the SYN-ACK is in; the connection reaches the accept queue a
                                // moment later: wait for it, so that the run does not depend on that moment
                                let t0 = std::time::Instant::now();
                                while accept_queue_len(lfd) <= before && t0.elapsed() < Duration::from_secs(2) {
                                    std::thread::yield_now();
                                }
                                no_time_wait(&s);
                                if let Ok(a) = s.local_addr() {
                                    ports.borrow_mut().push((a.port(), id as u8));
                                }
                                connected.borrow_mut().push(id as u8);
                                keep.borrow_mut().push(Box::new(s));
                            }
                        });
                    }
                    L::Tcp(l)
                };
                let total = clients.len();
                let mut seen: Vec<u8> = Vec::new();
                let deadline = Instant::now() + Duration::from_millis(2);
                macro_rules! identify {
                    ($s:expr) => {{
                        let mut s = $s;
                        let left = deadline.saturating_duration_since(Instant::now()) + Duration::from_micros(200);
                        match compio_runtime::time::timeout(left, s.read(Vec::with_capacity(1))).await {
                            Ok(BufResult(Ok(1), b)) => seen.push(b[0]),
                            other => errs.push("accepted-silent", format!("an accepted connection delivered {:?} instead of its client's one byte", other.map(|r| r.0))),
                        }
                    }};
                }
                macro_rules! identify_tcp {
                    ($s:expr) => {{
                        let s: compio_net::TcpStream = $s;
                        no_time_wait(&s);
                        match s.peer_addr().ok().and_then(|a| ports.borrow().iter().find(|(p, _)| *p == a.port()).map(|(_, id)| *id)) {
                            Some(id) => seen.push(id),
                            None => errs.push("accepted-unknown", "an accepted TCP connection does not come from any of the clients".to_string()),
                        }
                    }};
                }
                'plan: for (multi, take) in plan {
                    if seen.len() >= total {
                        break;
                    }
                    let take = take.min(total - seen.len());
                    if multi {
                        match &l {
                            L::Tcp(l) => {
                                let mut inc = l.incoming();
                                for _ in 0..take {
                                    let left = deadline.saturating_duration_since(Instant::now()) + Duration::from_micros(200);
                                    match compio_runtime::time::timeout(left, inc.next()).await {
                                        Ok(Some(Ok(s))) => identify_tcp!(s),
                                        _ => break 'plan,
                                    }
                                }
                            }
                            L::Unix(l) => {
                                let mut inc = l.incoming();
                                for _ in 0..take {
                                    let left = deadline.saturating_duration_since(Instant::now()) + Duration::from_micros(200);
                                    match compio_runtime::time::timeout(left, inc.next()).await {
                                        Ok(Some(Ok(s))) => identify!(s),
                                        _ => break 'plan,
                                    }
                                }
                            }
                        }
                    } else {
                        for _ in 0..take {
                            let left = deadline.saturating_duration_since(Instant::now()) + Duration::from_micros(200);
                            match &l {
                                L::Tcp(l) => match compio_runtime::time::timeout(left, l.accept()).await {
                                    Ok(Ok((s, _))) => identify_tcp!(s),
                                    _ => break 'plan,
                                },
                                L::Unix(l) => match compio_runtime::time::timeout(left, l.accept()).await {
                                    Ok(Ok((s, _))) => identify!(s),
                                    _ => break 'plan,
                                },
                            }
                        }
                    }
                }
                // whatever the plan left over is taken by single accepts
                while seen.len() < total {
                    let left = deadline.saturating_duration_since(Instant::now()) + Duration::from_micros(200);
                    match &l {
                        L::Tcp(l) => match compio_runtime::time::timeout(left, l.accept()).await {
                            Ok(Ok((s, _))) => identify_tcp!(s),
                            _ => break,
                        },
                        L::Unix(l) => match compio_runtime::time::timeout(left, l.accept()).await {
                            Ok(Ok((s, _))) => identify!(s),
                            _ => break,
                        },
                    }
                }
                let mut want = connected.borrow().clone();
                want.sort();
                let mut got = seen.clone();
                got.sort();
                if got != want {
                    errs.push("accept-exactly-once", format!("clients {want:?} connected; the acceptor got connections of {seen:?} (each must appear exactly once)"));
                }
                keep.borrow_mut().clear();
            });
        }
    })?;
    errs.first()?;
    check!(end.open_rings == 0, "ring-leak", "{} rings still open", end.open_rings);
    Ok(())
}
