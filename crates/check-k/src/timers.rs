//! C09 — timers on the simulated clock: never early, always fire, idle sleep bounded by the nearest
//! deadline, timeout() picks the right side, dropped timers leave nothing behind, interval alignment.

use std::{
    cell::RefCell,
    rc::Rc,
    time::{Duration, Instant},
};

use compio_driver::ProactorBuilder;
use compio_runtime::time::{interval, sleep, sleep_until, timeout};
use simcore::{self as sim, RunResult, check, worker::Scenario};

use crate::kutil::*;

pub fn scenarios() -> Vec<Scenario> {
    vec![Scenario {
        name: "timers",
        property: "C09",
        engine: "K",
        run: timers,
        weight: 1,
    }]
}

#[derive(Clone, Debug)]
enum T {
    Sleep(Duration),
    /// deadline = start - d (already past when created)
    SleepUntilPast(Duration),
    Timeout { outer: Duration, inner: Duration },
    /// create a sleep, poll it once, wait `hold`, drop it unfinished
    DroppedSleep { d: Duration, hold: Duration },
    Interval { period: Duration, ticks: u32 },
    /// a sleep (or a timeout around a future that never finishes) polled once in the task that created it
    /// and then awaited by another task: the timer has to wake the waker it was given last
    MovedSleep { d: Duration, in_timeout: bool },
    /// an interval whose first tick lies `ahead` in the future; the first `tick()` is given up after
    /// `give_up` (before the start), the next one is awaited: it completes at the start, not before
    IntervalAt { ahead: Duration, period: Duration, give_up: Duration },
    /// a pipe round trip in the middle, so timer expiry interleaves with I/O completions
    IoThenSleep(Duration),
    /// the thread is kept busy (no await) for `d` once `after` has passed: deadlines expire while
    /// the loop is not planning its next wait
    Busy { after: Duration, d: Duration },
    /// timeout around a pipe read whose data arrives at `data_at`
    TimeoutIo { outer: Duration, data_at: Duration },
    /// sleep until one of a few instants shared by all tasks of the run (exactly equal deadlines),
    /// created after `after`; if `hold` is set the sleep is polled once, kept that long and dropped
    Shared { slot: u32, after: Duration, hold: Option<Duration> },
}

fn dur() -> Duration {
    match sim::choose("dur.class", 9) {
        0 => Duration::ZERO,
        1 => Duration::from_nanos(1),
        2 => Duration::from_nanos(999),
        3 => Duration::from_micros(1 + sim::range("dur.us", 0, 50)),
        4 => Duration::from_millis(1 + sim::range("dur.ms", 0, 20)),
        5 => Duration::from_millis(5),
        6 => Duration::from_secs(1 + sim::range("dur.s", 0, 100)),
        7 => Duration::from_secs(3600 * (1 + sim::range("dur.h", 0, 30))),
        _ => Duration::from_millis(5) + Duration::from_nanos(sim::range("dur.off", 0, 2)),
    }
}

fn gen_prog() -> Vec<T> {
    let n = 1 + sim::range("timers", 0, 5) as usize;
    (0..n)
        .map(|_| match sim::choose("timer.kind", 12) {
            0 => T::Sleep(dur()),
            1 => T::SleepUntilPast(dur()),
            2 => T::Timeout { outer: dur(), inner: dur() },
            3 => T::DroppedSleep { d: dur(), hold: dur() },
            4 => T::Interval { period: dur().max(Duration::from_nanos(1)), ticks: 1 + sim::range("ticks", 0, 3) as u32 },
            5 => T::IoThenSleep(dur()),
            6 => T::Busy { after: dur(), d: dur() },
            7 => T::TimeoutIo { outer: dur(), data_at: dur() },
            8 => T::MovedSleep { d: dur(), in_timeout: sim::flip("moved.in.timeout", 1, 2) },
            9 => {
                let ahead = dur().max(Duration::from_micros(2));
                T::IntervalAt { ahead, period: dur().max(Duration::from_nanos(1)), give_up: ahead / (2 + sim::range("interval.give.up", 0, 8) as u32) }
            }
            _ => T::Shared {
                slot: sim::range("shared.slot", 0, 1) as u32,
                after: [Duration::ZERO, Duration::from_micros(3), Duration::from_micros(400)][sim::choose("shared.after", 3)],
                hold: if sim::flip("shared.dropped", 1, 2) { Some([Duration::ZERO, Duration::from_micros(5), Duration::from_micros(700)][sim::choose("shared.hold", 3)]) } else { None },
            },
        })
        .collect()
}

/// How late a timer may be observed: the loop needs a few enters (1 µs each) to notice and poll.
const SLACK: Duration = Duration::from_micros(200);

fn timers() -> RunResult {
    let mut cfg = simkernel::KConfig::draw();
    // time-related faults matter here; partial submits etc. stay on as drawn
    cfg.tick_ns = 1_000;
    let prog = gen_prog();
    sim::log(|| format!("{prog:?}"));
    let errs = Errs::default();
    let leftover: Rc<RefCell<Option<Option<Duration>>>> = Rc::default();
    BUSY.with(|b| b.borrow_mut().clear());
    let end = run_on_kernel(cfg, {
        let (errs, prog, leftover) = (errs.clone(), prog.clone(), leftover.clone());
        move || {
            let mut pb = ProactorBuilder::new();
            pb.capacity(8);
            draw_driver(&mut pb);
            let rt = compio_runtime::Runtime::builder().with_proactor(pb).build().expect("runtime");
            rt.block_on(async {
                let base = Instant::now();
                let mut tasks = Vec::new();
                for (i, t) in prog.iter().cloned().enumerate() {
                    let errs = errs.clone();
                    tasks.push(compio_runtime::spawn(async move {
                        match t {
                            T::Sleep(d) => {
                                let start = Instant::now();
                                sleep(d).await;
                                judge(&errs, i, "sleep", start + d, Instant::now());
                            }
                            T::SleepUntilPast(d) => {
                                let start = Instant::now();
                                let deadline = start.checked_sub(d).unwrap_or(start);
                                sleep_until(deadline).await;
                                let now = Instant::now();
                                if now.duration_since(start) > SLACK + busy_after(start, now) {
                                    errs.push("late", format!("timer {i}: sleep_until(a past instant) took {:?}", now.duration_since(start)));
                                }
                            }
                            T::Timeout { outer, inner } => {
                                let start = Instant::now();
                                let r = timeout(outer, sleep(inner)).await;
                                let now = Instant::now();
                                match r {
                                    Ok(()) => {
                                        if inner > outer + SLACK && !busy_spans(start + outer + SLACK, start + inner) {
                                            errs.push("timeout-side", format!("timer {i}: timeout({outer:?}) around sleep({inner:?}) returned the inner result"));
                                        }
                                        judge(&errs, i, "timeout(inner)", start + inner, now);
                                    }
                                    Err(_) => {
                                        if outer > inner + SLACK {
                                            errs.push("timeout-side", format!("timer {i}: timeout({outer:?}) around sleep({inner:?}) reported Elapsed"));
                                        }
                                        judge(&errs, i, "timeout(elapsed)", start + outer, now);
                                    }
                                }
                            }
                            T::DroppedSleep { d, hold } => {
                                let mut s = std::pin::pin!(sleep(d));
                                let _ = futures_util::poll!(s.as_mut());
                                sleep(hold).await;
                                // dropped here, finished or not
                            }
                            T::MovedSleep { d, in_timeout } => {
                                let start = Instant::now();
                                let errs2 = errs.clone();
                                if in_timeout {
                                    let mut t = Box::pin(timeout(d, std::future::pending::<()>()));
                                    let _ = futures_util::poll!(t.as_mut());
                                    let other = compio_runtime::spawn(async move {
                                        let r = t.await;
                                        if r.is_ok() {
                                            errs2.push("timeout-side", format!("timer {i}: a timeout around a future that never finishes returned its result"));
                                        }
                                        judge(&errs2, i, "timeout polled here, awaited there", start + d, Instant::now());
                                    });
                                    let _ = other.await;
                                } else {
                                    let mut s = Box::pin(sleep(d));
                                    let _ = futures_util::poll!(s.as_mut());
                                    let other = compio_runtime::spawn(async move {
                                        s.await;
                                        judge(&errs2, i, "sleep polled here, awaited there", start + d, Instant::now());
                                    });
                                    let _ = other.await;
                                }
                            }
                            T::IntervalAt { ahead, period, give_up } => {
                                let begin = Instant::now();
                                let start = begin + ahead;
                                let mut iv = compio_runtime::time::interval_at(start, period);
                                // the first tick is abandoned before the interval has started
                                let abandoned = timeout(give_up, iv.tick()).await;
                                if abandoned.is_ok() && Instant::now() + SLACK < start && !busy_spans(begin, start) {
                                    errs.push("early", format!("timer {i}: the first tick of an interval starting {ahead:?} ahead completed {:?} after its creation", begin.elapsed()));
                                }
                                if abandoned.is_err() {
                                    let at = iv.tick().await;
                                    let now = Instant::now();
                                    // the first tick an interval delivers is its start (or, for a late caller, a later multiple)
                                    let since = at.saturating_duration_since(start).as_nanos();
                                    if at + SLACK < start || now + SLACK < start {
                                        errs.push("early", format!("timer {i}: interval starting {ahead:?} after its creation: the tick after an abandoned first one completed {:?} after creation and reports {:?} before the start", now.duration_since(begin), start.saturating_duration_since(at)));
                                    } else if since % period.as_nanos() > SLACK.as_nanos() && period.as_nanos() - since % period.as_nanos() > SLACK.as_nanos() {
                                        errs.push("interval-drift", format!("timer {i}: interval_at tick reported {since} ns after the start, not a multiple of {period:?}"));
                                    }
                                    if now.saturating_duration_since(at) > SLACK + busy_after(at, now) {
                                        errs.push("late", format!("timer {i}: interval_at tick observed {:?} after its instant", now.saturating_duration_since(at)));
                                    }
                                }
                            }
                            T::Interval { period, ticks } => {
                                let start = Instant::now();
                                let mut iv = interval(period);
                                for k in 0..ticks {
                                    let called = Instant::now();
                                    let at = iv.tick().await;
                                    let now = Instant::now();
                                    sim::log(|| format!("timer {i}: tick {k} called at +{:?}, reports +{:?}, observed at +{:?}", called.duration_since(start), at.saturating_duration_since(start), now.duration_since(start)));
                                    // first tick is immediate, then on start + m * period with m >= k (ticks the
                                    // thread was too late for are skipped, never shifted)
                                    let want = start + period * k;
                                    if at < want.checked_sub(SLACK).unwrap_or(want) || now < at {
                                        errs.push("early", format!("timer {i}: interval tick {k} at {:?} after start (reported {:?}), scheduled for {:?}", now.duration_since(start), at.saturating_duration_since(start), period * k));
                                    }
                                    // the tick after a call at `called` is the next multiple of the period after it
                                    if k > 0 {
                                        let m = called.duration_since(start).as_nanos() / period.as_nanos() + 1;
                                        let expected = period.as_nanos() * m;
                                        let since = at.saturating_duration_since(start).as_nanos();
                                        if since.abs_diff(expected) > SLACK.as_nanos() {
                                            errs.push("interval-drift", format!("timer {i}: interval tick {k} requested {:?} after start reported {since} ns after start, the next multiple of {period:?} is at {expected} ns", called.duration_since(start)));
                                        }
                                    }
                                    if now.saturating_duration_since(at) > SLACK + busy_after(at, now) {
                                        errs.push("late", format!("timer {i}: interval tick {k} observed {:?} after its instant", now.saturating_duration_since(at)));
                                    }
                                }
                            }
                            T::Shared { slot, after, hold } => {
                                sleep(after).await;
                                let deadline = base + Duration::from_micros(500) * (slot + 1);
                                match hold {
                                    None => {
                                        let created = Instant::now();
                                        sleep_until(deadline).await;
                                        judge(&errs, i, "sleep_until(shared instant)", deadline.max(created), Instant::now());
                                    }
                                    Some(h) => {
                                        let mut s = std::pin::pin!(sleep_until(deadline));
                                        let _ = futures_util::poll!(s.as_mut());
                                        sleep(h).await;
                                    }
                                }
                            }
                            T::Busy { after, d } => {
                                sleep(after).await;
                                let s = Instant::now();
                                BUSY.with(|b| b.borrow_mut().push((s, d)));
                                sim::log(|| format!("timer {i}: busy for {d:?} from t={:?}", Duration::from_nanos(simkernel::now_ns())));
                                simkernel::advance(d.as_nanos() as u64);
                                sim::probe("busy-period");
                            }
                            T::TimeoutIo { outer, data_at } => {
                                use compio_io::AsyncRead;
                                if let Ok((mut rx, tx)) = compio_fs::pipe::anonymous().await {
                                    let start = Instant::now();
                                    simkernel::at(data_at, format!("writer of timer {i}'s pipe writes"), move || {
                                        use std::os::fd::AsRawFd;
                                        unsafe { libc::write(tx.as_raw_fd(), b"x".as_ptr() as *const libc::c_void, 1) };
                                        drop(tx);
                                    });
                                    sim::log(|| format!("timer {i}: timeout around read starts at t={:?}", Duration::from_nanos(simkernel::now_ns())));
                                    let r = timeout(outer, rx.read(Vec::with_capacity(4))).await;
                                    let now = Instant::now();
                                    sim::log(|| format!("timer {i}: timeout around read ends at t={:?}", Duration::from_nanos(simkernel::now_ns())));
                                    match r {
                                        Ok(compio_buf::BufResult(res, buf)) => {
                                            if !matches!(res, Ok(1)) || buf != b"x" {
                                                errs.push("timeout-side", format!("timer {i}: timeout({outer:?}) around a read returned {res:?} {buf:?}, the writer wrote one byte at {data_at:?}"));
                                            }
                                            if data_at > outer + SLACK && !busy_spans(start + outer + SLACK, start + data_at) {
                                                errs.push("timeout-side", format!("timer {i}: timeout({outer:?}) around a read whose data came at {data_at:?} returned the inner result"));
                                            }
                                            judge(&errs, i, "timeout(read)", start + data_at, now);
                                        }
                                        Err(_) => {
                                            // not if the thread was busy from around the write until past the deadline: the read had no chance to complete
                                            if outer > data_at + SLACK && !busy_spans(start + data_at + SLACK, start + outer) {
                                                errs.push("timeout-side", format!("timer {i}: timeout({outer:?}) around a read whose data came at {data_at:?} reported Elapsed"));
                                            }
                                            judge(&errs, i, "timeout(read elapsed)", start + outer, now);
                                        }
                                    }
                                }
                            }
                            T::IoThenSleep(d) => {
                                use compio_io::{AsyncReadExt, AsyncWriteExt};
                                if let Ok((mut rx, mut tx)) = compio_fs::pipe::anonymous().await {
                                    let _ = tx.write_all(vec![7u8; 9]).await;
                                    let _ = rx.read_exact(Vec::with_capacity(9)).await;
                                }
                                let start = Instant::now();
                                sleep(d).await;
                                judge(&errs, i, "sleep after I/O", start + d, Instant::now());
                            }
                        }
                    }));
                }
                for t in tasks {
                    let _ = t.await;
                }
                // every timer has fired or been dropped: nothing may be left in the wheel
                *leftover.borrow_mut() = Some(compio_runtime::Runtime::with_current(|r| r.current_timeout()));
            });
        }
    })?;
    errs.first()?;
    match *leftover.borrow() {
        Some(None) => {}
        Some(Some(d)) => simcore::violation!("timer-left-behind", "all timers fired or were dropped, but the runtime still plans to wake up in {d:?}"),
        None => simcore::violation!("not-finished", "the main future did not run to its end"),
    }
    check!(end.open_rings == 0, "ring-leak", "{} rings still open", end.open_rings);
    Ok(())
}

thread_local! {
    /// busy periods of this run: (start, length)
    static BUSY: RefCell<Vec<(Instant, Duration)>> = const { RefCell::new(Vec::new()) };
}

/// Whether one busy period began by `from` and lasted until `to` (less the slack): both instants passed while no task could be polled.
fn busy_spans(from: Instant, to: Instant) -> bool {
    // back-to-back periods (no loop turn with a chance to complete anything in between) count as one
    let mut v: Vec<(Instant, Instant)> = BUSY.with(|b| b.borrow().iter().map(|(s, d)| (*s, *s + *d)).collect());
    v.sort();
    let mut merged: Vec<(Instant, Instant)> = Vec::new();
    for (s, e) in v {
        match merged.last_mut() {
            Some(last) if s <= last.1 + SLACK => last.1 = last.1.max(e),
            _ => merged.push((s, e)),
        }
    }
    merged.iter().any(|(s, e)| *s <= from && *e + SLACK >= to)
}

/// Busy time that delayed the observation of `deadline` (periods that ended after it, started by `now`).
fn busy_after(deadline: Instant, now: Instant) -> Duration {
    BUSY.with(|b| b.borrow().iter().filter(|(s, d)| *s + *d > deadline && *s <= now).map(|(_, d)| *d + SLACK).sum())
}

fn judge(errs: &Errs, i: usize, what: &str, deadline: Instant, now: Instant) {
    if now < deadline {
        errs.push("early", format!("timer {i}: {what} completed {:?} before its deadline", deadline.duration_since(now)));
    } else if now.duration_since(deadline) > SLACK + busy_after(deadline, now) {
        errs.push("late", format!("timer {i}: {what} completed {:?} after its deadline (slack {SLACK:?})", now.duration_since(deadline)));
    }
}
