//! C09 — timers on the simulated clock: never early, always fire, idle sleep bounded by the nearest
//! deadline, timeout() picks the right side, dropped timers leave nothing behind, interval alignment.

use std::{
    cell::RefCell,
    rc::Rc,
    time::{Duration, Instant},
};

use compio_driver::ProactorBuilder;
use compio_runtime::time::{interval, sleep, sleep_until, timeout};
use simcore::{self as sim, RunResult, check, worker::Scenario};

use crate::kutil::*;

pub fn scenarios() -> Vec<Scenario> {
    vec![Scenario {
        name: "timers",
        property: "C09",
        engine: "K",
        run: timers,
        weight: 1,
    }]
}

#[derive(Clone, Debug)]
enum T {
    Sleep(Duration),
    /// deadline = start - d (already past when created)
    SleepUntilPast(Duration),
    Timeout { outer: Duration, inner: Duration },
    /// create a sleep, poll it once, wait `hold`, drop it unfinished
    DroppedSleep { d: Duration, hold: Duration },
    Interval { period: Duration, ticks: u32 },
    /// a pipe round trip in the middle, so timer expiry interleaves with I/O completions
    IoThenSleep(Duration),
}

fn dur() -> Duration {
    match sim::choose("dur.class", 9) {
        0 => Duration::ZERO,
        1 => Duration::from_nanos(1),
        2 => Duration::from_nanos(999),
        3 => Duration::from_micros(1 + sim::range("dur.us", 0, 50)),
        4 => Duration::from_millis(1 + sim::range("dur.ms", 0, 20)),
        5 => Duration::from_millis(5),
        6 => Duration::from_secs(1 + sim::range("dur.s", 0, 100)),
        7 => Duration::from_secs(3600 * (1 + sim::range("dur.h", 0, 30))),
        _ => Duration::from_millis(5) + Duration::from_nanos(sim::range("dur.off", 0, 2)),
    }
}

fn gen_prog() -> Vec<T> {
    let n = 1 + sim::range("timers", 0, 5) as usize;
    (0..n)
        .map(|_| match sim::choose("timer.kind", 6) {
            0 => T::Sleep(dur()),
            1 => T::SleepUntilPast(dur()),
            2 => T::Timeout { outer: dur(), inner: dur() },
            3 => T::DroppedSleep { d: dur(), hold: dur() },
            4 => T::Interval { period: dur().max(Duration::from_nanos(1)), ticks: 1 + sim::range("ticks", 0, 3) as u32 },
            _ => T::IoThenSleep(dur()),
        })
        .collect()
}

/// How late a timer may be observed: the loop needs a few enters (1 µs each) to notice and poll.
const SLACK: Duration = Duration::from_micros(200);

fn timers() -> RunResult {
    let mut cfg = simkernel::KConfig::draw();
    // time-related faults matter here; partial submits etc. stay on as drawn
    cfg.tick_ns = 1_000;
    let prog = gen_prog();
    sim::log(|| format!("{prog:?}"));
    let errs = Errs::default();
    let leftover: Rc<RefCell<Option<Option<Duration>>>> = Rc::default();
    let end = run_on_kernel(cfg, {
        let (errs, prog, leftover) = (errs.clone(), prog.clone(), leftover.clone());
        move || {
            let mut pb = ProactorBuilder::new();
            pb.capacity(8);
            let rt = compio_runtime::Runtime::builder().with_proactor(pb).build().expect("runtime");
            rt.block_on(async {
                let mut tasks = Vec::new();
                for (i, t) in prog.iter().cloned().enumerate() {
                    let errs = errs.clone();
                    tasks.push(compio_runtime::spawn(async move {
                        match t {
                            T::Sleep(d) => {
                                let start = Instant::now();
                                sleep(d).await;
                                judge(&errs, i, "sleep", start + d, Instant::now());
                            }
                            T::SleepUntilPast(d) => {
                                let start = Instant::now();
                                let deadline = start.checked_sub(d).unwrap_or(start);
                                sleep_until(deadline).await;
                                let now = Instant::now();
                                if now.duration_since(start) > SLACK {
                                    errs.push("late", format!("timer {i}: sleep_until(a past instant) took {:?}", now.duration_since(start)));
                                }
                            }
                            T::Timeout { outer, inner } => {
                                let start = Instant::now();
                                let r = timeout(outer, sleep(inner)).await;
                                let now = Instant::now();
                                match r {
                                    Ok(()) => {
                                        if inner > outer + SLACK {
                                            errs.push("timeout-side", format!("timer {i}: timeout({outer:?}) around sleep({inner:?}) returned the inner result"));
                                        }
                                        judge(&errs, i, "timeout(inner)", start + inner, now);
                                    }
                                    Err(_) => {
                                        if outer > inner + SLACK {
                                            errs.push("timeout-side", format!("timer {i}: timeout({outer:?}) around sleep({inner:?}) reported Elapsed"));
                                        }
                                        judge(&errs, i, "timeout(elapsed)", start + outer, now);
                                    }
                                }
                            }
                            T::DroppedSleep { d, hold } => {
                                let mut s = std::pin::pin!(sleep(d));
                                let _ = futures_util::poll!(s.as_mut());
                                sleep(hold).await;
                                // dropped here, finished or not
                            }
                            T::Interval { period, ticks } => {
                                let start = Instant::now();
                                let mut iv = interval(period);
                                for k in 0..ticks {
                                    let at = iv.tick().await;
                                    let now = Instant::now();
                                    // first tick is immediate, then start + k * period
                                    let want = start + period * k;
                                    if at < want.checked_sub(SLACK).unwrap_or(want) || now < want.checked_sub(SLACK).unwrap_or(want) {
                                        errs.push("early", format!("timer {i}: interval tick {k} at {:?} after start, scheduled for {:?}", now.duration_since(start), period * k));
                                    }
                                    let off = at.duration_since(start).as_nanos() as i128 - (period.as_nanos() as i128) * k as i128;
                                    if off.unsigned_abs() > SLACK.as_nanos() {
                                        errs.push("interval-drift", format!("timer {i}: interval tick {k} reported {off} ns away from start + {k} * period"));
                                    }
                                }
                            }
                            T::IoThenSleep(d) => {
                                use compio_io::{AsyncReadExt, AsyncWriteExt};
                                if let Ok((mut rx, mut tx)) = compio_fs::pipe::anonymous().await {
                                    let _ = tx.write_all(vec![7u8; 9]).await;
                                    let _ = rx.read_exact(Vec::with_capacity(9)).await;
                                }
                                let start = Instant::now();
                                sleep(d).await;
                                judge(&errs, i, "sleep after I/O", start + d, Instant::now());
                            }
                        }
                    }));
                }
                for t in tasks {
                    let _ = t.await;
                }
                // every timer has fired or been dropped: nothing may be left in the wheel
                *leftover.borrow_mut() = Some(compio_runtime::Runtime::with_current(|r| r.current_timeout()));
            });
        }
    })?;
    errs.first()?;
    match *leftover.borrow() {
        Some(None) => {}
        Some(Some(d)) => simcore::violation!("timer-left-behind", "all timers fired or were dropped, but the runtime still plans to wake up in {d:?}"),
        None => simcore::violation!("not-finished", "the main future did not run to its end"),
    }
    check!(end.open_rings == 0, "ring-leak", "{} rings still open", end.open_rings);
    Ok(())
}

fn judge(errs: &Errs, i: usize, what: &str, deadline: Instant, now: Instant) {
    if now < deadline {
        errs.push("early", format!("timer {i}: {what} completed {:?} before its deadline", deadline.duration_since(now)));
    } else if now.duration_since(deadline) > SLACK {
        errs.push("late", format!("timer {i}: {what} completed {:?} after its deadline (slack {SLACK:?})", now.duration_since(deadline)));
    }
}
