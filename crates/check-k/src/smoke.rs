//! First light: runtime creation, timer, pipe I/O and a blocking job on the simulated kernel.

use std::time::Duration;

use compio_io::{AsyncReadExt, AsyncWriteExt};
use simcore::{self as sim, RunResult, check, worker::Scenario};

pub fn scenarios() -> Vec<Scenario> {
    vec![Scenario {
        name: "smoke",
        property: "K00",
        engine: "K",
        run: smoke,
        weight: 1,
    }]
}

fn smoke() -> RunResult {
    simkernel::begin(simkernel::KConfig::draw());
    let r = std::panic::catch_unwind(|| {
        let rt = compio_runtime::Runtime::new().expect("runtime");
        rt.block_on(async {
            let t0 = std::time::Instant::now();
            compio_runtime::time::sleep(Duration::from_secs(3600)).await;
            let waited = t0.elapsed();
            assert!(waited >= Duration::from_secs(3600), "timer fired after {waited:?}");
            let (mut rx, mut tx) = compio_fs::pipe::anonymous().await.expect("pipe");
            let w = compio_runtime::spawn(async move {
                tx.write_all(b"hello kernel".to_vec()).await.0.expect("write");
            });
            let (_, buf) = rx.read_exact(Vec::with_capacity(12)).await.unwrap();
            assert_eq!(buf, b"hello kernel");
            w.await.unwrap();
            let v = compio_runtime::spawn_blocking(|| 41 + 1).await.unwrap();
            assert_eq!(v, 42);
        });
    });
    let end = simkernel::end();
    sim::log(|| format!("enters {} sqes {} cqes {} pool jobs {} clock jumps {}; pending at end {:?}", end.stats.enters, end.stats.sqes, end.stats.cqes, end.stats.pool_jobs, end.stats.clock_jumps, end.pending_ops));
    sim::pending()?;
    if let Err(p) = r {
        std::panic::resume_unwind(p);
    }
    check!(end.open_rings == 0, "ring-leak", "{} rings still open after the runtime was dropped", end.open_rings);
    Ok(())
}
