//! C19 — actors: serial FIFO handling, ordered lifecycle, unique names.
//!
//! Engine M: the real compio-actor on the real compio-dispatcher (1..2 worker threads, each a real thread
//! with its own runtime on its own simulated kernel); the main task and up to two client threads send,
//! call, stop and look up concurrently; which thread runs at any time is the simulator's decision.
//! 1..3 actors (named or not, mailbox capacities 1..3 or the default, one of them possibly failing in
//! `pre_start`) record their hooks and every handled message; handlers may yield or sleep, fail, stop
//! their own actor, reply to a call or drop it.
//!
//! Oracles, per actor: hooks in the documented order, each once, handlers only between `post_start` and
//! `pre_stop` (`lifecycle`); never two handlers at once (`overlap`); no message handled twice
//! (`handled-twice`) or handled although its sender was told it was not accepted (`handled-but-rejected`);
//! per sender the handled messages are a gap-free prefix of the accepted ones, in order (`fifo`); when the
//! actor was neither stopped nor failed, all accepted messages are handled (`lost-message`); a call returns
//! the handler's reply or an explicit error within a bound (`call-hangs`, `wrong-reply`); the exit is
//! `Failed` with the first failing handler's error, else `Stopped`, and arrives (`exit`, `handle-hangs`);
//! a name resolves to the live actor only, refuses a second spawn while alive and is free again after
//! exit or failed start (`name`).

use std::{
    num::NonZeroUsize,
    sync::{
        Arc, Mutex,
        atomic::{AtomicBool, Ordering::SeqCst},
    },
    time::Duration,
};

use compio_actor::{
    Actor, ActorExit, Call, Cluster, Handler, Mailbox,
    cluster::SpawnError,
    mailbox::{CallError, DeliverError},
    process_group::{Membership, ProcessGroup},
    supervisor::SupervisionEvent,
};
use compio_driver::ProactorBuilder;
use simcore::{self as sim, RunResult, check, worker::Scenario};

use crate::{
    dispatcher::{SharedErrs, YieldNow},
    kutil::*,
};

pub fn scenarios() -> Vec<Scenario> {
    vec![
        Scenario {
            name: "actors",
            property: "C19",
            engine: "M",
            run: actors,
            weight: 2,
        },
        Scenario {
            name: "groups",
            property: "C19",
            engine: "M",
            run: groups,
            weight: 1,
        },
    ]
}

#[derive(Clone, Copy, Debug, PartialEq)]
enum Ev {
    PreStart,
    PostStart,
    Handle(u32),
    PreStop,
    PostStop,
}

#[derive(Default)]
struct Rec {
    events: Mutex<Vec<Ev>>,
    busy: AtomicBool,
}

#[derive(Clone, Copy, Debug)]
enum Work {
    None,
    Yield,
    Sleep(u64),
}

struct Worker {
    slot: usize,
    rec: Arc<Rec>,
    errs: SharedErrs,
    fail_start: bool,
    fail_pre_stop: bool,
    /// post_start: 0 plain, 1 fails, 2 takes a few turns of the loop
    post_start: u8,
}

#[derive(Debug)]
struct Msg(u32, Work);
#[derive(Debug)]
struct Fail(u32);
#[derive(Debug)]
struct StopSelf(u32);
#[derive(Debug)]
struct Ask(u32);
#[derive(Debug)]
struct Mute(u32);

impl Worker {
    /// Start of a handler: never two at once; the message is recorded.
    fn enter(&self, id: u32) {
        if self.rec.busy.swap(true, SeqCst) {
            self.errs.push("overlap", format!("actor {}: the handler of message {id} started while another handler of the same actor was still running", self.slot));
        }
        self.rec.events.lock().unwrap().push(Ev::Handle(id));
    }

    fn leave(&self) {
        self.rec.busy.store(false, SeqCst);
    }
}

impl Actor for Worker {
    type Arguments = ();
    type Error = String;
    type State = ();

    async fn pre_start(&self, _myself: &Mailbox<Self>, (): ()) -> Result<(), String> {
        self.rec.events.lock().unwrap().push(Ev::PreStart);
        YieldNow(false).await;
        if self.fail_start { Err("start refused".to_string()) } else { Ok(()) }
    }

    async fn post_start(&self, _myself: &Mailbox<Self>, _state: &mut ()) -> Result<(), String> {
        self.rec.events.lock().unwrap().push(Ev::PostStart);
        match self.post_start {
            1 => Err("post-start failed".to_string()),
            2 => {
                for _ in 0..3 {
                    YieldNow(false).await;
                }
                Ok(())
            }
            _ => Ok(()),
        }
    }

    async fn pre_stop(&self, _myself: &Mailbox<Self>, _state: &mut ()) -> Result<(), String> {
        self.rec.events.lock().unwrap().push(Ev::PreStop);
        if self.fail_pre_stop { Err("pre-stop failed".to_string()) } else { Ok(()) }
    }

    async fn post_stop(&self, _myself: &Mailbox<Self>, _state: &mut ()) -> Result<(), String> {
        self.rec.events.lock().unwrap().push(Ev::PostStop);
        Ok(())
    }
}

impl Handler<Msg> for Worker {
    async fn handle(&self, _myself: &Mailbox<Self>, Msg(id, work): Msg, _state: &mut ()) -> Result<(), String> {
        self.enter(id);
        match work {
            Work::None => {}
            Work::Yield => YieldNow(false).await,
            Work::Sleep(us) => compio_runtime::time::sleep(Duration::from_micros(us)).await,
        }
        self.leave();
        Ok(())
    }
}

impl Handler<Fail> for Worker {
    async fn handle(&self, _myself: &Mailbox<Self>, Fail(id): Fail, _state: &mut ()) -> Result<(), String> {
        self.enter(id);
        self.leave();
        Err(format!("failed at {id}"))
    }
}

impl Handler<StopSelf> for Worker {
    async fn handle(&self, myself: &Mailbox<Self>, StopSelf(id): StopSelf, _state: &mut ()) -> Result<(), String> {
        self.enter(id);
        myself.stop();
        self.leave();
        Ok(())
    }
}

impl Handler<Call<Ask, u64>> for Worker {
    async fn handle(&self, _myself: &Mailbox<Self>, call: Call<Ask, u64>, _state: &mut ()) -> Result<(), String> {
        let id = call.message().0;
        self.enter(id);
        YieldNow(false).await;
        call.reply(id as u64 * 3).ok();
        self.leave();
        Ok(())
    }
}

impl Handler<Call<Mute, u64>> for Worker {
    async fn handle(&self, _myself: &Mailbox<Self>, call: Call<Mute, u64>, _state: &mut ()) -> Result<(), String> {
        self.enter(call.message().0);
        self.leave();
        Ok(())
    }
}

#[derive(Clone, Copy, Debug)]
enum Op {
    Send(Work),
    SendFail,
    SendStopSelf,
    Stop,
    Ask,
    Mute,
    Lookup,
}

#[derive(Clone, Copy, Debug, PartialEq)]
enum Outcome {
    Accepted,
    Full,
    Closed,
    /// `stop()` returned this
    Stopped(bool),
    Reply(u64),
    NoReply,
    Hung,
    Found(bool),
}

#[derive(Clone, Debug)]
struct Step {
    id: u32,
    client: usize,
    actor: usize,
    op: Op,
}

#[derive(Clone, Debug)]
struct Plan {
    name: Option<String>,
    capacity: Option<usize>,
    fail_start: bool,
    fail_pre_stop: bool,
    /// a second spawn under the same name is issued while the first is still starting
    dup_race: bool,
}

const BARRIER: u32 = 9_000;
const CALL_BOUND: Duration = Duration::from_secs(5);

fn deliver<M: Send + 'static>(r: Result<(), DeliverError<M>>) -> Outcome {
    match r {
        Ok(()) => Outcome::Accepted,
        Err(DeliverError::Full(_)) => Outcome::Full,
        Err(DeliverError::Closed(_)) => Outcome::Closed,
    }
}

/// The operations a client thread can do (everything that does not need a runtime).
fn sync_op(step: &Step, mailbox: &Mailbox<Worker>, cluster: &Cluster, name: &Option<String>) -> Outcome {
    match step.op {
        Op::Send(w) => deliver(mailbox.send(Msg(step.id, w))),
        Op::SendFail => deliver(mailbox.send(Fail(step.id))),
        Op::SendStopSelf => deliver(mailbox.send(StopSelf(step.id))),
        Op::Stop => Outcome::Stopped(mailbox.stop()),
        Op::Lookup => Outcome::Found(name.as_ref().map(|n| cluster.lookup::<Worker, _>(n.clone()).is_some()).unwrap_or(false)),
        Op::Ask | Op::Mute => unreachable!("calls are made by the main task"),
    }
}

fn actors() -> RunResult {
    let mut cfg = simkernel::KConfig::draw();
    cfg.unsupported.clear();
    let workers = 1 + sim::choose("workers", 2);
    let plans: Vec<Plan> = (0..1 + sim::choose("actors", 3))
        .map(|a| Plan {
            name: sim::flip("actor.named", 1, 2).then(|| format!("actor-{a}")),
            capacity: [None, Some(1), Some(2), Some(3)][sim::choose("actor.capacity", 4)],
            fail_start: a > 0 && sim::flip("actor.fails.to.start", 1, 6),
            fail_pre_stop: sim::flip("actor.fails.in.pre_stop", 1, 5),
            dup_race: sim::flip("actor.duplicate.spawn.races", 1, 2),
        })
        .collect();
    let clients = sim::choose("client.threads", 3);
    let steps: Vec<Step> = (0..sim::range("steps", 0, 12) as u32)
        .map(|id| {
            let client = sim::choose("step.client", clients + 1);
            let op = match sim::weighted("step.op", &[8, 1, 1, 1, 3, 1, 1]) {
                0 => Op::Send([Work::None, Work::Yield, Work::Sleep(30)][sim::choose("step.work", 3)]),
                1 => Op::SendFail,
                2 => Op::SendStopSelf,
                3 => Op::Stop,
                4 if client == 0 => Op::Ask,
                5 if client == 0 => Op::Mute,
                6 => Op::Lookup,
                _ => Op::Send(Work::None),
            };
            Step { id, client, actor: sim::choose("step.actor", plans.len()), op }
        })
        .collect();
    let capacity = 1u32 << sim::range("ring.capacity.log2", 1, 5);
    sim::log(|| format!("{workers} workers, {clients} client threads, ring capacity {capacity}; actors {plans:?}; {cfg:?}"));
    sim::log(|| format!("steps {steps:?}"));

    let errs = SharedErrs::default();
    let recs: Vec<Arc<Rec>> = plans.iter().map(|_| Arc::new(Rec::default())).collect();

    let (end, multi) = run_on_kernel_multi(cfg, {
        let (errs, recs, plans, steps) = (errs.clone(), recs.clone(), plans.clone(), steps.clone());
        move || {
            let mut pb = ProactorBuilder::new();
            pb.capacity(capacity);
            draw_driver(&mut pb);
            let rt = compio_runtime::Runtime::builder().with_proactor(pb.clone()).build().expect("runtime");
            rt.block_on(async {
                let dispatcher = compio_dispatcher::Dispatcher::builder().worker_threads(NonZeroUsize::new(workers).unwrap()).proactor_builder(pb.clone()).build().expect("dispatcher");
                let cluster = Cluster::from_dispatcher(dispatcher);
                let spawn = |a: usize, second: bool| {
                    let (rec, errs, plan) = (if second { Arc::new(Rec::default()) } else { recs[a].clone() }, errs.clone(), plans[a].clone());
                    let fail_start = plan.fail_start && !second;
                    let fail_pre_stop = plan.fail_pre_stop && !second;
                    let mut s = cluster.spawn(move || Worker { slot: a, rec, errs, fail_start, fail_pre_stop, post_start: 0 }, ());
                    if let Some(n) = &plan.name {
                        s = s.with_name(n.clone());
                    }
                    if let Some(c) = plan.capacity {
                        s = s.with_capacity(NonZeroUsize::new(c).unwrap());
                    }
                    s
                };
                // ---- start the actors
                let mut mailboxes: Vec<Option<Mailbox<Worker>>> = Vec::new();
                let mut handles = Vec::new();
                for (a, plan) in plans.iter().enumerate() {
                    let first = spawn(a, false).into_future();
                    if let (Some(n), true) = (&plan.name, plan.dup_race) {
                        // the name is reserved from now on, although the actor has not started yet
                        match compio_runtime::time::timeout(CALL_BOUND, spawn(a, true).into_future()).await {
                            Ok(Err(SpawnError::NameTaken(_))) => {}
                            Ok(Ok((m2, _))) => {
                                m2.stop();
                                errs.push("name", format!("a second actor was spawned under the name {n:?} while the spawn of actor {a} under that name was under way"));
                            }
                            Ok(Err(e)) => errs.push("name", format!("a second spawn under the name {n:?}, reserved by a spawn under way, failed with {e:?} instead of NameTaken")),
                            Err(_) => errs.push("spawn-hangs", format!("a second spawn under the reserved name {n:?} did not return")),
                        }
                        if cluster.lookup::<Worker, _>(n.clone()).is_some() && recs[a].events.lock().unwrap().is_empty() {
                            errs.push("name", format!("the name {n:?} resolves although the actor spawned under it has not run pre_start yet"));
                        }
                    }
                    match compio_runtime::time::timeout(CALL_BOUND, first).await {
                        Ok(Ok((m, h))) => {
                            if plan.fail_start {
                                errs.push("lifecycle", format!("actor {a}: pre_start failed, the spawn succeeded nevertheless"));
                            }
                            if m.name() != plan.name.as_deref() {
                                errs.push("name", format!("actor {a}: spawned as {:?}, its mailbox says {:?}", plan.name, m.name()));
                            }
                            if let Some(n) = &plan.name {
                                if cluster.lookup::<Worker, _>(n.clone()).is_none() {
                                    errs.push("name", format!("actor {a} has started as {n:?}, a lookup of that name finds nothing"));
                                }
                                // while it lives, nobody else gets the name
                                match compio_runtime::time::timeout(CALL_BOUND, spawn(a, true).into_future()).await {
                                    Ok(Err(SpawnError::NameTaken(_))) => {}
                                    Ok(Ok((m2, _))) => {
                                        m2.stop();
                                        errs.push("name", format!("a second actor was spawned under the name {n:?} while actor {a} was alive"));
                                    }
                                    Ok(Err(e)) => errs.push("name", format!("a second spawn under the taken name {n:?} failed with {e:?} instead of NameTaken")),
                                    Err(_) => errs.push("spawn-hangs", format!("a second spawn under the taken name {n:?} did not return")),
                                }
                            }
                            mailboxes.push(Some(m));
                            handles.push(Some(h));
                        }
                        Ok(Err(SpawnError::Start(e))) if plan.fail_start && e == "start refused" => {
                            if let Some(n) = &plan.name {
                                if cluster.lookup::<Worker, _>(n.clone()).is_some() {
                                    errs.push("name", format!("actor {a} failed to start, its name {n:?} still resolves"));
                                }
                            }
                            mailboxes.push(None);
                            handles.push(None);
                        }
                        Ok(Err(e)) => {
                            errs.push("spawn", format!("spawning actor {a} failed: {e:?}"));
                            mailboxes.push(None);
                            handles.push(None);
                        }
                        Err(_) => {
                            errs.push("spawn-hangs", format!("spawning actor {a} did not return within {CALL_BOUND:?} of simulated time"));
                            mailboxes.push(None);
                            handles.push(None);
                        }
                    }
                }
                // ---- the program: client threads and the main task
                let names: Vec<Option<String>> = plans.iter().map(|p| p.name.clone()).collect();
                let threads: Vec<std::thread::JoinHandle<Vec<(u32, Outcome)>>> = (1..=clients)
                    .map(|c| {
                        let mine: Vec<Step> = steps.iter().filter(|s| s.client == c).cloned().collect();
                        let (mailboxes, cluster, names) = (mailboxes.clone(), cluster.clone(), names.clone());
                        std::thread::spawn(move || mine.iter().filter_map(|s| mailboxes[s.actor].as_ref().map(|m| (s.id, sync_op(s, m, &cluster, &names[s.actor])))).collect())
                    })
                    .collect();
                let mut outcomes: Vec<(u32, Outcome)> = Vec::new();
                for s in steps.iter().filter(|s| s.client == 0) {
                    let Some(m) = mailboxes[s.actor].as_ref() else { continue };
                    let o = match s.op {
                        Op::Ask => match compio_runtime::time::timeout(CALL_BOUND, m.call(Ask(s.id))).await {
                            Ok(Ok(v)) => Outcome::Reply(v),
                            Ok(Err(CallError::NoReply)) => Outcome::NoReply,
                            Ok(Err(CallError::Closed(_))) => Outcome::Closed,
                            Ok(Err(CallError::Full(_))) => Outcome::Full,
                            Err(_) => Outcome::Hung,
                        },
                        Op::Mute => match compio_runtime::time::timeout(CALL_BOUND, m.call(Mute(s.id))).await {
                            Ok(Ok(v)) => Outcome::Reply(v),
                            Ok(Err(CallError::NoReply)) => Outcome::NoReply,
                            Ok(Err(CallError::Closed(_))) => Outcome::Closed,
                            Ok(Err(CallError::Full(_))) => Outcome::Full,
                            Err(_) => Outcome::Hung,
                        },
                        _ => sync_op(s, m, &cluster, &names[s.actor]),
                    };
                    outcomes.push((s.id, o));
                }
                for t in threads {
                    match t.join() {
                        Ok(o) => outcomes.extend(o),
                        Err(_) => errs.push("panic", "a client thread panicked".to_string()),
                    }
                }
                sim::log(|| format!("outcomes {outcomes:?}"));
                let outcome = |id: u32| outcomes.iter().find(|(i, _)| *i == id).map(|(_, o)| *o);

                // ---- wind down: an actor nobody stopped handles everything it accepted, then is stopped
                for (a, m) in mailboxes.iter().enumerate() {
                    let Some(m) = m else { continue };
                    let mine = || steps.iter().filter(move |s| s.actor == a);
                    let ends_by_itself = mine().any(|s| match s.op {
                        Op::Stop => outcome(s.id) == Some(Outcome::Stopped(true)),
                        Op::SendFail | Op::SendStopSelf => outcome(s.id) == Some(Outcome::Accepted),
                        _ => false,
                    });
                    let mut barrier_passed = false;
                    if !ends_by_itself {
                        // (a full mailbox empties: the handlers terminate)
                        for _ in 0..200 {
                            match compio_runtime::time::timeout(CALL_BOUND, m.call(Ask(BARRIER + a as u32))).await {
                                Ok(Ok(_)) => {
                                    barrier_passed = true;
                                    break;
                                }
                                Ok(Err(CallError::Full(_))) => compio_runtime::time::sleep(Duration::from_micros(100)).await,
                                Ok(Err(e)) => {
                                    errs.push("lost-message", format!("actor {a} was neither stopped nor failed, a call to it ends with {e:?}"));
                                    break;
                                }
                                Err(_) => {
                                    errs.push("call-hangs", format!("actor {a} was neither stopped nor failed, a call to it did not return within {CALL_BOUND:?}"));
                                    break;
                                }
                            }
                        }
                        m.stop();
                    }
                    // ---- its exit
                    let exit = match handles[a].take() {
                        Some(h) => match compio_runtime::time::timeout(CALL_BOUND, h).await {
                            Ok(Ok(e)) => Some(e),
                            Ok(Err(_)) => {
                                errs.push("exit", format!("actor {a}: the handle reports that the worker stopped before the actor exited"));
                                None
                            }
                            Err(_) => {
                                errs.push("handle-hangs", format!("actor {a} was stopped (or failed); its handle did not resolve within {CALL_BOUND:?}"));
                                None
                            }
                        },
                        None => None,
                    };
                    let ev = recs[a].events.lock().unwrap().clone();
                    sim::log(|| format!("actor {a}: exit {exit:?}, events {ev:?}"));
                    // lifecycle grammar
                    let handled: Vec<u32> = ev.iter().filter_map(|e| if let Ev::Handle(i) = e { Some(*i) } else { None }).collect();
                    let shape: Vec<Ev> = ev.iter().filter(|e| !matches!(e, Ev::Handle(_))).copied().collect();
                    if exit.is_some() && shape != [Ev::PreStart, Ev::PostStart, Ev::PreStop, Ev::PostStop] {
                        errs.push("lifecycle", format!("actor {a} has exited; its hooks ran as {shape:?}"));
                    }
                    let first_handle = ev.iter().position(|e| matches!(e, Ev::Handle(_)));
                    let last_handle = ev.iter().rposition(|e| matches!(e, Ev::Handle(_)));
                    if let (Some(f), Some(l)) = (first_handle, last_handle) {
                        let started = ev.iter().position(|e| *e == Ev::PostStart);
                        let stopping = ev.iter().position(|e| *e == Ev::PreStop);
                        if started.map(|s| f < s).unwrap_or(true) || stopping.map(|s| l > s).unwrap_or(false) {
                            errs.push("lifecycle", format!("actor {a}: a message was handled before post_start or after pre_stop: {ev:?}"));
                        }
                    }
                    // at most once, only accepted ones
                    for (i, id) in handled.iter().enumerate() {
                        if handled[..i].contains(id) {
                            errs.push("handled-twice", format!("actor {a} handled message {id} twice: {handled:?}"));
                        }
                        if *id >= BARRIER {
                            continue;
                        }
                        match outcome(*id) {
                            Some(Outcome::Full) | Some(Outcome::Closed) => errs.push("handled-but-rejected", format!("actor {a} handled message {id}, whose sender was told {:?}", outcome(*id).unwrap())),
                            None => errs.push("handled-but-rejected", format!("actor {a} handled message {id}, which nobody sent to it")),
                            _ => {}
                        }
                        if steps.iter().find(|s| s.id == *id).map(|s| s.actor != a).unwrap_or(false) {
                            errs.push("handled-but-rejected", format!("actor {a} handled message {id}, which was sent to another actor"));
                        }
                    }
                    // per sender: a gap-free prefix of what was accepted, in order
                    let carries_message = |s: &&Step| matches!(s.op, Op::Send(_) | Op::SendFail | Op::SendStopSelf | Op::Ask | Op::Mute);
                    let accepted_by = |s: &Step| match s.op {
                        Op::Ask | Op::Mute => matches!(outcome(s.id), Some(Outcome::Reply(_)) | Some(Outcome::NoReply) | Some(Outcome::Hung)),
                        _ => outcome(s.id) == Some(Outcome::Accepted),
                    };
                    for c in 0..=clients {
                        let accepted: Vec<u32> = mine().filter(|s| s.client == c).filter(carries_message).filter(|s| accepted_by(s)).map(|s| s.id).collect();
                        let seen: Vec<u32> = handled.iter().copied().filter(|id| accepted.contains(id)).collect();
                        if seen[..] != accepted[..seen.len()] {
                            errs.push("fifo", format!("actor {a}: client {c} had messages {accepted:?} accepted in this order, the actor handled {seen:?} of them in this order (handled must be a prefix of accepted)"));
                        }
                        if barrier_passed && seen.len() != accepted.len() {
                            errs.push("lost-message", format!("actor {a} was neither stopped nor failed and answered a later call; of client {c}'s accepted messages {accepted:?} it handled only {seen:?}"));
                        }
                    }
                    // once stop() has returned to a client, the mailbox is closed for that client's later operations
                    for c in 0..=clients {
                        let mut stopped_at: Option<u32> = None;
                        for s in mine().filter(|s| s.client == c) {
                            match (s.op, outcome(s.id), stopped_at) {
                                (Op::Stop, Some(Outcome::Stopped(again)), Some(first)) if again => {
                                    errs.push("stop", format!("actor {a}: client {c} stopped it in step {first}; its stop() in step {} returned true again", s.id))
                                }
                                (Op::Stop, Some(Outcome::Stopped(_)), None) => stopped_at = Some(s.id),
                                (Op::Send(_) | Op::SendFail | Op::SendStopSelf, Some(Outcome::Accepted), Some(first)) => {
                                    errs.push("accepted-after-stop", format!("actor {a}: client {c} called stop() in step {first}; its message of step {} was accepted afterwards (handled: {})", s.id, handled.contains(&s.id)))
                                }
                                (Op::Ask | Op::Mute, Some(o @ (Outcome::Reply(_) | Outcome::NoReply | Outcome::Hung)), Some(first)) => {
                                    errs.push("accepted-after-stop", format!("actor {a}: the main task called stop() in step {first}; its call of step {} was accepted afterwards and ended with {o:?} instead of Closed", s.id))
                                }
                                _ => {}
                            }
                        }
                    }
                    // calls
                    for s in mine() {
                        match (s.op, outcome(s.id)) {
                            (Op::Ask, Some(Outcome::Reply(v))) if v != s.id as u64 * 3 || !handled.contains(&s.id) => {
                                errs.push("wrong-reply", format!("actor {a}: call {} returned {v} (handler replies {}; handled: {})", s.id, s.id as u64 * 3, handled.contains(&s.id)))
                            }
                            (Op::Mute, Some(Outcome::Reply(v))) => errs.push("wrong-reply", format!("actor {a}: call {} returned {v}, its handler never replies", s.id)),
                            (Op::Ask, Some(Outcome::NoReply)) if handled.contains(&s.id) => errs.push("wrong-reply", format!("actor {a}: call {} was handled and replied to, the caller got NoReply", s.id)),
                            (Op::Ask | Op::Mute, Some(Outcome::Hung)) => errs.push(
                                "call-hangs",
                                format!("actor {a}: call {} was accepted and neither a reply nor an error arrived within {CALL_BOUND:?} of simulated time (handled: {}; the actor's exit: {exit:?})", s.id, handled.contains(&s.id)),
                            ),
                            (Op::Ask | Op::Mute, Some(Outcome::Full | Outcome::Closed)) if handled.contains(&s.id) => errs.push("handled-but-rejected", format!("actor {a}: call {} was refused and handled all the same", s.id)),
                            _ => {}
                        }
                    }
                    // exit value
                    let failing = handled.iter().find(|id| steps.iter().any(|s| s.id == **id && matches!(s.op, Op::SendFail)));
                    match (&exit, failing) {
                        (Some(ActorExit::Failed(e)), Some(id)) if *e == format!("failed at {id}") => {}
                        (Some(ActorExit::Failed(e)), None) if plans[a].fail_pre_stop && e == "pre-stop failed" => {}
                        (Some(ActorExit::Stopped), None) if !plans[a].fail_pre_stop => {}
                        (None, _) => {}
                        (Some(e), f) => errs.push("exit", format!("actor {a} exited with {e:?}; the first failing handler it ran: {f:?}")),
                    }
                    // the name is free again
                    if let (Some(n), Some(_)) = (&plans[a].name, &exit) {
                        if cluster.lookup::<Worker, _>(n.clone()).is_some() {
                            errs.push("name", format!("actor {a} has exited, its name {n:?} still resolves"));
                        }
                        match compio_runtime::time::timeout(CALL_BOUND, spawn(a, true).into_future()).await {
                            Ok(Ok((m2, h2))) => {
                                m2.stop();
                                if compio_runtime::time::timeout(CALL_BOUND, h2).await.is_err() {
                                    errs.push("handle-hangs", format!("the replacement of actor {a} was stopped; its handle did not resolve"));
                                }
                            }
                            Ok(Err(e)) => errs.push("name", format!("actor {a} has exited, spawning another actor under its name {n:?} fails with {e:?}")),
                            Err(_) => errs.push("spawn-hangs", format!("spawning a replacement for actor {a} did not return")),
                        }
                    }
                }
                drop(mailboxes);
                match compio_runtime::time::timeout(Duration::from_secs(120), cluster.join()).await {
                    Ok(Ok(())) => {}
                    Ok(Err(e)) => errs.push("join-failed", format!("Cluster::join failed: {e}")),
                    Err(_) => errs.push("join-hangs", "Cluster::join did not return within 120 s of simulated time".to_string()),
                }
            });
        }
    })?;
    errs.first()?;
    check!(end.open_rings == 0 && multi.open_rings == 0, "ring-leak", "{} rings still open", end.open_rings + multi.open_rings);
    sim::log(|| format!("{} threads, {} baton hand-overs", multi.threads, multi.switches));
    Ok(())
}

// ------------------------------------------------------------------ process groups and supervision

/// Records what it is told about its children.
struct Sup {
    log: Arc<Mutex<Vec<(String, &'static str)>>>,
}

impl Actor for Sup {
    type Arguments = ();
    type Error = String;
    type State = ();

    async fn pre_start(&self, _myself: &Mailbox<Self>, (): ()) -> Result<(), String> {
        Ok(())
    }
}

impl Handler<SupervisionEvent<Worker>> for Sup {
    async fn handle(&self, _myself: &Mailbox<Self>, event: SupervisionEvent<Worker>, _state: &mut ()) -> Result<(), String> {
        let what = match &event {
            SupervisionEvent::ActorStarted(_) => "started",
            SupervisionEvent::ActorTerminated(_) => "terminated",
            SupervisionEvent::ActorFailed(_) => "failed",
        };
        self.log.lock().unwrap().push((event.actor().name().unwrap_or("?").to_string(), what));
        Ok(())
    }
}

#[derive(Clone, Copy, Debug)]
enum GOp {
    Send(Work),
    SendFailing,
    StopMember(usize),
    Leave(usize),
    /// the member joins the group once more (after it has left, or a second time)
    Rejoin(usize),
}

#[derive(Clone, Debug)]
struct GStep {
    id: u32,
    client: usize,
    op: GOp,
}

/// C19, routing and supervision: a process group over 2..3 member actors with small mailboxes; the main task
/// and client threads send through the group while members are stopped, fail or leave; a supervisor actor
/// records what it is told about the members. Oracles: a message sent through the group is handled by at
/// most one member (`group-duplicated`), by none when it was handed back (`group-returned-but-handled`), by
/// exactly one when no member was stopped, failed or left (`group-lost`), and is not refused as `Closed`
/// while an untouched member is in the group (`group-closed`); the supervisor hears of each member's start
/// once, before the one notice of its end, which matches the member's exit (`supervision`).
fn groups() -> RunResult {
    let mut cfg = simkernel::KConfig::draw();
    cfg.unsupported.clear();
    let workers = 1 + sim::choose("workers", 2);
    let members = 2 + sim::choose("members", 2);
    let caps: Vec<Option<usize>> = (0..members).map(|_| [None, Some(1), Some(2)][sim::choose("member.capacity", 3)]).collect();
    let supervised = sim::flip("supervised", 2, 3);
    // a member's post_start may fail (the supervisor then hears of a failure only) or take a few turns of the
    // loop, during which the spawner may already ask it to stop (the supervisor still hears of its start)
    let post_starts: Vec<u8> = (0..members).map(|_| sim::weighted("member.post_start", &[4, 1, 2]) as u8).collect();
    let stop_early: Vec<bool> = (0..members).map(|k| post_starts[k] == 2 && sim::flip("member.stopped.early", 1, 2)).collect();
    let clients = sim::choose("client.threads", 3);
    let calm = sim::flip("no.member.ends", 1, 3);
    let steps: Vec<GStep> = (0..sim::range("steps", 0, 14) as u32)
        .map(|id| {
            let client = sim::choose("step.client", clients + 1);
            let op = match sim::weighted("gstep.op", &[10, 1, 1, 2, 2]) {
                0 => GOp::Send([Work::None, Work::Yield, Work::Sleep(30)][sim::choose("step.work", 3)]),
                1 if !calm => GOp::SendFailing,
                2 if !calm => GOp::StopMember(sim::choose("step.member", members)),
                3 if !calm => GOp::Leave(sim::choose("step.member", members)),
                4 if !calm => GOp::Rejoin(sim::choose("step.member", members)),
                _ => GOp::Send(Work::None),
            };
            GStep { id, client, op }
        })
        .collect();
    let capacity = 1u32 << sim::range("ring.capacity.log2", 1, 5);
    sim::log(|| format!("{workers} workers, {clients} client threads, {members} members with capacities {caps:?}, post_start kinds {post_starts:?}, stopped early {stop_early:?}, supervised: {supervised}; ring capacity {capacity}; {cfg:?}"));
    sim::log(|| format!("steps {steps:?}"));
    let errs = SharedErrs::default();
    let recs: Vec<Arc<Rec>> = (0..members).map(|_| Arc::new(Rec::default())).collect();
    let sup_log: Arc<Mutex<Vec<(String, &'static str)>>> = Arc::default();

    let (end, multi) = run_on_kernel_multi(cfg, {
        let (errs, recs, steps, sup_log, caps, post_starts, stop_early) = (errs.clone(), recs.clone(), steps.clone(), sup_log.clone(), caps.clone(), post_starts.clone(), stop_early.clone());
        move || {
            let mut pb = ProactorBuilder::new();
            pb.capacity(capacity);
            draw_driver(&mut pb);
            let rt = compio_runtime::Runtime::builder().with_proactor(pb.clone()).build().expect("runtime");
            rt.block_on(async {
                let dispatcher = compio_dispatcher::Dispatcher::builder().worker_threads(NonZeroUsize::new(workers).unwrap()).proactor_builder(pb.clone()).build().expect("dispatcher");
                let cluster = Cluster::from_dispatcher(dispatcher);
                let supervisor = if supervised {
                    let log = sup_log.clone();
                    match cluster.spawn(move || Sup { log }, ()).await {
                        Ok(p) => Some(p),
                        Err(e) => {
                            errs.push("spawn", format!("spawning the supervisor failed: {e:?}"));
                            return;
                        }
                    }
                } else {
                    None
                };
                let mut mailboxes = Vec::new();
                let mut handles = Vec::new();
                for k in 0..members {
                    let (rec, errs2, post_start) = (recs[k].clone(), errs.clone(), post_starts[k]);
                    let mut s = cluster.spawn(move || Worker { slot: k, rec, errs: errs2, fail_start: false, fail_pre_stop: false, post_start }, ()).with_name(format!("member-{k}"));
                    if let Some(c) = caps[k] {
                        s = s.with_capacity(NonZeroUsize::new(c).unwrap());
                    }
                    if let Some((sup, _)) = &supervisor {
                        s = s.with_supervisor(sup);
                    }
                    match compio_runtime::time::timeout(CALL_BOUND, s.into_future()).await {
                        Ok(Ok((m, h))) => {
                            if stop_early[k] {
                                // (spawn returns after pre_start: post_start is still under way)
                                m.stop();
                            }
                            mailboxes.push(m);
                            handles.push(h);
                        }
                        other => {
                            errs.push("spawn", format!("spawning member {k} failed or hung: {:?}", other.map(|r| r.map(|_| ()))));
                            return;
                        }
                    }
                }
                let group = ProcessGroup::<Msg>::new();
                let fail_group = ProcessGroup::<Fail>::new();
                let memberships: Arc<Mutex<Vec<Vec<(Membership<Msg>, Membership<Fail>)>>>> =
                    Arc::new(Mutex::new(mailboxes.iter().map(|m| vec![(group.join(m.broker()), fail_group.join(m.broker()))]).collect()));
                if group.len() != members {
                    errs.push("group", format!("{members} members joined, the group counts {}", group.len()));
                }
                // ---- the program
                let run_step = {
                    let (group, fail_group, mailboxes, memberships) = (group.clone(), fail_group.clone(), mailboxes.clone(), memberships.clone());
                    move |s: &GStep| -> Outcome {
                        match s.op {
                            GOp::Send(w) => deliver(group.send(Msg(s.id, w))),
                            GOp::SendFailing => deliver(fail_group.send(Fail(s.id))),
                            GOp::StopMember(k) => Outcome::Stopped(mailboxes[k].stop()),
                            GOp::Leave(k) => {
                                // (all of its memberships: from here on it is no member any more)
                                let m: Vec<_> = std::mem::take(&mut memberships.lock().unwrap()[k]);
                                Outcome::Found(!m.is_empty())
                            }
                            GOp::Rejoin(k) => {
                                let m = (group.join(mailboxes[k].broker()), fail_group.join(mailboxes[k].broker()));
                                memberships.lock().unwrap()[k].push(m);
                                Outcome::Found(true)
                            }
                        }
                    }
                };
                let threads: Vec<std::thread::JoinHandle<Vec<(u32, Outcome)>>> = (1..=clients)
                    .map(|c| {
                        let mine: Vec<GStep> = steps.iter().filter(|s| s.client == c).cloned().collect();
                        let run_step = run_step.clone();
                        std::thread::spawn(move || mine.iter().map(|s| (s.id, run_step(s))).collect())
                    })
                    .collect();
                let mut outcomes: Vec<(u32, Outcome)> = Vec::new();
                for s in steps.iter().filter(|s| s.client == 0) {
                    outcomes.push((s.id, run_step(s)));
                    YieldNow(false).await;
                }
                for t in threads {
                    match t.join() {
                        Ok(o) => outcomes.extend(o),
                        Err(_) => errs.push("panic", "a client thread panicked".to_string()),
                    }
                }
                sim::log(|| format!("outcomes {outcomes:?}"));
                let outcome = |id: u32| outcomes.iter().find(|(i, _)| *i == id).map(|(_, o)| *o);
                let disturbed = steps.iter().any(|s| !matches!(s.op, GOp::Send(_))) || post_starts.iter().any(|p| *p == 1) || stop_early.iter().any(|b| *b);
                // ---- wind down: live members handle what they accepted, then everything is stopped
                let mut all_answered = true;
                for (k, m) in mailboxes.iter().enumerate() {
                    if m.is_closed() {
                        continue;
                    }
                    let mut answered = false;
                    for _ in 0..200 {
                        match compio_runtime::time::timeout(CALL_BOUND, m.call(Ask(BARRIER + k as u32))).await {
                            Ok(Ok(_)) => {
                                answered = true;
                                break;
                            }
                            Ok(Err(CallError::Full(_))) => compio_runtime::time::sleep(Duration::from_micros(100)).await,
                            Ok(Err(_)) => break,
                            Err(_) => {
                                errs.push("call-hangs", format!("member {k}: a call to it did not return within {CALL_BOUND:?}"));
                                break;
                            }
                        }
                    }
                    all_answered &= answered;
                    m.stop();
                }
                let mut exits = Vec::new();
                for (k, h) in handles.into_iter().enumerate() {
                    match compio_runtime::time::timeout(CALL_BOUND, h).await {
                        Ok(Ok(e)) => exits.push(Some(e)),
                        Ok(Err(_)) => {
                            errs.push("exit", format!("member {k}: the handle reports that the worker stopped before the actor exited"));
                            exits.push(None);
                        }
                        Err(_) => {
                            errs.push("handle-hangs", format!("member {k} was stopped; its handle did not resolve within {CALL_BOUND:?}"));
                            exits.push(None);
                        }
                    }
                }
                // ---- routing
                let handled_by: Vec<Vec<u32>> = recs.iter().map(|r| r.events.lock().unwrap().iter().filter_map(|e| if let Ev::Handle(i) = e { Some(*i) } else { None }).collect()).collect();
                sim::log(|| format!("handled per member {handled_by:?}; exits {exits:?}"));
                for s in steps.iter().filter(|s| matches!(s.op, GOp::Send(_) | GOp::SendFailing)) {
                    let by: Vec<usize> = (0..members).filter(|k| handled_by[*k].contains(&s.id)).collect();
                    let times: usize = handled_by.iter().map(|h| h.iter().filter(|i| **i == s.id).count()).sum();
                    match outcome(s.id) {
                        Some(Outcome::Accepted) => {
                            if times > 1 {
                                errs.push("group-duplicated", format!("message {} sent through the group was handled {times} times (members {by:?})", s.id));
                            }
                            if times == 0 && !disturbed && all_answered {
                                errs.push("group-lost", format!("message {} was accepted by the group, no member was stopped, failed or left, every member answered a later call, and none has handled it", s.id));
                            }
                        }
                        Some(o @ (Outcome::Full | Outcome::Closed)) => {
                            if times > 0 {
                                errs.push("group-returned-but-handled", format!("message {} was handed back by the group ({o:?}) and handled all the same by members {by:?}", s.id));
                            }
                            if o == Outcome::Closed && !disturbed {
                                errs.push("group-closed", format!("message {} was refused as Closed although all {members} members were alive and in the group", s.id));
                            }
                        }
                        _ => {}
                    }
                }
                // ---- a member that has left gets no more of the group's messages: what a client sends through the
                // group after its own Leave of member k has returned is not handled by k (unless k joined again)
                for c in 0..=clients {
                    let mut gone: Vec<bool> = vec![false; members];
                    for s in steps.iter().filter(|s| s.client == c) {
                        match s.op {
                            // (only a Leave that released the memberships itself has completed the leaving when it returns: one
                            // that found none may have been overtaken by another client's Leave that is still under way)
                            GOp::Leave(k) => gone[k] |= outcome(s.id) == Some(Outcome::Found(true)),
                            GOp::Rejoin(k) => gone[k] = false,
                            GOp::Send(_) | GOp::SendFailing => {
                                for k in (0..members).filter(|k| gone[*k]) {
                                    // (another client may have let it join again meanwhile)
                                    let rejoined_elsewhere = steps.iter().any(|o| o.client != c && matches!(o.op, GOp::Rejoin(j) if j == k));
                                    if handled_by[k].contains(&s.id) && !rejoined_elsewhere {
                                        errs.push("group-delivered-to-departed", format!("member {k} had left the group (client {c}'s Leave had returned) when client {c} sent message {} through the group; member {k} handled it", s.id));
                                    }
                                }
                            }
                            GOp::StopMember(_) => {}
                        }
                    }
                }
                // ---- supervision
                if let Some((sup, sup_handle)) = supervisor {
                    // the notices are in the supervisor's mailbox by now (the members have exited): let it handle them
                    for _ in 0..50 {
                        if sup_log.lock().unwrap().iter().filter(|(_, w)| *w != "started").count() >= members {
                            break;
                        }
                        compio_runtime::time::sleep(Duration::from_micros(200)).await;
                    }
                    sup.stop();
                    if compio_runtime::time::timeout(CALL_BOUND, sup_handle).await.is_err() {
                        errs.push("handle-hangs", "the supervisor was stopped; its handle did not resolve".to_string());
                    }
                    let log = sup_log.lock().unwrap().clone();
                    for k in 0..members {
                        let mine: Vec<&'static str> = log.iter().filter(|(n, _)| *n == format!("member-{k}")).map(|(_, w)| *w).collect();
                        let want_end = match &exits[k] {
                            Some(ActorExit::Stopped) => "terminated",
                            Some(ActorExit::Failed(_)) => "failed",
                            None => continue,
                        };
                        // "started" means post_start has succeeded: a member that fails there was never started
                        let want: Vec<&str> = if post_starts[k] == 1 { vec![want_end] } else { vec!["started", want_end] };
                        if mine != want {
                            errs.push("supervision", format!("member {k} (post_start {}) exited with {:?}; its supervisor was told {mine:?}, expected {want:?}", ["succeeds", "fails", "succeeds after a few turns, a stop may have been requested meanwhile"][post_starts[k] as usize], exits[k]));
                        }
                    }
                }
                drop(memberships);
                drop(mailboxes);
                match compio_runtime::time::timeout(Duration::from_secs(120), cluster.join()).await {
                    Ok(Ok(())) => {}
                    Ok(Err(e)) => errs.push("join-failed", format!("Cluster::join failed: {e}")),
                    Err(_) => errs.push("join-hangs", "Cluster::join did not return within 120 s of simulated time".to_string()),
                }
            });
        }
    })?;
    errs.first()?;
    check!(end.open_rings == 0 && multi.open_rings == 0, "ring-leak", "{} rings still open", end.open_rings + multi.open_rings);
    Ok(())
}
