//! C20 — child processes: complete stdio and the real exit status.
//!
//! The child is the small `kchild` binary built next to this one: it does nothing on its own; every action (write N bytes to
//! stdout/stderr without blocking, read what is available on stdin, close a stream, exit with a code, die
//! from a signal) is a command sent by an environment action of the run over an inherited control socket
//! and acknowledged before the action returns. So the child's visible behaviour is part of the run's
//! choice sequence, although it is a real process with real pipes. The parent side is the real
//! compio-process on the driver of the run: readers of stdout and stderr with generated chunk sizes, a
//! writer to stdin with generated chunks, and a wait (`wait()` at a generated instant, or
//! `wait_with_output()`); volumes go beyond the pipe capacity, so the child's writes stall until the
//! parent reads. Oracles: the parent's stdout/stderr transcripts equal what the child reports having
//! written, the child's stdin transcript equals what the parent wrote, the exit status is the commanded
//! one and is not delivered before the exit was commanded.

use std::{
    cell::{Cell, RefCell},
    io::{BufRead, BufReader, Write},
    os::{
        fd::AsRawFd,
        unix::{net::UnixStream, process::ExitStatusExt},
    },
    rc::Rc,
    time::Duration,
};

use compio_buf::BufResult;
use compio_driver::ProactorBuilder;
use compio_io::{AsyncRead, AsyncWrite};
use compio_runtime::time::sleep;
use simcore::{self as sim, RunResult, check, worker::Scenario};

use crate::kutil::*;

pub fn scenarios() -> Vec<Scenario> {
    vec![Scenario {
        name: "child",
        property: "C20",
        engine: "K",
        run: child,
        weight: 1,
    }]
}

use crate::childproto::pattern;

// ---------------------------------------------------------------- the run

struct Ctl {
    w: UnixStream,
    r: BufReader<UnixStream>,
}

impl Ctl {
    fn cmd(&mut self, c: &str) -> String {
        let _ = writeln!(self.w, "{c}");
        let mut s = String::new();
        let _ = self.r.read_line(&mut s);
        s.trim().to_string()
    }
}

#[derive(Clone, Copy, Debug, PartialEq)]
enum End {
    Exit(i32),
    Signal(i32),
}

#[derive(Clone, Copy, Debug, PartialEq)]
enum Wait {
    /// `wait()` started at this instant; stdout/stderr are read by separate tasks
    At(u64),
    /// `wait_with_output()`
    WithOutput,
}

fn volume() -> usize {
    match sim::choose("volume", 5) {
        0 => 0,
        1 => 1 + sim::range("volume.small", 0, 50) as usize,
        2 => 1 + sim::range("volume.mid", 0, 5000) as usize,
        3 => 65536 + sim::range("volume.cap", 0, 2) as usize - 1, // around the pipe capacity
        _ => 70_000 + sim::range("volume.big", 0, 130_000) as usize,
    }
}

fn chunk() -> usize {
    [1usize, 7, 512, 4096, 65536, 100_000][sim::choose("chunk", 6)]
}

fn run_multi(cfg: simkernel::KConfig, body: Box<dyn FnOnce()>) -> Result<simkernel::EndState, sim::Violation> {
    run_on_kernel_multi(cfg, body).map(|(end, _)| end)
}

fn child() -> RunResult {
    let cfg = simkernel::KConfig::draw();
    let (out_chunk, err_chunk, in_chunk) = (chunk(), chunk(), chunk());
    // (a run costs one simulated operation per chunk: tiny chunks go with moderate volumes)
    let (out_total, err_total, in_total) = (volume().min(out_chunk * 400), volume().min(err_chunk * 400), volume().min(in_chunk * 400));
    let child_write_burst = [1usize, 100, 4096, 65536, 200_000][sim::choose("child.burst", 5)];
    let end = if sim::flip("end.signal", 1, 4) { End::Signal([libc::SIGKILL, libc::SIGTERM, libc::SIGUSR1][sim::choose("end.sig", 3)]) } else { End::Exit([0, 1, 3, 42, 255][sim::choose("end.code", 5)]) };
    let wait = if sim::flip("wait.with_output", 1, 3) { Wait::WithOutput } else { Wait::At(sim::range("wait.at", 0, 400)) };
    let exit_at = 20 + sim::range("exit.at", 0, 300);
    // like most real children: everything is written first (stalling while the pipes are full), the end comes
    // afterwards; the parent has to drain stdout and stderr at the same time for that to happen at all
    let write_all_first = matches!(wait, Wait::WithOutput) && sim::flip("child.writes.all.first", 1, 2);
    // (then no more than some 300 steps per stream)
    let child_write_burst = if write_all_first { child_write_burst.max(out_total.max(err_total) / 300 + 1) } else { child_write_burst };
    let close_before_exit = sim::flip("close.before.exit", 1, 2);
    let capacity = 1u32 << sim::range("ring.capacity.log2", 0, 4);
    sim::log(|| format!("ring capacity {capacity}; stdout {out_total} bytes read in chunks of {out_chunk}, stderr {err_total}/{err_chunk}, stdin {in_total}/{in_chunk}; child writes in bursts of {child_write_burst}; ends with {end:?} at {exit_at} µs; parent waits {wait:?}{}; {cfg:?}", if write_all_first { " (the child ends only when it has written everything)" } else { "" }));

    let errs = Errs::default();
    let out_got: Rc<RefCell<Vec<u8>>> = Rc::default();
    let err_got: Rc<RefCell<Vec<u8>>> = Rc::default();
    let status: Rc<RefCell<Option<(std::process::ExitStatus, u64)>>> = Rc::default();
    let written: Rc<RefCell<[usize; 3]>> = Rc::new(RefCell::new([0; 3]));
    let stdin_seen: Rc<RefCell<(usize, u64, bool)>> = Rc::new(RefCell::new((0, 0xcbf29ce484222325, false)));
    let exit_commanded_ns: Rc<Cell<u64>> = Rc::new(Cell::new(u64::MAX));
    let in_sent: Rc<RefCell<Vec<u8>>> = Rc::default();

    // with the virtual pool of Engine K the wait job runs inline on the only thread, which cannot read the
    // child's output meanwhile; a child that ends only after it has written everything needs the wait on a
    // thread of its own: those runs are multi-threaded runs (Engine M)
    let runner = if write_all_first { run_multi } else { run_on_kernel };
    let end_state = runner(cfg, Box::new({
        let (errs, out_got, err_got, status, written, stdin_seen, exit_commanded_ns, in_sent) =
            (errs.clone(), out_got.clone(), err_got.clone(), status.clone(), written.clone(), stdin_seen.clone(), exit_commanded_ns.clone(), in_sent.clone());
        move || {
            let mut pb = ProactorBuilder::new();
            pb.capacity(capacity);
            draw_driver(&mut pb);
            let rt = compio_runtime::Runtime::builder().with_proactor(pb).build().expect("runtime");
            rt.block_on(async {
                // the control channel: the child's end is inherited (no CLOEXEC)
                let (ours, theirs) = UnixStream::pair().expect("socketpair");
                unsafe {
                    let fl = libc::fcntl(theirs.as_raw_fd(), libc::F_GETFD);
                    libc::fcntl(theirs.as_raw_fd(), libc::F_SETFD, fl & !libc::FD_CLOEXEC);
                }
                let exe = std::env::current_exe().expect("own path").with_file_name("kchild");
                let mut cmd = compio_process::Command::new(exe);
                cmd.arg(theirs.as_raw_fd().to_string());
                let _ = cmd.stdin(std::process::Stdio::piped());
                let _ = cmd.stdout(std::process::Stdio::piped());
                let _ = cmd.stderr(std::process::Stdio::piped());
                let mut child = match cmd.spawn() {
                    Ok(c) => c,
                    Err(e) => {
                        errs.push("harness", format!("spawn failed: {e}"));
                        return;
                    }
                };
                drop(theirs);
                let ctl = Rc::new(RefCell::new(Ctl { r: BufReader::new(ours.try_clone().expect("clone")), w: ours }));

                // ---- the child's script, as environment actions
                let at = |us: u64| Duration::from_micros(us);
                // (write_all_first) the end of the child is scheduled by the feed that finishes last
                let feeds_left = Rc::new(Cell::new(2usize));
                let the_end: Rc<RefCell<Option<Box<dyn FnOnce()>>>> = Rc::default();
                let stalled: Rc<Cell<Option<(&'static str, usize)>>> = Rc::new(Cell::new(None));
                let feed_patience = if write_all_first { None } else { Some(exit_at) };
                let feed = |stream: usize, total: usize, label: &'static str| {
                    // the child writes what fits, in bursts, until everything is out; then (maybe) closes the stream
                    let (ctl, written) = (ctl.clone(), written.clone());
                    let left = Rc::new(Cell::new(total));
                    type Done = Rc<dyn Fn(Option<usize>)>;
                    /// How long the child goes on trying: until an instant, or until 300 tries in a row got no byte out.
                    #[derive(Clone, Copy)]
                    enum Patience {
                        Until(u64),
                        Stalls(u32),
                    }
                    #[allow(clippy::too_many_arguments)]
                    fn step(stream: usize, label: &'static str, burst: usize, left: Rc<Cell<usize>>, ctl: Rc<RefCell<Ctl>>, written: Rc<RefCell<[usize; 3]>>, close_after: bool, patience: Patience, now_us: u64, done: Done) {
                        let want = left.get().min(burst);
                        let mut patience = patience;
                        if want > 0 {
                            let n: usize = ctl.borrow_mut().cmd(&format!("{} {want}", if stream == 1 { "O" } else { "E" })).parse().unwrap_or(0);
                            written.borrow_mut()[stream] += n;
                            left.set(left.get() - n);
                            if let Patience::Stalls(idle) = patience {
                                patience = Patience::Stalls(if n > 0 { 0 } else { idle + 1 });
                            }
                        }
                        let go_on = match patience {
                            Patience::Until(t) => now_us + 23 < t,
                            Patience::Stalls(idle) => idle < 300,
                        };
                        if left.get() > 0 && go_on {
                            let (l, c, w) = (left.clone(), ctl.clone(), written.clone());
                            simkernel::at(Duration::from_micros(23), format!("the child goes on writing to its {label}"), move || step(stream, label, burst, l, c, w, close_after, patience, now_us + 23, done));
                        } else {
                            if close_after {
                                ctl.borrow_mut().cmd(&format!("C {stream}"));
                            }
                            done(if left.get() > 0 { Some(left.get()) } else { None });
                        }
                    }
                    let close_after = close_before_exit && !write_all_first;
                    let (feeds_left, the_end, stalled) = (feeds_left.clone(), the_end.clone(), stalled.clone());
                    let done: Done = Rc::new(move |unwritten: Option<usize>| {
                        if !write_all_first {
                            return;
                        }
                        if let Some(n) = unwritten {
                            stalled.set(Some((label, n)));
                        }
                        feeds_left.set(feeds_left.get() - 1);
                        if feeds_left.get() == 0 {
                            if let Some(end) = the_end.borrow_mut().take() {
                                simkernel::at(Duration::from_micros(5), "the child has written everything and ends".to_string(), end);
                            }
                        }
                    });
                    simkernel::at(at(1 + stream as u64), format!("the child starts writing {total} bytes to its {label}"), move || step(stream, label, child_write_burst, left, ctl, written, close_after, match feed_patience { Some(t) => Patience::Until(t), None => Patience::Stalls(0) }, 1 + stream as u64, done));
                };
                feed(1, out_total, "stdout");
                feed(2, err_total, "stderr");
                // the child reads its stdin every 37 µs until the end
                {
                    fn drain(ctl: Rc<RefCell<Ctl>>, seen: Rc<RefCell<(usize, u64, bool)>>, deadline_us: u64, now_us: u64) {
                        let r = ctl.borrow_mut().cmd("I 70000");
                        let f: Vec<i64> = r.split_whitespace().filter_map(|x| x.parse::<u64>().ok().map(|v| v as i64).or_else(|| x.parse::<i64>().ok())).collect();
                        if f.len() == 3 {
                            let mut s = seen.borrow_mut();
                            s.0 = f[1] as usize;
                            s.1 = f[2] as u64;
                            if f[0] == 0 {
                                s.2 = true;
                            }
                        }
                        if !seen.borrow().2 && now_us + 37 < deadline_us {
                            let (c, s) = (ctl.clone(), seen.clone());
                            simkernel::at(Duration::from_micros(37), "the child reads its stdin".to_string(), move || drain(c, s, deadline_us, now_us + 37));
                        }
                    }
                    let (c, s) = (ctl.clone(), stdin_seen.clone());
                    simkernel::at(at(2), "the child reads its stdin".to_string(), move || drain(c, s, exit_at, 2));
                }
                // the end
                {
                    let (ctl, seen, cmd_ns) = (ctl.clone(), stdin_seen.clone(), exit_commanded_ns.clone());
                    let ending = move || {
                        // a last look at stdin, so that what was delivered by then is accounted for
                        let r = ctl.borrow_mut().cmd("I 300000");
                        let f: Vec<i64> = r.split_whitespace().filter_map(|x| x.parse::<i64>().ok().or_else(|| x.parse::<u64>().ok().map(|v| v as i64))).collect();
                        if f.len() == 3 {
                            let mut s = seen.borrow_mut();
                            s.0 = f[1] as usize;
                            s.1 = f[2] as u64;
                        }
                        cmd_ns.set(simkernel::now_ns());
                        match end {
                            End::Exit(c) => ctl.borrow_mut().cmd(&format!("X {c}")),
                            End::Signal(s) => ctl.borrow_mut().cmd(&format!("K {s}")),
                        };
                        // from here on the child is a zombie or about to be one: wait until it really is, so that
                        // what the parent observes does not depend on how fast the OS tears the process down
                        let pid = CHILD_PID.with(|p| p.get());
                        let mut info: libc::siginfo_t = unsafe { std::mem::zeroed() };
                        unsafe { libc::waitid(libc::P_PID, pid as libc::id_t, &mut info, libc::WEXITED | libc::WNOWAIT) };
                    };
                    if write_all_first {
                        *the_end.borrow_mut() = Some(Box::new(ending));
                    } else {
                        simkernel::at(at(exit_at), format!("the child ends: {end:?}"), ending);
                    }
                }
                CHILD_PID.with(|p| p.set(child.id()));

                // ---- the parent side
                let stdin = child.stdin.take();
                let writer = {
                    let (errs, in_sent) = (errs.clone(), in_sent.clone());
                    compio_runtime::spawn(async move {
                        let Some(mut stdin) = stdin else { return };
                        let data = pattern(0, 0, in_total);
                        let mut off = 0;
                        while off < data.len() {
                            let n = in_chunk.min(data.len() - off);
                            let BufResult(r, _) = stdin.write(data[off..off + n].to_vec()).await;
                            match r {
                                Ok(0) => break,
                                Ok(k) if k <= n => {
                                    in_sent.borrow_mut().extend_from_slice(&data[off..off + k]);
                                    off += k;
                                }
                                Ok(k) => {
                                    errs.push("count", format!("write to stdin reported {k} bytes for a {n}-byte buffer"));
                                    break;
                                }
                                // the child is gone: the rest cannot be delivered
                                Err(_) => break,
                            }
                        }
                        // dropping stdin closes it: the child sees end of input
                    })
                };
                match wait {
                    Wait::WithOutput => {
                        let r = child.wait_with_output().await;
                        match r {
                            Ok(o) => {
                                *out_got.borrow_mut() = o.stdout;
                                *err_got.borrow_mut() = o.stderr;
                                *status.borrow_mut() = Some((o.status, simkernel::now_ns()));
                            }
                            Err(e) => errs.push("io-error", format!("wait_with_output failed: {e}")),
                        }
                    }
                    Wait::At(t) => {
                        let mut so = child.stdout.take();
                        let mut se = child.stderr.take();
                        let (og, eg) = (out_got.clone(), err_got.clone());
                        let ro = compio_runtime::spawn(async move {
                            if let Some(s) = so.as_mut() {
                                loop {
                                    let BufResult(r, b) = s.read(Vec::with_capacity(out_chunk)).await;
                                    match r {
                                        Ok(0) | Err(_) => break,
                                        Ok(_) => og.borrow_mut().extend_from_slice(&b),
                                    }
                                }
                            }
                        });
                        let re = compio_runtime::spawn(async move {
                            if let Some(s) = se.as_mut() {
                                loop {
                                    let BufResult(r, b) = s.read(Vec::with_capacity(err_chunk)).await;
                                    match r {
                                        Ok(0) | Err(_) => break,
                                        Ok(_) => eg.borrow_mut().extend_from_slice(&b),
                                    }
                                }
                            }
                        });
                        sleep(Duration::from_micros(t)).await;
                        match child.wait().await {
                            Ok(s) => *status.borrow_mut() = Some((s, simkernel::now_ns())),
                            Err(e) => errs.push("io-error", format!("wait failed: {e}")),
                        }
                        let _ = ro.await;
                        let _ = re.await;
                    }
                }
                let _ = writer.await;
                if let Some((label, n)) = stalled.get() {
                    errs.push("child-stalled", format!("the parent was collecting the child's output (wait_with_output) and the child could not get rid of the last {n} bytes for its {label} although it tried 300 times over 7 ms of simulated time without getting a single byte out: its pipe stayed full, nobody was reading it"));
                }
            });
        }
    }));
    let end_state = end_state?;
    errs.first()?;
    // ---- the transcripts
    let w = written.borrow();
    let (og, eg) = (out_got.borrow(), err_got.borrow());
    check!(og.len() == w[1] && og[..] == pattern(1, 0, w[1])[..], "stdout-transcript", "the parent read {} bytes of stdout, the child wrote {}: {}", og.len(), w[1], first_diff(&og, &pattern(1, 0, w[1])));
    check!(eg.len() == w[2] && eg[..] == pattern(2, 0, w[2])[..], "stderr-transcript", "the parent read {} bytes of stderr, the child wrote {}: {}", eg.len(), w[2], first_diff(&eg, &pattern(2, 0, w[2])));
    // what the child read from stdin is a prefix of what the parent's writes reported as accepted
    let sent = in_sent.borrow();
    let seen = stdin_seen.borrow();
    check!(seen.0 <= sent.len(), "stdin-transcript", "the child read {} bytes from stdin, the parent's writes reported {} bytes accepted", seen.0, sent.len());
    let mut h = 0xcbf29ce484222325u64;
    for b in &sent[..seen.0] {
        h = (h ^ *b as u64).wrapping_mul(0x100000001b3);
    }
    check!(h == seen.1, "stdin-transcript", "the {} bytes the child read from stdin are not the first {} bytes the parent wrote", seen.0, seen.0);
    // ---- the status
    let st = status.borrow();
    let Some((st, at_ns)) = st.as_ref() else {
        simcore::violation!("no-status", "the wait never produced a status");
    };
    match end {
        End::Exit(c) => check!(st.code() == Some(c), "exit-status", "the child exited with code {c}, wait reported {st:?}"),
        End::Signal(s) => check!(st.signal() == Some(s), "exit-status", "the child was killed by signal {s}, wait reported {st:?}"),
    }
    if exit_commanded_ns.get() == u64::MAX {
        simcore::violation!("status-before-exit", "wait returned the status {st:?} although the child was never told to end");
    }
    check!(*at_ns >= exit_commanded_ns.get(), "status-before-exit", "wait returned a status {} ns before the child was told to end", exit_commanded_ns.get().saturating_sub(*at_ns));
    check!(end_state.open_rings == 0, "ring-leak", "{} rings still open", end_state.open_rings);
    Ok(())
}

thread_local! {
    static CHILD_PID: Cell<u32> = const { Cell::new(0) };
}
