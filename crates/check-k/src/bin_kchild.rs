//! The scripted child process of the C20 scenario: `kchild <control descriptor>`.

#[path = "childproto.rs"]
mod childproto;

fn main() {
    let fd = std::env::args().nth(1).and_then(|a| a.parse().ok()).expect("usage: kchild <fd>");
    childproto::child_main(fd)
}
