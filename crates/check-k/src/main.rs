//! Engine K checks: the real compio runtime, driver, fs and net crates on the simulated io_uring kernel.

mod kutil;
mod smoke;
mod streams;

use simcore::worker::Scenario;

#[global_allocator]
static ALLOC: simcore::quarantine::Quarantine = simcore::quarantine::Quarantine;

fn main() {
    let mut scenarios: Vec<Scenario> = Vec::new();
    scenarios.extend(smoke::scenarios());
    scenarios.extend(streams::scenarios());
    simcore::worker::main(&scenarios)
}
