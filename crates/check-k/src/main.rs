//! Engine K checks: the real compio runtime, driver, fs and net crates on the simulated io_uring kernel.

mod actors;
mod ancillary;
mod bufpool;
mod cancel;
mod childproto;
mod datagrams;
mod dispatcher;
mod fsmodel;
mod kutil;
mod lifecycle;
mod opsmix;
mod process;
mod quic;
mod smoke;
mod streams;
mod timers;
mod wakes;
mod ws;

use simcore::worker::Scenario;

#[global_allocator]
static ALLOC: simcore::quarantine::Quarantine = simcore::quarantine::Quarantine;

fn main() {
    // freed memory is filled with 0xDD: code that goes on using a freed operation or buffer trips over it
    simcore::quarantine::set_poison(true);
    // VERIF_DEBUG_TRACING=1: print what the libraries under test report through `tracing` (quinn-proto's
    // frame-level trace) to stdout as it happens; diagnosis only
    if std::env::var_os("VERIF_DEBUG_TRACING").is_some() {
        tracing_subscriber::fmt().with_max_level(tracing::Level::TRACE).without_time().with_ansi(false).with_writer(std::io::stdout).init();
    }
    // compio caches the io_uring opcode probe in a process-wide static: take that once, outside any
    // run, so that no run depends on whether it was the first one in its process
    simkernel::begin(simkernel::KConfig::default());
    compio_runtime::Runtime::new().expect("warm-up runtime").block_on(async {
        let _ = compio_fs::pipe::anonymous().await;
    });
    let _ = simkernel::end();
    let mut scenarios: Vec<Scenario> = Vec::new();
    scenarios.extend(smoke::scenarios());
    scenarios.extend(actors::scenarios());
    scenarios.extend(ancillary::scenarios());
    scenarios.extend(bufpool::scenarios());
    scenarios.extend(cancel::scenarios());
    scenarios.extend(datagrams::scenarios());
    scenarios.extend(dispatcher::scenarios());
    scenarios.extend(fsmodel::scenarios());
    scenarios.extend(lifecycle::scenarios());
    scenarios.extend(opsmix::scenarios());
    scenarios.extend(process::scenarios());
    scenarios.extend(quic::scenarios());
    scenarios.extend(streams::scenarios());
    scenarios.extend(timers::scenarios());
    scenarios.extend(wakes::scenarios());
    scenarios.extend(ws::scenarios());
    simcore::worker::main(&scenarios)
}
