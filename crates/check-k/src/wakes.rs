//! C03, layers 2 and 3 — a wake-up from any thread reaches a runtime that is blocked (or about to block) in
//! its driver, in its own loop and in a loop driven from outside.
//!
//! Engine M: one compio runtime on the main thread (simulated io_uring kernel, cross-thread queue of 1, 2
//! or 64 entries) with 1..4 tasks, each waiting for an event of its own; 1..3 real waker threads deliver
//! the events: set the flag, then invoke the waker the task left (by value or by reference, some of them
//! twice, some from two threads). The runtime runs `block_on` (its own loop: poll the root future, run the
//! tasks, wait in the driver) or is driven from outside (`run()` / `poll_with()`, the way an external event
//! loop does it); the root future itself may be one of the waiters (its waker is the driver's notifier
//! directly). Thread interleaving (voluntary switches and 0..4 preemptions at the scheduling points inside
//! the executor's queue, the notifier's flag and the kernel entries) is drawn from the run's seed.
//!
//! Oracle: every task whose event has happened and whose waker was invoked completes; the runtime does not
//! sit in its driver until the 10 s (simulated) guard timer (`wake-lost`): that only happens when a
//! notification was dropped between the waker and the driver.

use std::{
    future::Future,
    pin::Pin,
    sync::{
        Arc, Mutex,
        atomic::{AtomicBool, AtomicUsize, Ordering::SeqCst},
    },
    task::{Context, Poll, Waker},
    time::Duration,
};

use compio_driver::ProactorBuilder;
use simcore::{self as sim, RunResult, check, worker::Scenario};

use crate::{dispatcher::SharedErrs, kutil::*};

pub fn scenarios() -> Vec<Scenario> {
    vec![Scenario {
        name: "cross_thread_wakes",
        property: "C03",
        engine: "M",
        run: wakes,
        weight: 1,
    }]
}

#[derive(Default)]
struct Event {
    happened: AtomicBool,
    waker: Mutex<Option<Waker>>,
    polls: AtomicUsize,
}

struct Wait(Arc<Event>);

impl Future for Wait {
    type Output = ();

    fn poll(self: Pin<&mut Self>, cx: &mut Context<'_>) -> Poll<()> {
        self.0.polls.fetch_add(1, SeqCst);
        if self.0.happened.load(SeqCst) {
            return Poll::Ready(());
        }
        *self.0.waker.lock().unwrap() = Some(cx.waker().clone());
        // (the event may have happened while the waker was being stored)
        if self.0.happened.load(SeqCst) { Poll::Ready(()) } else { Poll::Pending }
    }
}

#[derive(Clone, Copy, Debug)]
struct Delivery {
    event: usize,
    thread: usize,
    by_ref: bool,
    twice: bool,
}

const GUARD: Duration = Duration::from_secs(10);

fn wakes() -> RunResult {
    let mut cfg = simkernel::KConfig::draw();
    cfg.unsupported.clear();
    let tasks = 1 + sim::choose("tasks", 4);
    let threads = 1 + sim::choose("waker.threads", 3);
    let external_loop = sim::flip("external.loop", 1, 2);
    let root_waits = !external_loop && sim::flip("root.waits.too", 1, 2);
    // the outside loop waits inside the driver (poll_with), or the way a foreign event loop does: poll without
    // waiting, flush, and park on the driver's descriptor until it is readable (polling driver: its epoll instance;
    // the readiness of a ring descriptor is not modelled)
    let fd_parking = external_loop && sim::flip("external.fd.parking", 1, 2);
    let sync_queue = [1usize, 2, 64][sim::choose("sync.queue.size", 3)];
    let n_events = tasks + root_waits as usize;
    let mut deliveries: Vec<Delivery> = (0..n_events)
        .map(|event| Delivery { event, thread: sim::choose("delivery.thread", threads), by_ref: sim::flip("delivery.by.ref", 1, 2), twice: sim::flip("delivery.twice", 1, 4) })
        .collect();
    // some events are also delivered by a second thread
    for event in 0..n_events {
        if sim::flip("delivery.second.thread", 1, 4) {
            deliveries.push(Delivery { event, thread: sim::choose("delivery.thread", threads), by_ref: true, twice: false });
        }
    }
    let capacity = 1u32 << sim::range("ring.capacity.log2", 1, 5);
    // receives on silent sockets, handed to the driver in the first turn: with as many of them as the ring has
    // entries the submission queue is full when the driver arms its notifier
    let io_load = [0usize, 0, 0, capacity as usize, capacity as usize - 1, 1, 3][sim::choose("io.load", 7)].min(16);
    sim::log(|| format!("{tasks} tasks{}, {threads} waker threads, {}, cross-thread queue of {sync_queue}, ring capacity {capacity}, {io_load} receives on silent sockets; deliveries {deliveries:?}; {cfg:?}", if root_waits { " and the root future" } else { "" }, if external_loop { "loop driven from outside" } else { "block_on" }));

    let errs = SharedErrs::default();
    let events: Vec<Arc<Event>> = (0..n_events).map(|_| Arc::new(Event::default())).collect();
    let done: Arc<Vec<AtomicBool>> = Arc::new((0..n_events).map(|_| AtomicBool::new(false)).collect());

    let (end, multi) = run_on_kernel_multi(cfg, {
        let (errs, events, done, deliveries) = (errs.clone(), events.clone(), done.clone(), deliveries.clone());
        move || {
            let mut pb = ProactorBuilder::new();
            pb.capacity(capacity);
            let fd_parking = (draw_driver(&mut pb) == compio_driver::DriverType::Poll) && fd_parking;
            let rt = compio_runtime::Runtime::builder().with_proactor(pb).sync_queue_size(sync_queue).build().expect("runtime");
            // the waiting tasks
            let handles: Vec<compio_runtime::JoinHandle<()>> = (0..tasks)
                .map(|k| {
                    let (ev, done) = (events[k].clone(), done.clone());
                    rt.spawn(async move {
                        Wait(ev).await;
                        done[k].store(true, SeqCst);
                    })
                })
                .collect();
            let _load: Vec<compio_runtime::JoinHandle<()>> = (0..io_load)
                .filter_map(|_| std::os::unix::net::UnixStream::pair().ok())
                .map(|(a, b)| {
                    rt.spawn(async move {
                        let _silent_peer = b;
                        if let Ok(s) = compio_net::UnixStream::from_std(a) {
                            let _ = compio_io::AsyncRead::read(&mut &s, Vec::<u8>::with_capacity(4)).await;
                        }
                    })
                })
                .collect();
            // the waker threads: each waits until the task has left its waker, then event first, waker second
            let wakers: Vec<std::thread::JoinHandle<()>> = (0..threads)
                .map(|t| {
                    let mine: Vec<Delivery> = deliveries.iter().filter(|d| d.thread == t).copied().collect();
                    let events = events.clone();
                    std::thread::spawn(move || {
                        for d in mine {
                            let ev = &events[d.event];
                            ev.happened.store(true, SeqCst);
                            let w = ev.waker.lock().unwrap().clone();
                            if let Some(w) = w {
                                if d.by_ref {
                                    w.wake_by_ref();
                                    if d.twice {
                                        w.wake_by_ref();
                                    }
                                } else {
                                    if d.twice {
                                        w.clone().wake();
                                    }
                                    w.wake();
                                }
                            }
                        }
                    })
                })
                .collect();
            let t0 = std::time::Instant::now();
            if external_loop {
                // the way an external event loop drives a runtime: run what is runnable, then wait in the driver
                rt.enter(|| {
                    loop {
                        let more = rt.run();
                        if (0..tasks).all(|k| done[k].load(SeqCst)) {
                            break;
                        }
                        if t0.elapsed() >= GUARD {
                            break;
                        }
                        if !fd_parking {
                            rt.poll_with(if more { Some(Duration::ZERO) } else { Some(GUARD) });
                            continue;
                        }
                        // the documented protocol of a foreign event loop: while tasks are runnable keep turning; with nothing
                        // runnable flush, which tells whether a wake-up came in meanwhile; from a `false` on, every wake-up
                        // must make the descriptor readable; once it is, collect what happened and run the tasks
                        if more || rt.flush() {
                            rt.poll_with(Some(Duration::ZERO));
                            continue;
                        }
                        sim::probe("parked-on-driver-descriptor");
                        if !simkernel::pollsim::park_on_fd(std::os::fd::AsRawFd::as_raw_fd(&rt), GUARD.saturating_sub(t0.elapsed())) {
                            sim::probe("parked-until-the-guard-time");
                        }
                        rt.poll_with(Some(Duration::ZERO));
                    }
                });
            } else {
                rt.block_on(async {
                    let all = async {
                        if root_waits {
                            Wait(events[tasks].clone()).await;
                            done[tasks].store(true, SeqCst);
                        }
                        for h in handles {
                            let _ = h.await;
                        }
                    };
                    let _ = compio_runtime::time::timeout(GUARD, all).await;
                });
            }
            for w in wakers {
                let _ = w.join();
            }
            let waited = t0.elapsed();
            // (a waker of the root future keeps the driver's eventfd open: nothing of the runtime outlives the run)
            for ev in events.iter() {
                ev.waker.lock().unwrap().take();
            }
            drop(_load);
            drop(rt);
            let stuck: Vec<usize> = (0..n_events).filter(|&k| !done[k].load(SeqCst)).collect();
            if !stuck.is_empty() {
                let detail: Vec<String> = stuck
                    .iter()
                    .map(|&k| format!("{} {k} (polled {} times, event happened: {})", if k < tasks { "task" } else { "the root future, event" }, events[k].polls.load(SeqCst), events[k].happened.load(SeqCst)))
                    .collect();
                errs.push("wake-lost", format!("every event was delivered and every waker invoked; {waited:?} of simulated time later these have not been polled again: {}", detail.join(", ")));
            } else if waited >= GUARD {
                errs.push("wake-lost", format!("all tasks completed, but only after the runtime had sat in its driver for {waited:?} (the guard timer woke it, not the wakers)"));
            }
        }
    })?;
    errs.first()?;
    check!(end.open_rings == 0 && multi.open_rings == 0, "ring-leak", "{} rings still open", end.open_rings + multi.open_rings);
    Ok(())
}
