//! C08 — file I/O and directory utilities against the OS's own synchronous calls.
//!
//! Every generated operation is performed twice: through compio (the driver of the run: io_uring on
//! the simulated ring, io_uring with a generated set of opcodes reported as unsupported so that the
//! fallback entries and the blocking pool are used, or the polling driver where file operations go to
//! the pool) on one directory tree, and through std / libc synchronous calls on a twin tree. After each
//! operation the results must agree (count, bytes, buffer shape, errno); at the end the two trees must
//! be identical (names, kinds, contents, link targets, modes). Several tasks work on their own
//! sub-trees at once, so operations of different kinds are in flight together.

use std::{
    os::{
        fd::AsRawFd,
        unix::fs::{FileExt, MetadataExt, OpenOptionsExt, PermissionsExt},
    },
    path::{Path, PathBuf},
};

use compio_buf::{BufResult, IoBufExt};
use compio_driver::ProactorBuilder;
use compio_io::{AsyncReadAt, AsyncReadManagedAt, AsyncWriteAt};
use simcore::{self as sim, RunResult, check, worker::Scenario};

use crate::kutil::*;

pub fn scenarios() -> Vec<Scenario> {
    vec![Scenario {
        name: "fs_model",
        property: "C08",
        engine: "K",
        run: fs_model,
        weight: 1,
    }]
}

const NAMES: [&str; 4] = ["f0", "f1", "d0", "l0"];
const SLOTS: usize = 2;
/// io_uring opcodes of file operations that the driver can do without (openat, close, statx, renameat,
/// unlinkat, mkdirat, symlinkat, linkat, ftruncate): each has a fallback entry or runs on the blocking
/// pool. Read, write, readv, writev and fsync belong to the basic set the io_uring driver requires.
const FILE_OPCODES: [u8; 9] = [18, 19, 21, 35, 36, 37, 38, 39, 55];

#[derive(Clone, Debug)]
enum Op {
    Open { slot: usize, name: usize, read: bool, write: bool, truncate: bool, create: bool, create_new: bool, append: bool },
    Close { slot: usize },
    WriteAt { slot: usize, pos: u64, len: usize, shape: u8 },
    WriteVectoredAt { slot: usize, pos: u64, lens: Vec<usize> },
    ReadAt { slot: usize, pos: u64, cap: usize, init: usize },
    ReadVectoredAt { slot: usize, pos: u64, caps: Vec<usize>, inits: Vec<usize> },
    ReadManagedAt { slot: usize, pos: u64, len: usize },
    SetLen { slot: usize, size: u64 },
    Sync { slot: usize, data: bool },
    Metadata { slot: usize },
    SetPermissions { slot: usize, mode: u32 },
    PathWrite { name: usize, len: usize },
    PathRead { name: usize },
    Rename { from: usize, to: usize },
    RemoveFile { name: usize },
    CreateDir { name: usize },
    CreateDirAll { a: usize, b: usize },
    RemoveDir { name: usize },
    HardLink { from: usize, to: usize },
    Symlink { from: usize, to: usize },
    PathMetadata { name: usize, follow: bool },
    /// through a directory handle (`Dir`, the *at family): `sub` picks the handle of the task's directory or of
    /// its sub-directory "sub"; two-name operations may go from one handle to the other
    DirOpen { slot: usize, sub: bool, name: usize, how: u8 },
    DirCreateDir { sub: bool, name: usize, all: Option<usize> },
    DirMetadata { sub: bool, name: usize, follow: bool },
    DirHardLink { sub: bool, from: usize, to_sub: bool, to: usize },
    DirSymlink { sub: bool, from: usize, to: usize },
    DirRename { sub: bool, from: usize, to_sub: bool, to: usize },
    DirRemove { sub: bool, name: usize, dir: bool },
    DirRead { sub: bool, name: usize },
    DirWrite { sub: bool, name: usize, len: usize },
    DirOpenDir { sub: bool, name: usize },
}

fn pos() -> u64 {
    match sim::choose("pos.class", 5) {
        0 => 0,
        1 => sim::range("pos.small", 0, 40),
        2 => sim::range("pos.mid", 0, 700),
        3 => 4096 + sim::range("pos.page", 0, 3),
        _ => 1 << 33, // beyond 4 GiB: offsets must not be truncated to 32 bits
    }
}

fn len() -> usize {
    match sim::choose("len.class", 4) {
        0 => 0,
        1 => 1 + sim::range("len.small", 0, 30) as usize,
        2 => 1 + sim::range("len.mid", 0, 600) as usize,
        _ => 4096 + sim::range("len.page", 0, 2) as usize,
    }
}

fn gen_op() -> Op {
    let slot = sim::range("slot", 0, SLOTS as u64 - 1) as usize;
    let name = || sim::choose("name", NAMES.len());
    let sub = || sim::flip("dir.sub", 1, 2);
    match sim::weighted("op", &[5, 2, 6, 3, 6, 3, 3, 2, 1, 2, 1, 2, 2, 2, 2, 2, 1, 1, 1, 1, 2, 2, 1, 1, 1, 1, 2, 1, 1, 1, 1]) {
        0 => {
            let write = sim::flip("open.write", 3, 4);
            Op::Open {
                slot,
                name: name(),
                read: sim::flip("open.read", 3, 4),
                write,
                // (without write access truncate is refused before any system call, as std refuses it)
                truncate: sim::flip("open.truncate", 1, 4) && (write || sim::flip("open.truncate.readonly", 1, 3)),
                create: sim::flip("open.create", 1, 2),
                create_new: sim::flip("open.create_new", 1, 8),
                append: write && sim::flip("open.append", 1, 6),
            }
        }
        1 => Op::Close { slot },
        2 => Op::WriteAt { slot, pos: pos(), len: len(), shape: sim::choose("w.shape", 4) as u8 },
        3 => {
            let n = 1 + sim::range("wv.segments", 0, 2) as usize;
            Op::WriteVectoredAt { slot, pos: pos(), lens: (0..n).map(|i| if i == 1 && sim::flip("wv.empty", 1, 2) { 0 } else { len().min(700) }).collect() }
        }
        4 => {
            let cap = len();
            Op::ReadAt { slot, pos: pos(), cap, init: if sim::flip("r.init", 1, 2) { sim::range("r.init.len", 0, cap as u64) as usize } else { 0 } }
        }
        5 => {
            let n = 1 + sim::range("rv.segments", 0, 2) as usize;
            let caps: Vec<usize> = (0..n).map(|i| if i == 1 && sim::flip("rv.empty", 1, 2) { 0 } else { len().min(700) }).collect();
            let preinit = sim::flip("rv.preinit", 1, 4);
            let inits = caps.iter().map(|c| if preinit && sim::flip("rv.init", 1, 2) { sim::range("rv.init.len", 0, *c as u64) as usize } else { 0 }).collect();
            Op::ReadVectoredAt { slot, pos: pos(), caps, inits }
        }
        6 => Op::ReadManagedAt { slot, pos: pos(), len: len().min(300) },
        7 => Op::SetLen { slot, size: pos().min(100_000) },
        8 => Op::Sync { slot, data: sim::flip("sync.data", 1, 2) },
        9 => Op::Metadata { slot },
        10 => Op::SetPermissions { slot, mode: [0o600, 0o644, 0o400, 0o666][sim::choose("mode", 4)] },
        11 => Op::PathWrite { name: name(), len: len() },
        12 => Op::PathRead { name: name() },
        13 => Op::Rename { from: name(), to: name() },
        14 => Op::RemoveFile { name: name() },
        15 => Op::CreateDir { name: name() },
        16 => Op::CreateDirAll { a: name(), b: name() },
        17 => Op::RemoveDir { name: name() },
        18 => Op::HardLink { from: name(), to: name() },
        19 => Op::Symlink { from: name(), to: name() },
        20 => Op::PathMetadata { name: name(), follow: sim::flip("meta.follow", 1, 2) },
        21 => Op::DirOpen { slot, sub: sub(), name: name(), how: sim::choose("dir.open.how", 4) as u8 },
        22 => Op::DirCreateDir { sub: sub(), name: name(), all: if sim::flip("dir.mkdir.all", 1, 2) { Some(name()) } else { None } },
        23 => Op::DirMetadata { sub: sub(), name: name(), follow: sim::flip("meta.follow", 1, 2) },
        24 => Op::DirHardLink { sub: sub(), from: name(), to_sub: sub(), to: name() },
        25 => Op::DirSymlink { sub: sub(), from: name(), to: name() },
        26 => Op::DirRename { sub: sub(), from: name(), to_sub: sub(), to: name() },
        27 => Op::DirRemove { sub: sub(), name: name(), dir: sim::flip("dir.remove.dir", 1, 3) },
        28 => Op::DirRead { sub: sub(), name: name() },
        29 => Op::DirWrite { sub: sub(), name: name(), len: len() },
        _ => Op::DirOpenDir { sub: sub(), name: name() },
    }
}

/// Error class: the errno, or for errors raised before any system call (std validates open options
/// itself) the errno of the same kind.
fn errno<T>(r: &std::io::Result<T>) -> Option<i32> {
    r.as_ref().err().map(|e| {
        e.raw_os_error().unwrap_or(match e.kind() {
            std::io::ErrorKind::InvalidInput => libc::EINVAL,
            _ => -1,
        })
    })
}

/// Compare the outcome classes (success, or the same errno) of the two sides.
fn same_outcome<A, B>(errs: &Errs, what: &str, ours: &std::io::Result<A>, os: &std::io::Result<B>) -> bool {
    let (a, b) = (errno(ours), errno(os));
    if a != b {
        errs.push("outcome", format!("{what}: compio {} but the OS call {}", describe(a), describe(b)));
        return false;
    }
    a.is_none()
}

fn describe(e: Option<i32>) -> String {
    match e {
        None => "succeeded".into(),
        Some(-1) => "failed without an OS error code".into(),
        Some(n) => format!("failed with errno {n} ({})", std::io::Error::from_raw_os_error(n)),
    }
}

struct Handle {
    ours: compio_fs::File,
    os: std::fs::File,
}

fn fs_model() -> RunResult {
    let mut cfg = simkernel::KConfig::draw();
    let ntasks = 1 + sim::range("tasks", 0, 2) as usize;
    let progs: Vec<Vec<Op>> = (0..ntasks).map(|_| (0..1 + sim::range("ops", 0, 11)).map(|_| gen_op()).collect()).collect();
    let fallbacks = sim::flip("fallbacks", 1, 2);
    if fallbacks {
        for c in FILE_OPCODES {
            if sim::flip("op.unsupported", 1, 4) {
                cfg.unsupported.push(c);
            }
        }
    }
    let capacity = 1u32 << sim::range("ring.capacity.log2", 0, 4);
    let pool_len = 16 + sim::range("bufpool.len", 0, 240) as usize;
    sim::log(|| format!("ring capacity {capacity}, pool buffers of {pool_len}; {cfg:?}"));
    for (t, p) in progs.iter().enumerate() {
        sim::log(|| format!("task {t}: {p:?}"));
    }
    static N: std::sync::atomic::AtomicU64 = std::sync::atomic::AtomicU64::new(0);
    let root = std::env::temp_dir().join(format!("verif-k-fs-{}-{}", std::process::id(), N.fetch_add(1, std::sync::atomic::Ordering::Relaxed)));
    let _ = std::fs::remove_dir_all(&root);
    for t in 0..ntasks {
        std::fs::create_dir_all(root.join("a").join(format!("t{t}")).join("sub")).expect("scratch tree");
        std::fs::create_dir_all(root.join("b").join(format!("t{t}")).join("sub")).expect("scratch tree");
    }
    let errs = Errs::default();
    let payload_seed = sim::subseed("payload");
    let r = run_on_kernel(cfg, {
        let (errs, progs, root) = (errs.clone(), progs.clone(), root.clone());
        move || {
            let mut pb = ProactorBuilder::new();
            pb.capacity(capacity).buffer_pool_size(std::num::NonZero::new(4).unwrap()).buffer_pool_buffer_len(pool_len);
            draw_driver(&mut pb);
            let rt = compio_runtime::Runtime::builder().with_proactor(pb).build().expect("runtime");
            rt.block_on(async move {
                let mut tasks = Vec::new();
                for (t, prog) in progs.into_iter().enumerate() {
                    let errs = errs.clone();
                    let (da, db) = (root.join("a").join(format!("t{t}")), root.join("b").join(format!("t{t}")));
                    tasks.push(compio_runtime::spawn(async move {
                        let mut slots: Vec<Option<Handle>> = (0..SLOTS).map(|_| None).collect();
                        for (k, op) in prog.into_iter().enumerate() {
                            let seed = payload_seed ^ ((t as u64) << 32) ^ k as u64;
                            step(&errs, &da, &db, &mut slots, op, seed, pool_len, t, k).await;
                            if errs.first().is_err() {
                                break;
                            }
                        }
                        for h in slots.into_iter().flatten() {
                            let r = h.ours.close().await;
                            if let Err(e) = r {
                                errs.push("outcome", format!("task {t}: close failed: {e}"));
                            }
                        }
                    }));
                }
                for (i, t) in tasks.into_iter().enumerate() {
                    if let Err(e) = t.await {
                        let msg = match e {
                            compio_runtime::JoinError::Panicked(p) => p.downcast_ref::<String>().cloned().or_else(|| p.downcast_ref::<&str>().map(|s| s.to_string())).unwrap_or_default(),
                            _ => "cancelled".to_string(),
                        };
                        errs.push("task-panicked", format!("task {i} did not run to its end: {msg}"));
                    }
                }
            });
        }
    });
    let verdict = (|| {
        let end = r?;
        errs.first()?;
        compare_trees(&root.join("a"), &root.join("b"))?;
        check!(end.open_rings == 0, "ring-leak", "{} rings still open", end.open_rings);
        Ok(())
    })();
    let _ = std::fs::remove_dir_all(&root);
    verdict
}

#[allow(clippy::too_many_arguments)]
async fn step(errs: &Errs, da: &Path, db: &Path, slots: &mut [Option<Handle>], op: Op, seed: u64, pool_len: usize, t: usize, k: usize) {
    let tag = format!("task {t} step {k} {op:?}");
    let pa = |n: usize| da.join(NAMES[n]);
    let pb = |n: usize| db.join(NAMES[n]);
    // a handle operation on an empty slot is skipped
    let need = |slots: &[Option<Handle>], s: usize| slots[s].is_some();
    match op {
        Op::Open { slot, name, read, write, truncate, create, create_new, append } => {
            if let Some(h) = slots[slot].take() {
                let _ = h.ours.close().await;
            }
            let mut oo = compio_fs::OpenOptions::new();
            oo.read(read).write(write).truncate(truncate).create(create).create_new(create_new);
            let mut so = std::fs::OpenOptions::new();
            so.read(read).write(write).truncate(truncate).create(create).create_new(create_new);
            if append {
                oo.custom_flags(libc::O_APPEND);
                so.custom_flags(libc::O_APPEND);
            }
            let ours = oo.open(pa(name)).await;
            let os = so.open(pb(name));
            if same_outcome(errs, &tag, &ours, &os) {
                slots[slot] = Some(Handle { ours: ours.unwrap(), os: os.unwrap() });
            }
        }
        Op::Close { slot } => {
            if let Some(h) = slots[slot].take() {
                if let Err(e) = h.ours.close().await {
                    errs.push("outcome", format!("{tag}: close failed: {e}"));
                }
            }
        }
        Op::WriteAt { slot, pos, len, shape } if need(slots, slot) => {
            let h = slots[slot].as_mut().unwrap();
            let data = sim::payload(seed, len);
            let os = h.os.write_at(&data, pos);
            let ours: std::io::Result<usize> = match shape {
                0 => h.ours.write_at(data.clone(), pos).await.0,
                1 => {
                    let mut v = Vec::with_capacity(len + 100);
                    v.extend_from_slice(&data);
                    let BufResult(r, back) = h.ours.write_at(v, pos).await;
                    if back != data {
                        errs.push("buffer", format!("{tag}: the buffer came back changed"));
                    }
                    r
                }
                2 => h.ours.write_at(data.clone().into_boxed_slice(), pos).await.0,
                _ => {
                    // a sub-range of a larger buffer
                    let mut v = vec![0xAAu8; 7];
                    v.extend_from_slice(&data);
                    v.extend_from_slice(&[0xBB; 5]);
                    h.ours.write_at(v.slice(7..7 + len), pos).await.0
                }
            };
            if same_outcome(errs, &tag, &ours, &os) && ours.as_ref().unwrap() != os.as_ref().unwrap() {
                errs.push("count", format!("{tag}: compio wrote {} bytes, the OS call {}", ours.unwrap(), os.unwrap()));
            }
        }
        Op::WriteVectoredAt { slot, pos, lens } if need(slots, slot) => {
            let h = slots[slot].as_mut().unwrap();
            let bufs: Vec<Vec<u8>> = lens.iter().enumerate().map(|(i, l)| sim::payload(seed ^ (i as u64 + 1) << 20, *l)).collect();
            let iov: Vec<libc::iovec> = bufs.iter().map(|b| libc::iovec { iov_base: b.as_ptr() as *mut _, iov_len: b.len() }).collect();
            let n = unsafe { libc::pwritev(h.os.as_raw_fd(), iov.as_ptr(), iov.len() as i32, pos as i64) };
            let os = if n < 0 { Err(std::io::Error::last_os_error()) } else { Ok(n as usize) };
            let ours = h.ours.write_vectored_at(bufs.clone(), pos).await.0;
            if same_outcome(errs, &tag, &ours, &os) && ours.as_ref().unwrap() != os.as_ref().unwrap() {
                errs.push("count", format!("{tag}: compio wrote {} bytes, the OS call {}", ours.unwrap(), os.unwrap()));
            }
        }
        Op::ReadAt { slot, pos, cap, init } if need(slots, slot) => {
            let h = slots[slot].as_mut().unwrap();
            let mut tmp = vec![0u8; cap];
            let os = h.os.read_at(&mut tmp, pos);
            let mut buf = Vec::with_capacity(cap);
            buf.resize(init, 0xEE);
            let want_cap = buf.capacity();
            let ptr = buf.as_ptr();
            // Vec may round the capacity up: the OS side must be offered as much
            if want_cap != cap {
                tmp = vec![0u8; want_cap];
            }
            let os = if want_cap != cap { h.os.read_at(&mut tmp, pos) } else { os };
            let BufResult(ours, buf) = h.ours.read_at(buf, pos).await;
            if buf.as_ptr() != ptr || buf.capacity() != want_cap {
                errs.push("buffer", format!("{tag}: a different buffer came back"));
            }
            if same_outcome(errs, &tag, &ours, &os) {
                let (n, m) = (ours.unwrap(), os.unwrap());
                if n != m {
                    errs.push("count", format!("{tag}: compio read {n} bytes, the OS call {m}"));
                } else if buf.len() != init.max(n) {
                    errs.push("buffer", format!("{tag}: {n} bytes read into a buffer of length {init}: length is now {}", buf.len()));
                } else if buf[..n] != tmp[..n] {
                    errs.push("content", format!("{tag}: bytes differ from what the OS call read: {}", first_diff(&buf[..n], &tmp[..n])));
                } else if buf[n..].iter().any(|b| *b != 0xEE) {
                    errs.push("buffer", format!("{tag}: bytes beyond the {n} read ones were modified"));
                }
            }
        }
        Op::ReadVectoredAt { slot, pos, caps, inits } if need(slots, slot) => {
            let h = slots[slot].as_mut().unwrap();
            let bufs: Vec<Vec<u8>> = (0..caps.len())
                .map(|i| {
                    let mut b = Vec::with_capacity(caps[i]);
                    b.resize(inits[i], 0xEE);
                    b
                })
                .collect();
            let real_caps: Vec<usize> = bufs.iter().map(|b| b.capacity()).collect();
            let mut tmps: Vec<Vec<u8>> = real_caps.iter().map(|c| vec![0u8; *c]).collect();
            let iov: Vec<libc::iovec> = tmps.iter_mut().map(|b| libc::iovec { iov_base: b.as_mut_ptr() as *mut _, iov_len: b.len() }).collect();
            let n = unsafe { libc::preadv(h.os.as_raw_fd(), iov.as_ptr(), iov.len() as i32, pos as i64) };
            let os = if n < 0 { Err(std::io::Error::last_os_error()) } else { Ok(n as usize) };
            let BufResult(ours, bufs) = h.ours.read_vectored_at(bufs, pos).await;
            if same_outcome(errs, &tag, &ours, &os) {
                let (n, m) = (ours.unwrap(), os.unwrap());
                if n != m {
                    errs.push("count", format!("{tag}: compio read {n} bytes, the OS call {m}"));
                } else {
                    let mut left = n;
                    for i in 0..real_caps.len() {
                        let fill = left.min(real_caps[i]);
                        left -= fill;
                        if bufs[i].len() != inits[i].max(fill) {
                            // kept apart: with fresh buffers the lengths are right, see known_findings.txt
                            let oracle = if inits.iter().any(|l| *l > 0) { "vectored-preinit-length" } else { "buffer" };
                            errs.push(oracle, format!("{tag}: buffer {i} (capacity {}, length {}) received {fill} bytes: length is now {}", real_caps[i], inits[i], bufs[i].len()));
                        } else if bufs[i][..fill] != tmps[i][..fill] {
                            errs.push("content", format!("{tag}: buffer {i} differs from what the OS call read: {}", first_diff(&bufs[i][..fill], &tmps[i][..fill])));
                        } else if bufs[i][fill..].iter().any(|b| *b != 0xEE) {
                            errs.push("buffer", format!("{tag}: buffer {i}: bytes beyond the {fill} read ones were modified"));
                        }
                    }
                }
            }
        }
        Op::ReadManagedAt { slot, pos, len } if need(slots, slot) => {
            let h = slots[slot].as_mut().unwrap();
            let cap = if len == 0 { pool_len } else { len.min(pool_len) };
            let mut tmp = vec![0u8; cap];
            let os = h.os.read_at(&mut tmp, pos);
            let ours = h.ours.read_managed_at(len, pos).await;
            if same_outcome(errs, &tag, &ours, &os) {
                let m = os.unwrap();
                match ours.unwrap() {
                    None if m == 0 => {}
                    None => errs.push("count", format!("{tag}: compio reported end of file, the OS call read {m} bytes")),
                    Some(b) => {
                        if b.len() != m {
                            errs.push("count", format!("{tag}: compio read {} bytes, the OS call {m}", b.len()));
                        } else if b[..] != tmp[..m] {
                            errs.push("content", format!("{tag}: bytes differ from what the OS call read: {}", first_diff(&b, &tmp[..m])));
                        }
                    }
                }
            }
        }
        Op::SetLen { slot, size } if need(slots, slot) => {
            let h = slots[slot].as_mut().unwrap();
            let ours = h.ours.set_len(size).await;
            let os = h.os.set_len(size);
            same_outcome(errs, &tag, &ours, &os);
        }
        Op::Sync { slot, data } if need(slots, slot) => {
            let h = slots[slot].as_mut().unwrap();
            let ours = if data { h.ours.sync_data().await } else { h.ours.sync_all().await };
            let os = if data { h.os.sync_data() } else { h.os.sync_all() };
            same_outcome(errs, &tag, &ours, &os);
        }
        Op::Metadata { slot } if need(slots, slot) => {
            let h = slots[slot].as_mut().unwrap();
            stamp(h.ours.as_raw_fd(), None, true, seed);
            let ours = h.ours.metadata().await;
            let os = h.os.metadata();
            if same_outcome(errs, &tag, &ours, &os) {
                compare_meta(errs, &tag, ours.as_ref().unwrap(), &os.unwrap());
                // the time stamps: against the OS's own view of the very same open file
                let same = std::mem::ManuallyDrop::new(unsafe { <std::fs::File as std::os::fd::FromRawFd>::from_raw_fd(h.ours.as_raw_fd()) });
                if let Ok(same) = same.metadata() {
                    compare_times(errs, &tag, &ours.unwrap(), &same);
                }
            }
        }
        Op::SetPermissions { slot, mode } if need(slots, slot) => {
            let h = slots[slot].as_mut().unwrap();
            let ours = h.ours.set_permissions(compio_fs::Permissions::from_mode(mode)).await;
            let os = h.os.set_permissions(std::fs::Permissions::from_mode(mode));
            same_outcome(errs, &tag, &ours, &os);
        }
        Op::PathWrite { name, len } => {
            let data = sim::payload(seed, len);
            let ours = compio_fs::write(pa(name), data.clone()).await.0;
            let os = std::fs::write(pb(name), &data);
            same_outcome(errs, &tag, &ours, &os);
        }
        Op::PathRead { name } => {
            // whole-file reads of the sparse multi-gigabyte files some programs create are skipped
            if std::fs::metadata(pb(name)).map(|m| m.len() > 1 << 20).unwrap_or(false) {
                return;
            }
            let ours = compio_fs::read(pa(name)).await;
            let os = std::fs::read(pb(name));
            if same_outcome(errs, &tag, &ours, &os) {
                let (a, b) = (ours.unwrap(), os.unwrap());
                if a != b {
                    errs.push("content", format!("{tag}: compio read {} bytes, std {}: {}", a.len(), b.len(), first_diff(&a, &b)));
                }
            }
        }
        Op::Rename { from, to } => {
            let ours = compio_fs::rename(pa(from), pa(to)).await;
            let os = std::fs::rename(pb(from), pb(to));
            same_outcome(errs, &tag, &ours, &os);
        }
        Op::RemoveFile { name } => {
            let ours = compio_fs::remove_file(pa(name)).await;
            let os = std::fs::remove_file(pb(name));
            same_outcome(errs, &tag, &ours, &os);
        }
        Op::CreateDir { name } => {
            let ours = compio_fs::create_dir(pa(name)).await;
            let os = std::fs::create_dir(pb(name));
            same_outcome(errs, &tag, &ours, &os);
        }
        Op::CreateDirAll { a, b } => {
            let ours = compio_fs::create_dir_all(pa(a).join(NAMES[b])).await;
            let os = std::fs::create_dir_all(pb(a).join(NAMES[b]));
            same_outcome(errs, &tag, &ours, &os);
        }
        Op::RemoveDir { name } => {
            let ours = compio_fs::remove_dir(pa(name)).await;
            let os = std::fs::remove_dir(pb(name));
            same_outcome(errs, &tag, &ours, &os);
        }
        Op::HardLink { from, to } => {
            let ours = compio_fs::hard_link(pa(from), pa(to)).await;
            let os = std::fs::hard_link(pb(from), pb(to));
            same_outcome(errs, &tag, &ours, &os);
        }
        Op::Symlink { from, to } => {
            // relative target, so that the two trees stay comparable
            let ours = compio_fs::symlink(NAMES[from], pa(to)).await;
            let os = std::os::unix::fs::symlink(NAMES[from], pb(to));
            same_outcome(errs, &tag, &ours, &os);
        }
        Op::DirOpen { .. } | Op::DirCreateDir { .. } | Op::DirMetadata { .. } | Op::DirHardLink { .. } | Op::DirSymlink { .. } | Op::DirRename { .. } | Op::DirRemove { .. } | Op::DirRead { .. } | Op::DirWrite { .. } | Op::DirOpenDir { .. } => {
            dir_step(errs, da, db, slots, op, seed, &tag).await;
        }
        Op::PathMetadata { name, follow } => {
            stamp(-1, Some(&pa(name)), follow, seed);
            let ours = if follow { compio_fs::metadata(pa(name)).await } else { compio_fs::symlink_metadata(pa(name)).await };
            let os = if follow { std::fs::metadata(pb(name)) } else { std::fs::symlink_metadata(pb(name)) };
            if same_outcome(errs, &tag, &ours, &os) {
                compare_meta(errs, &tag, ours.as_ref().unwrap(), &os.unwrap());
                let same = if follow { std::fs::metadata(pa(name)) } else { std::fs::symlink_metadata(pa(name)) };
                if let Ok(same) = same {
                    compare_times(errs, &tag, &ours.unwrap(), &same);
                }
            }
        }
        _ => {}
    }
}

/// Operations through directory handles: names relative to a `Dir` on the compio side, the same absolute
/// paths through std on the twin tree.
async fn dir_step(errs: &Errs, da: &Path, db: &Path, slots: &mut [Option<Handle>], op: Op, seed: u64, tag: &str) {
    let (Ok(top), Ok(below)) = (compio_fs::Dir::open(da).await, compio_fs::Dir::open(da.join("sub")).await) else {
        errs.push("outcome", format!("{tag}: the task's directories could not be opened as Dir handles"));
        return;
    };
    sim::probe("dir-handle-op");
    let dir = |sub: bool| if sub { &below } else { &top };
    let pb = |sub: bool, n: usize| if sub { db.join("sub").join(NAMES[n]) } else { db.join(NAMES[n]) };
    match op {
        Op::DirOpen { slot, sub, name, how } => {
            if let Some(h) = slots[slot].take() {
                let _ = h.ours.close().await;
            }
            let (ours, os) = match how {
                0 => (dir(sub).open_file(NAMES[name]).await, std::fs::File::open(pb(sub, name))),
                1 => (dir(sub).create_file(NAMES[name]).await, std::fs::File::create(pb(sub, name))),
                2 => {
                    let mut oo = compio_fs::OpenOptions::new();
                    oo.read(true).write(true).create(true);
                    (dir(sub).open_file_with(NAMES[name], &oo).await, std::fs::OpenOptions::new().read(true).write(true).create(true).open(pb(sub, name)))
                }
                _ => {
                    let mut oo = compio_fs::OpenOptions::new();
                    oo.write(true).create_new(true);
                    (dir(sub).open_file_with(NAMES[name], &oo).await, std::fs::OpenOptions::new().write(true).create_new(true).open(pb(sub, name)))
                }
            };
            if same_outcome(errs, tag, &ours, &os) {
                slots[slot] = Some(Handle { ours: ours.unwrap(), os: os.unwrap() });
            }
        }
        Op::DirCreateDir { sub, name, all } => match all {
            None => {
                let ours = dir(sub).create_dir(NAMES[name]).await;
                let os = std::fs::create_dir(pb(sub, name));
                same_outcome(errs, tag, &ours, &os);
            }
            Some(b) => {
                let ours = dir(sub).create_dir_all(Path::new(NAMES[name]).join(NAMES[b])).await;
                let os = std::fs::create_dir_all(pb(sub, name).join(NAMES[b]));
                same_outcome(errs, tag, &ours, &os);
            }
        },
        Op::DirMetadata { sub, name, follow } => {
            stamp(-1, Some(&if sub { da.join("sub").join(NAMES[name]) } else { da.join(NAMES[name]) }), follow, seed);
            let ours = if follow { dir(sub).metadata(NAMES[name]).await } else { dir(sub).symlink_metadata(NAMES[name]).await };
            let os = if follow { std::fs::metadata(pb(sub, name)) } else { std::fs::symlink_metadata(pb(sub, name)) };
            if same_outcome(errs, tag, &ours, &os) {
                compare_meta(errs, tag, ours.as_ref().unwrap(), &os.unwrap());
                let pa = if sub { da.join("sub").join(NAMES[name]) } else { da.join(NAMES[name]) };
                if let Ok(same) = if follow { std::fs::metadata(&pa) } else { std::fs::symlink_metadata(&pa) } {
                    compare_times(errs, tag, &ours.unwrap(), &same);
                }
            }
        }
        Op::DirHardLink { sub, from, to_sub, to } => {
            let ours = dir(sub).hard_link(NAMES[from], dir(to_sub), NAMES[to]).await;
            let os = std::fs::hard_link(pb(sub, from), pb(to_sub, to));
            same_outcome(errs, tag, &ours, &os);
        }
        Op::DirSymlink { sub, from, to } => {
            let ours = dir(sub).symlink(NAMES[from], NAMES[to]).await;
            let os = std::os::unix::fs::symlink(NAMES[from], pb(sub, to));
            same_outcome(errs, tag, &ours, &os);
        }
        Op::DirRename { sub, from, to_sub, to } => {
            let ours = dir(sub).rename(NAMES[from], dir(to_sub), NAMES[to]).await;
            let os = std::fs::rename(pb(sub, from), pb(to_sub, to));
            same_outcome(errs, tag, &ours, &os);
        }
        Op::DirRemove { sub, name, dir: is_dir } => {
            let ours = if is_dir { dir(sub).remove_dir(NAMES[name]).await } else { dir(sub).remove_file(NAMES[name]).await };
            let os = if is_dir { std::fs::remove_dir(pb(sub, name)) } else { std::fs::remove_file(pb(sub, name)) };
            same_outcome(errs, tag, &ours, &os);
        }
        Op::DirRead { sub, name } => {
            if std::fs::metadata(pb(sub, name)).map(|m| m.len() > 1 << 20).unwrap_or(false) {
                return;
            }
            let ours = dir(sub).read(NAMES[name]).await;
            let os = std::fs::read(pb(sub, name));
            if same_outcome(errs, tag, &ours, &os) {
                let (a, b) = (ours.unwrap(), os.unwrap());
                if a != b {
                    errs.push("content", format!("{tag}: compio read {} bytes, std {}: {}", a.len(), b.len(), first_diff(&a, &b)));
                }
            }
        }
        Op::DirWrite { sub, name, len } => {
            let data = sim::payload(seed, len);
            let ours = dir(sub).write(NAMES[name], data.clone()).await.0;
            let os = std::fs::write(pb(sub, name), &data);
            same_outcome(errs, tag, &ours, &os);
        }
        Op::DirOpenDir { sub, name } => {
            let ours = dir(sub).open_dir(NAMES[name]).await;
            // what std does to open a directory for reading its entries
            let os = std::fs::OpenOptions::new().read(true).custom_flags(libc::O_DIRECTORY).open(pb(sub, name));
            if same_outcome(errs, tag, &ours, &os) {
                let (ours, os) = (ours.unwrap().dir_metadata().await, os.unwrap().metadata());
                if same_outcome(errs, tag, &ours, &os) {
                    compare_meta(errs, tag, &ours.unwrap(), &os.unwrap());
                }
            }
        }
        _ => {}
    }
}

fn compare_meta(errs: &Errs, tag: &str, ours: &compio_fs::Metadata, os: &std::fs::Metadata) {
    let a = (ours.is_file(), ours.is_dir(), ours.is_symlink(), if ours.is_dir() { 0 } else { ours.len() }, ours.permissions().mode() & 0o7777);
    let b = (os.is_file(), os.is_dir(), os.is_symlink(), if os.is_dir() { 0 } else { os.len() }, os.permissions().mode() & 0o7777);
    if a != b {
        errs.push("metadata", format!("{tag}: compio reports (file, dir, symlink, len, mode) = {a:?}, the OS {b:?}"));
    }
}

/// Give an object access and modification times that are a function of the run (different seconds and
/// sub-second parts), so that what the metadata calls report does not depend on when the run happens.
fn stamp(fd: i32, path: Option<&Path>, follow: bool, seed: u64) {
    let ts = |k: u64| libc::timespec { tv_sec: 1_600_000_000 + (seed >> (8 * k) & 0xffff) as i64, tv_nsec: ((seed >> (16 + 4 * k)) % 1_000_000_000) as i64 };
    let times = [ts(0), ts(1)];
    unsafe {
        match path {
            Some(p) => {
                let c = std::ffi::CString::new(std::os::unix::ffi::OsStrExt::as_bytes(p.as_os_str())).unwrap();
                libc::utimensat(libc::AT_FDCWD, c.as_ptr(), times.as_ptr(), if follow { 0 } else { libc::AT_SYMLINK_NOFOLLOW });
            }
            None => {
                libc::futimens(fd, times.as_ptr());
            }
        }
    }
}

/// Time stamps of one object as compio reports them and as the OS's own call on the same object does
/// (nothing touches the object between the two).
fn compare_times(errs: &Errs, tag: &str, ours: &compio_fs::Metadata, same: &std::fs::Metadata) {
    let a = (ours.modified().ok(), ours.accessed().ok(), ours.created().ok());
    let b = (same.modified().ok(), same.accessed().ok(), same.created().ok());
    if a != b {
        errs.push("metadata-times", format!("{tag}: compio reports (modified, accessed, created) = {a:?}, the OS for the same object {b:?}"));
    }
    sim::probe(if b.0 != b.1 { "times-compared-atime-differs" } else { "times-compared" });
}

fn listing(root: &Path) -> std::io::Result<Vec<(PathBuf, String)>> {
    let mut out = Vec::new();
    let mut stack = vec![root.to_path_buf()];
    while let Some(d) = stack.pop() {
        let mut names: Vec<_> = std::fs::read_dir(&d)?.collect::<Result<Vec<_>, _>>()?;
        names.sort_by_key(|e| e.file_name());
        for e in names {
            let p = e.path();
            let rel = p.strip_prefix(root).unwrap().to_path_buf();
            let m = std::fs::symlink_metadata(&p)?;
            let desc = if m.is_symlink() {
                format!("symlink -> {:?}", std::fs::read_link(&p)?)
            } else if m.is_dir() {
                stack.push(p.clone());
                format!("dir mode {:o}", m.mode() & 0o7777)
            } else {
                format!("file mode {:o} nlink {} len {} digest {:016x}", m.mode() & 0o7777, m.nlink(), m.len(), sparse_digest(&p)?)
            };
            out.push((rel, desc));
        }
    }
    out.sort();
    Ok(out)
}

/// Digest of a file's logical content that never reads holes: the non-zero 4 KiB blocks of its data
/// extents with their offsets (files here can be sparse and larger than 8 GiB).
fn sparse_digest(p: &Path) -> std::io::Result<u64> {
    let f = std::fs::File::open(p)?;
    let fd = f.as_raw_fd();
    let len = f.metadata()?.len() as i64;
    let mut h = 0xcbf29ce484222325u64;
    let mut off = 0i64;
    let mut block = vec![0u8; 4096];
    while off < len {
        let data = unsafe { libc::lseek(fd, off, libc::SEEK_DATA) };
        if data < 0 {
            break;
        }
        let hole = unsafe { libc::lseek(fd, data, libc::SEEK_HOLE) };
        let end = if hole < 0 { len } else { hole.min(len) };
        let mut at = data - data % 4096;
        while at < end {
            let n = f.read_at(&mut block, at as u64)?;
            if n == 0 {
                break;
            }
            if block[..n].iter().any(|b| *b != 0) {
                h = (h ^ at as u64).wrapping_mul(0x100000001b3);
                h = (h ^ sim::fnv_bytes(&block[..n])).wrapping_mul(0x100000001b3);
            }
            at += 4096;
        }
        off = end.max(data + 1);
    }
    Ok(h)
}

fn compare_trees(a: &Path, b: &Path) -> RunResult {
    let la = listing(a).map_err(|e| simcore::Violation::new("harness", format!("listing failed: {e}")))?;
    let lb = listing(b).map_err(|e| simcore::Violation::new("harness", format!("listing failed: {e}")))?;
    if la != lb {
        let only_a: Vec<_> = la.iter().filter(|x| !lb.contains(x)).collect();
        let only_b: Vec<_> = lb.iter().filter(|x| !la.contains(x)).collect();
        let d = format!("only through compio: {only_a:?}; only through the OS calls: {only_b:?}");
        simcore::violation!("tree-differs", "the tree written through compio differs from the one written through the OS calls: {d}");
    }
    Ok(())
}
