//! C05 — cancellation is prompt, honest and local.
//!
//! Victims are interruptible operations whose awaited event never happens (or happens at a chosen
//! simulated instant): recv on a silent Unix socket (several on the same descriptor), read on a silent
//! pipe, accept on a listener nobody connects to, a multishot receive stream. Each is cancelled by one
//! route — task drop, cancel token (also registered after it fired, also fail-fast), timeout — or not at
//! all (a neighbour, which must still get exactly its own data).

use std::{
    cell::RefCell,
    io::Write,
    os::fd::AsRawFd,
    rc::Rc,
    time::{Duration, Instant},
};

use compio_buf::BufResult;
use compio_driver::{ErrorExt, ProactorBuilder};
use compio_io::{AsyncRead, AsyncReadMulti};
use compio_runtime::{CancelToken, FutureExt as _, time::sleep};
use futures_util::StreamExt;
use simcore::{self as sim, RunResult, check, worker::Scenario};

use crate::kutil::*;

pub fn scenarios() -> Vec<Scenario> {
    vec![Scenario {
        name: "cancel",
        property: "C05",
        engine: "K",
        run: cancel,
        weight: 1,
    }]
}

#[derive(Clone, Copy, Debug, PartialEq)]
enum Kind {
    UnixRecv,
    PipeRead,
    Accept,
    Multi,
    /// a readiness wait (`PollFd::read_ready`): completes when the peer has written, consumes nothing
    Poll,
}

#[derive(Clone, Copy, Debug, PartialEq)]
enum Route {
    None,
    Drop(u64),
    Token { at: u64, late: bool },
    FailFast(u64),
    Timeout(u64),
    /// the task that issued the operation polls it once, does something else for a while, fires the token
    /// itself and then awaits the operation: an operation that completed meanwhile keeps its result
    SelfCancel(u64),
}

#[derive(Clone, Debug)]
struct Victim {
    kind: Kind,
    /// share the descriptor of the previous victim (UnixRecv only)
    share_prev: bool,
    route: Route,
    /// the awaited event: (at µs, bytes); None = never
    data: Option<(u64, usize)>,
    /// reads that complete under the same token before the pending one (their registrations stay in
    /// the token's registry)
    warmups: usize,
    /// use the previous victim's token (fired by that victim's controller)
    share_token: bool,
    /// another combinator (`with_personality`) sits between the operation and `with_cancel`: the token still
    /// has to reach the operation
    wrapped: bool,
}

fn gen_prog() -> Vec<Victim> {
    let n = 1 + sim::range("victims", 0, 4) as usize;
    let mut v: Vec<Victim> = Vec::new();
    for i in 0..n {
        let kind = match sim::choose("victim.kind", 5) {
            0 => Kind::UnixRecv,
            1 => Kind::PipeRead,
            2 => Kind::Accept,
            3 => Kind::Multi,
            _ => Kind::Poll,
        };
        // (a victim with warm-up bytes may leave some of them in its socket: nobody shares that one)
        let share_prev = kind == Kind::UnixRecv && i > 0 && v[i - 1].kind == Kind::UnixRecv && v[i - 1].warmups == 0 && sim::flip("victim.share", 1, 2);
        let t = |k: &'static str| 1 + sim::range(k, 0, 40);
        let route = match sim::choose("victim.route", 7) {
            0 => Route::None,
            1 => Route::Drop(t("route.at")),
            2 => Route::Token { at: t("route.at"), late: false },
            3 => Route::Token { at: t("route.at"), late: true },
            4 => Route::FailFast(t("route.at")),
            5 => Route::Timeout(t("route.at")),
            _ if !share_prev => Route::SelfCancel(t("route.at")),
            _ => Route::Timeout(t("route.at")),
        };
        // neighbours always get their event (late); cancelled ones mostly never, sometimes around the cancel
        // bytes on a shared descriptor go to whichever receive is oldest: keep them attributable by
        // allowing one neighbour per descriptor and no data race for the cancelled ones on it
        let group_has_neighbour = share_prev && {
            let mut j = i;
            let mut found = false;
            loop {
                j -= 1;
                found |= v[j].route == Route::None;
                if !v[j].share_prev || j == 0 {
                    break;
                }
            }
            found
        };
        let route = if group_has_neighbour && route == Route::None { Route::Token { at: t("route.at"), late: false } } else { route };
        let shared = share_prev || kind == Kind::UnixRecv;
        let data = match route {
            Route::None => Some((60 + sim::range("data.at", 0, 20), 1 + sim::range("data.len", 0, 40) as usize)),
            _ if !shared && sim::flip("data.race", 1, 4) => {
                // around the cancel, now and then at the very instant of it (the operation has completed in the
                // driver and its future has not been polled yet when the token fires)
                let cancel_at = match route {
                    Route::Drop(at) | Route::Token { at, .. } | Route::FailFast(at) | Route::Timeout(at) | Route::SelfCancel(at) => at,
                    Route::None => 0,
                };
                let at = if cancel_at > 0 && sim::flip("data.at.the.cancel", 1, 2) { cancel_at } else { t("data.at") };
                Some((at, 1 + sim::range("data.len", 0, 40) as usize))
            }
            _ => None,
        };
        let token_route = matches!(route, Route::Token { late: false, .. } | Route::FailFast(_));
        let warmups = if token_route && !share_prev && matches!(kind, Kind::UnixRecv | Kind::PipeRead) { sim::range("victim.warmups", 0, 3) as usize } else { 0 };
        let (route, share_token) = match (i.checked_sub(1).map(|j| v[j].route), route) {
            (Some(Route::Token { at, late: false }), Route::Token { late: false, .. }) if sim::flip("victim.share_token", 1, 2) => (Route::Token { at, late: false }, true),
            _ => (route, false),
        };
        let wrapped = sim::flip("victim.wrapped", 1, 4);
        v.push(Victim { kind, share_prev, route, data, warmups, share_token, wrapped });
    }
    v
}

#[derive(Debug)]
enum Outcome {
    Data(Vec<u8>),
    Accepted,
    /// the readiness wait reported readiness
    Ready,
    Cancelled,
    Elapsed,
    Other(String),
}

struct Report {
    outcome: Outcome,
    finished_at: Instant,
}

const SLACK: Duration = Duration::from_micros(300);

fn cancel() -> RunResult {
    let cfg = simkernel::KConfig::draw();
    let prog = gen_prog();
    let capacity = 1u32 << sim::range("ring.capacity.log2", 0, 4);
    let payloads: Vec<Vec<u8>> = prog.iter().map(|v| sim::payload(sim::subseed("payload"), v.data.map(|d| d.1).unwrap_or(0))).collect();
    sim::log(|| format!("ring capacity {capacity}; {cfg:?}"));
    sim::log(|| format!("{prog:?}"));
    let errs = Errs::default();
    let reports: Rc<RefCell<Vec<Option<Report>>>> = Rc::new(RefCell::new((0..prog.len()).map(|_| None).collect()));
    let t0: Rc<RefCell<Option<Instant>>> = Rc::default();
    let pending: Rc<RefCell<Vec<(u64, u8, i32)>>> = Rc::default();
    let end = run_on_kernel(cfg, {
        let (errs, prog, reports, payloads, t0, pending) = (errs.clone(), prog.clone(), reports.clone(), payloads.clone(), t0.clone(), pending.clone());
        move || {
            let mut pb = ProactorBuilder::new();
            pb.capacity(capacity);
            draw_driver(&mut pb);
            let rt = compio_runtime::Runtime::builder().with_proactor(pb).build().expect("runtime");
            rt.block_on(async {
                let start = Instant::now();
                *t0.borrow_mut() = Some(start);
                let mut handles = Vec::new();
                let mut controllers = Vec::new();
                let mut prev_sock: Option<Rc<compio_net::UnixStream>> = None;
                let mut prev_peer: Option<Rc<RefCell<std::os::unix::net::UnixStream>>> = None;
                // silent peers and accepted-from clients stay open until the run is over
                let keep: Rc<RefCell<Vec<Box<dyn std::any::Any>>>> = Rc::default();
                let mut prev_token: Option<CancelToken> = None;
                for (i, v) in prog.iter().cloned().enumerate() {
                    let token = match (&prev_token, v.share_token) {
                        (Some(t), true) => t.clone(),
                        _ => CancelToken::new(),
                    };
                    prev_token = Some(token.clone());
                    let data = payloads[i].clone();
                    // ---- the resource and its peer action
                    enum Res {
                        Unix(Rc<compio_net::UnixStream>),
                        Pipe(compio_fs::pipe::Receiver),
                        Listener(compio_net::UnixListener),
                        Poll(compio_runtime::fd::PollFd<std::os::unix::net::UnixStream>),
                    }
                    let res = match v.kind {
                        Kind::UnixRecv | Kind::Multi => {
                            let (sock, peer) = if v.share_prev && prev_sock.is_some() {
                                (prev_sock.clone().unwrap(), prev_peer.clone().unwrap())
                            } else {
                                let (a, b) = std::os::unix::net::UnixStream::pair().expect("socketpair");
                                (Rc::new(compio_net::UnixStream::from_std(a).expect("from_std")), Rc::new(RefCell::new(b)))
                            };
                            if v.kind == Kind::UnixRecv {
                                prev_sock = Some(sock.clone());
                                prev_peer = Some(peer.clone());
                            }
                            if v.warmups > 0 {
                                let _ = peer.borrow_mut().write_all(&vec![0x57u8; v.warmups]);
                            }
                            if let Some((at, _)) = v.data {
                                let d = data.clone();
                                simkernel::at(Duration::from_micros(at), format!("peer of victim {i} writes {} bytes", d.len()), move || {
                                    let _ = peer.borrow_mut().write_all(&d);
                                });
                            } else {
                                // silence, not end of stream
                                keep.borrow_mut().push(Box::new(peer));
                            }
                            Res::Unix(sock)
                        }
                        Kind::Poll => {
                            let (a, b) = std::os::unix::net::UnixStream::pair().expect("socketpair");
                            let b = Rc::new(RefCell::new(b));
                            if let Some((at, _)) = v.data {
                                let (d, peer) = (data.clone(), b.clone());
                                simkernel::at(Duration::from_micros(at), format!("peer of victim {i} writes {} bytes", d.len()), move || {
                                    let _ = peer.borrow_mut().write_all(&d);
                                });
                            }
                            // (the peer stays open until the run is over: silence, not end of stream)
                            keep.borrow_mut().push(Box::new(b));
                            Res::Poll(compio_runtime::fd::PollFd::new(a).expect("PollFd"))
                        }
                        Kind::PipeRead => {
                            let (rx, tx) = compio_fs::pipe::anonymous().await.expect("pipe");
                            let fd = tx.as_raw_fd();
                            let d = data.clone();
                            if v.warmups > 0 {
                                let w = vec![0x57u8; v.warmups];
                                unsafe { libc::write(fd, w.as_ptr() as *const libc::c_void, w.len()) };
                            }
                            match v.data {
                                Some((at, _)) => simkernel::at(Duration::from_micros(at), format!("writer of victim {i}'s pipe writes {} bytes", d.len()), move || {
                                    unsafe { libc::write(fd, d.as_ptr() as *const libc::c_void, d.len()) };
                                    drop(tx);
                                }),
                                None => keep.borrow_mut().push(Box::new(tx)),
                            }
                            Res::Pipe(rx)
                        }
                        Kind::Accept => {
                            // an abstract Unix address unique to this process and run: nobody else can connect to it
                            // (loopback TCP ports are shared with the other worker processes)
                            use std::os::{linux::net::SocketAddrExt, unix::net::SocketAddr};
                            static N: std::sync::atomic::AtomicU64 = std::sync::atomic::AtomicU64::new(0);
                            let name = format!("verif-k-{}-{}", std::process::id(), N.fetch_add(1, std::sync::atomic::Ordering::Relaxed));
                            let addr = SocketAddr::from_abstract_name(name.as_bytes()).expect("abstract address");
                            let l = compio_net::UnixListener::from_std(std::os::unix::net::UnixListener::bind_addr(&addr).expect("bind")).expect("from_std");
                            if let Some((at, _)) = v.data {
                                let keep = keep.clone();
                                simkernel::at(Duration::from_micros(at), format!("a client connects to victim {i}'s listener"), move || {
                                    if let Ok(s) = std::os::unix::net::UnixStream::connect_addr(&addr) {
                                        keep.borrow_mut().push(Box::new(s));
                                    }
                                });
                            }
                            Res::Listener(l)
                        }
                    };
                    // ---- the victim task
                    let (errs_v, reports_v) = (errs.clone(), reports.clone());
                    let route = v.route;
                    let tok = token.clone();
                    let kind = v.kind;
                    let h = compio_runtime::spawn(async move {
                        if let Route::Token { late: true, at } = route {
                            // register with a token that has already fired
                            sleep(Duration::from_micros(at + 5)).await;
                        }
                        for k in 0..v.warmups {
                            // completed operations under the same token: their registrations stay behind
                            let BufResult(r, b) = match &res {
                                Res::Unix(s) => {
                                    let mut r = &**s;
                                    r.read(Vec::with_capacity(1)).with_cancel(tok.clone()).await
                                }
                                Res::Pipe(p) => {
                                    let mut r = p;
                                    r.read(Vec::with_capacity(1)).with_cancel(tok.clone()).await
                                }
                                Res::Listener(_) | Res::Poll(_) => unreachable!(),
                            };
                            if matches!(&r, Err(e) if e.is_cancelled()) && tok.is_cancelled() {
                                // the token fired during the warm-ups already
                                reports_v.borrow_mut()[i] = Some(Report { outcome: Outcome::Cancelled, finished_at: Instant::now() });
                                return;
                            }
                            if !matches!(r, Ok(1)) || b != [0x57] {
                                errs_v.push("dishonest-result", format!("victim {i}: warm-up read {k} under the token returned {r:?} {b:?}, the peer had written one byte 0x57 for it"));
                                return;
                            }
                        }
                        let op = async {
                            match &res {
                                Res::Unix(s) if kind == Kind::Multi => {
                                    let mut r = &**s;
                                    let mut st = r.read_multi(0).boxed_local();
                                    match st.next().await {
                                        Some(Ok(b)) => Outcome::Data(b.to_vec()),
                                        Some(Err(e)) if e.is_cancelled() => Outcome::Cancelled,
                                        Some(Err(e)) => Outcome::Other(format!("{e}")),
                                        // a multishot stream under a fired token ends instead of yielding an error
                                        None if CancelToken::current().await.is_some_and(|t| t.is_cancelled()) => Outcome::Cancelled,
                                        None => Outcome::Other("multishot stream ended although the peer neither wrote nor closed".into()),
                                    }
                                }
                                Res::Unix(s) => {
                                    let mut r = &**s;
                                    let BufResult(r, b) = r.read(Vec::with_capacity(64)).await;
                                    match r {
                                        Ok(_) => Outcome::Data(b),
                                        Err(e) if e.is_cancelled() => Outcome::Cancelled,
                                        Err(e) => Outcome::Other(format!("{e}")),
                                    }
                                }
                                Res::Pipe(p) => {
                                    let mut r = p;
                                    let BufResult(r, b) = r.read(Vec::with_capacity(64)).await;
                                    match r {
                                        Ok(_) => Outcome::Data(b),
                                        Err(e) if e.is_cancelled() => Outcome::Cancelled,
                                        Err(e) => Outcome::Other(format!("{e}")),
                                    }
                                }
                                Res::Poll(p) => match p.read_ready().await {
                                    Ok(()) => Outcome::Ready,
                                    Err(e) if e.is_cancelled() => Outcome::Cancelled,
                                    Err(e) => Outcome::Other(format!("{e}")),
                                },
                                Res::Listener(l) => match l.accept().await {
                                    Ok(_) => Outcome::Accepted,
                                    Err(e) if e.is_cancelled() => Outcome::Cancelled,
                                    Err(e) => Outcome::Other(format!("{e}")),
                                },
                            }
                        };
                        // (personality 0 is "none": the combinator only has to pass on what the waker carries)
                        let op = async move { if v.wrapped { op.with_personality(0).await } else { op.await } };
                        let outcome = match route {
                            Route::None | Route::Drop(_) => op.await,
                            Route::Token { .. } => op.with_cancel(tok).await,
                            Route::FailFast(_) => match op.with_cancel(tok).fail_fast().await {
                                Ok(o) => o,
                                Err(_) => Outcome::Cancelled,
                            },
                            Route::Timeout(at) => match compio_runtime::time::timeout(Duration::from_micros(at), op).await {
                                Ok(o) => o,
                                Err(_) => Outcome::Elapsed,
                            },
                            Route::SelfCancel(at) => {
                                let mut f = Box::pin(op.with_cancel(tok.clone()));
                                match futures_util::poll!(f.as_mut()) {
                                    std::task::Poll::Ready(o) => o,
                                    std::task::Poll::Pending => {
                                        sleep(Duration::from_micros(at)).await;
                                        tok.cancel();
                                        f.await
                                    }
                                }
                            }
                        };
                        if let Outcome::Other(e) = &outcome {
                            errs_v.push("dishonest-result", format!("victim {i} ({kind:?}, {route:?}) finished with an error that is neither a cancellation nor its own result: {e}"));
                        }
                        reports_v.borrow_mut()[i] = Some(Report { outcome, finished_at: Instant::now() });
                    });
                    // ---- the cancelling side
                    match v.route {
                        Route::Drop(at) => {
                            controllers.push(compio_runtime::spawn(async move {
                                sleep(Duration::from_micros(at)).await;
                                drop(h);
                            }));
                        }
                        Route::Token { .. } if v.share_token => handles.push(h),
                        Route::Token { at, .. } | Route::FailFast(at) => {
                            handles.push(h);
                            controllers.push(compio_runtime::spawn(async move {
                                sleep(Duration::from_micros(at)).await;
                                token.cancel();
                            }));
                        }
                        _ => handles.push(h),
                    }
                }
                for c in controllers {
                    let _ = c.await;
                }
                for h in handles {
                    let _ = h.await;
                }
                // give dropped operations' cancellations a few loop turns to reach their final completion
                sleep(Duration::from_millis(2)).await;
                *pending.borrow_mut() = simkernel::pending_ops();
                keep.borrow_mut().clear();
            });
        }
    })?;
    errs.first()?;
    let start = t0.borrow().expect("main future ran");
    let reports = reports.borrow();
    for (i, v) in prog.iter().enumerate() {
        let when = |at: u64| start + Duration::from_micros(at);
        let data_at = v.data.map(|d| when(d.0));
        match (&v.route, &reports[i]) {
            (Route::Drop(_), _) => {}
            (_, None) => simcore::violation!("never-finished", "victim {i} ({:?}, {:?}) never finished", v.kind, v.route),
            (route, Some(rep)) => {
                // honest: data must be the peer's data
                if let Outcome::Data(b) = &rep.outcome {
                    let want = &payloads[i];
                    check!(!want.is_empty() && b.len() <= want.len() && b[..] == want[..b.len()] && !b.is_empty(), "fabricated-success", "victim {i} ({:?}, {route:?}) reported {} bytes {:?}, its peer wrote {:?}", v.kind, b.len(), &b[..b.len().min(8)], &want[..want.len().min(8)]);
                    check!(data_at.map(|t| rep.finished_at >= t).unwrap_or(false), "fabricated-success", "victim {i} reported data before its peer wrote any");
                }
                if matches!(rep.outcome, Outcome::Accepted) {
                    check!(v.data.is_some(), "fabricated-success", "victim {i}: accept succeeded although nobody connected");
                }
                if matches!(rep.outcome, Outcome::Ready) {
                    check!(data_at.map(|t| rep.finished_at >= t).unwrap_or(false), "fabricated-success", "victim {i}: the descriptor was reported readable before its peer wrote anything (or although it never did)");
                }
                // prompt
                let cancel_at = match *route {
                    Route::Token { at, late } => Some(when(if late { at + 5 } else { at })),
                    Route::FailFast(at) | Route::Timeout(at) | Route::SelfCancel(at) => Some(when(at)),
                    _ => None,
                };
                // cancelling after completion is harmless: what had completed before the token fired is delivered
                if let (Route::SelfCancel(at), Some(t), Outcome::Cancelled) = (route, data_at, &rep.outcome) {
                    check!(t + SLACK >= when(*at), "completion-turned-into-cancellation", "victim {i} ({:?}): its data arrived {:?} before the task itself fired the token; the operation reported a cancellation (and the data is gone)", v.kind, when(*at).duration_since(t));
                }
                match cancel_at {
                    Some(c) => {
                        let genuine = matches!(rep.outcome, Outcome::Data(_) | Outcome::Accepted | Outcome::Ready);
                        let deadline = if genuine { c.max(data_at.unwrap_or(c)) } else { c };
                        check!(rep.finished_at <= deadline + SLACK, "not-prompt", "victim {i} ({:?}, {route:?}) finished {:?} after it was cancelled ({:?})", v.kind, rep.finished_at.duration_since(deadline), rep.outcome);
                        if !genuine {
                            check!(rep.finished_at + SLACK >= c || matches!(route, Route::Token { late: true, .. }), "cancelled-too-early", "victim {i} reported cancellation {:?} before anybody cancelled it", c.duration_since(rep.finished_at));
                        }
                    }
                    None => {
                        // a neighbour: must get exactly its own event, when it happens
                        match (&rep.outcome, v.kind) {
                            (Outcome::Data(b), _) => check!(*b == payloads[i][..b.len()], "neighbour-disturbed", "neighbour {i} got wrong bytes"),
                            (Outcome::Accepted, Kind::Accept) => {}
                            (Outcome::Ready, Kind::Poll) => {}
                            (o, _) => simcore::violation!("neighbour-disturbed", "victim {i} ({:?}) was never cancelled but finished with {o:?}", v.kind),
                        }
                        let t = data_at.unwrap();
                        check!(rep.finished_at <= t + SLACK, "neighbour-disturbed", "neighbour {i} finished {:?} after its event", rep.finished_at.duration_since(t));
                    }
                }
            }
        }
    }
    // every operation reached its final completion: only driver-internal ones may remain
    let pending = pending.borrow();
    let stuck: Vec<_> = pending.iter().filter(|(_, op, _)| *op != 6).collect();
    check!(stuck.is_empty(), "left-pending", "operations still pending in the kernel after every task finished and 2 ms passed: {:?}", stuck.iter().map(|(s, o, f)| format!("#{s} {} fd {f}", simkernel::op_name(*o))).collect::<Vec<_>>());
    check!(end.open_rings == 0, "ring-leak", "{} rings still open", end.open_rings);
    Ok(())
}
