//! C13 (ancillary half, through sockets; also the control-data part of C14 and C01) — control messages built
//! with `AncillaryBuilder` go through `sendmsg`, the real kernel's socket layer and `recvmsg` on the simulated
//! io_uring kernel (or the polling driver) and are taken apart with `AncillaryIter`:
//!
//! * `fd_passing`: descriptors (SCM_RIGHTS) over a Unix stream pair, every send and receive flavour of the
//!   ancillary traits, control buffers that fit exactly, generously or not at all (MSG_CTRUNC);
//! * `udp_info`: IP_TOS / IPV6_TCLASS and packet-info messages with UDP datagrams, one or two messages of
//!   different sizes and alignments per datagram, receive buffers that cut the control data.
//!
//! Oracles: a builder never writes beyond its buffer and reports `BufferTooSmall` instead; what the iterator
//! yields is what was sent (every descriptor exactly once and in order, every datagram with its own traffic
//! class and destination address); the slice handed to `AncillaryData::decode` is the message's data, inside
//! the control buffer; cut control data is flagged and decoding a cut message fails instead of reading on; the
//! lengths reported equal what the buffers hold; no descriptor is left over.

use std::{
    cell::{Cell, RefCell},
    mem::MaybeUninit,
    os::fd::AsRawFd,
    rc::Rc,
    time::{Duration, Instant},
};

use compio_buf::{BufResult, IoBufExt, IoBufMut};
use compio_driver::ProactorBuilder;
use compio_io::ancillary::{AncillaryBuf, AncillaryBuilder, AncillaryData, AncillaryIter, AsyncReadAncillary, AsyncReadAncillaryManaged, AsyncReadAncillaryMulti, AsyncWriteAncillary, CodecError, ReturnFlags};
use futures_util::StreamExt;
use simcore::{self as sim, RunResult, check, worker::Scenario};

use crate::kutil::*;

pub fn scenarios() -> Vec<Scenario> {
    vec![
        Scenario {
            name: "fd_passing",
            property: "C13",
            engine: "K",
            run: fd_passing,
            weight: 1,
        },
        Scenario {
            name: "udp_info",
            property: "C13",
            engine: "K",
            run: udp_info,
            weight: 1,
        },
    ]
}

const HDR: usize = std::mem::size_of::<libc::cmsghdr>();

fn space(n: usize) -> usize {
    unsafe { libc::CMSG_SPACE(n as u32) as usize }
}

/// N bytes as the data of one control message.
struct Raw<const N: usize>([u8; N]);

impl<const N: usize> AncillaryData for Raw<N> {
    const SIZE: usize = N;

    fn encode(&self, buffer: &mut [MaybeUninit<u8>]) -> Result<(), CodecError> {
        if buffer.len() < N {
            return Err(CodecError::BufferTooSmall);
        }
        for (d, s) in buffer.iter_mut().zip(self.0) {
            *d = MaybeUninit::new(s);
        }
        Ok(())
    }

    fn decode(buffer: &[u8]) -> Result<Self, CodecError> {
        if buffer.len() < N {
            return Err(CodecError::BufferTooSmall);
        }
        Ok(Raw(std::array::from_fn(|i| buffer[i])))
    }
}

/// What a receiver that cannot know the size beforehand (a list of descriptors) asks for: all of the
/// message's data. Only where the slice lies is recorded; the bytes are then taken from the control buffer.
struct Whole {
    at: usize,
    len: usize,
}

impl AncillaryData for Whole {
    const SIZE: usize = 0;

    fn encode(&self, _: &mut [MaybeUninit<u8>]) -> Result<(), CodecError> {
        Ok(())
    }

    fn decode(buffer: &[u8]) -> Result<Self, CodecError> {
        Ok(Whole { at: buffer.as_ptr() as usize, len: buffer.len() })
    }
}

fn push_raw<B: IoBufMut + ?Sized>(b: &mut AncillaryBuilder<'_, B>, level: i32, ty: i32, data: &[u8]) -> Result<(), CodecError> {
    macro_rules! sized {
        ($($n:literal),*) => {
            match data.len() {
                $($n => b.push(level, ty, &Raw::<$n>(data.try_into().unwrap())),)*
                n => panic!("harness: no Raw<{n}>"),
            }
        };
    }
    sized!(1, 4, 8, 12, 16, 20, 24)
}

/// One parsed control message: (level, type, data).
type Msg = (i32, i32, Vec<u8>);

/// Take a received control area apart with the iterator, judging what it hands out on the way.
fn parse(errs: &Errs, what: &str, ctl: &[u8]) -> Vec<Msg> {
    let mut out = Vec::new();
    if ctl.len() < space(0) {
        return out;
    }
    let (lo, hi) = (ctl.as_ptr() as usize, ctl.as_ptr() as usize + ctl.len());
    let it = unsafe { AncillaryIter::new(ctl) };
    for (k, m) in it.enumerate() {
        if k > ctl.len() / HDR {
            errs.push("cmsg-endless", format!("{what}: the iterator yielded more messages than {} bytes can hold", ctl.len()));
            break;
        }
        let data_len = m.len().saturating_sub(HDR);
        match m.data::<Whole>() {
            Ok(w) => {
                // a message cut by the kernel (MSG_CTRUNC) keeps its full length in the header: what is there ends with the buffer
                let there = data_len.min(hi.saturating_sub(w.at));
                if w.at < lo || w.at + w.len > hi || w.len > data_len {
                    errs.push(
                        "cmsg-decode-slice",
                        format!("{what}: message {k} (level {}, type {}, header length {}) has {data_len} data bytes, the slice given to AncillaryData::decode has {} bytes and ends {} bytes {} the control data", m.level(), m.ty(), m.len(), w.len, (w.at + w.len).abs_diff(hi), if w.at + w.len > hi { "beyond" } else { "before the end of" }),
                    );
                }
                let off = w.at.saturating_sub(lo).min(ctl.len());
                out.push((m.level(), m.ty(), ctl[off..(off + there).min(ctl.len())].to_vec()));
            }
            Err(e) => errs.push("cmsg-decode", format!("{what}: message {k}: {e}")),
        }
    }
    out
}

/// Push `msgs` into a fresh control buffer of N bytes; a message that does not fit must be refused and leave
/// what is there untouched.
fn build<const N: usize>(errs: &Errs, what: &str, msgs: &[Msg]) -> AncillaryBuf<N> {
    let mut buf = AncillaryBuf::<N>::new();
    let mut used = 0usize;
    {
        let mut b = buf.builder();
        for (level, ty, data) in msgs {
            let fits = used + space(data.len()) <= N;
            match push_raw(&mut b, *level, *ty, data) {
                Ok(()) if fits => used += space(data.len()),
                Ok(()) => errs.push("cmsg-builder-overrun", format!("{what}: a message of {} data bytes was accepted with {used} of {N} bytes used", data.len())),
                Err(CodecError::BufferTooSmall) if !fits => sim::probe("cmsg.refused"),
                Err(e) => errs.push("cmsg-builder", format!("{what}: a message of {} data bytes was refused with {used} of {N} bytes used: {e}", data.len())),
            }
        }
    }
    if buf.buf_len() != used {
        errs.push("cmsg-builder-length", format!("{what}: {used} bytes of messages pushed, the buffer reports {}", buf.buf_len()));
    }
    // what was built reads back (the pure round trip)
    let back = parse(errs, what, &buf);
    let want: Vec<&Msg> = {
        let mut u = 0;
        msgs.iter().filter(|m| { let f = u + space(m.2.len()) <= N; if f { u += space(m.2.len()); } f }).collect()
    };
    if back.len() != want.len() || back.iter().zip(&want).any(|(a, b)| a != *b) {
        errs.push("cmsg-roundtrip", format!("{what}: built {want:?}, the iterator yields {back:?}"));
    }
    buf
}

macro_rules! with_cap {
    ($cap:expr, [$($n:literal),*], |$b:ident| $body:expr) => {
        match $cap {
            $($n => { const $b: usize = $n; $body })*
            c => panic!("harness: no control capacity {c}"),
        }
    };
}

// ---------------------------------------------------------------- descriptors over a Unix stream

#[derive(Clone, Copy, Debug)]
enum TxS {
    Plain,
    Vectored,
}

#[derive(Clone, Copy, Debug)]
enum RxS {
    Plain(usize),
    Vectored(usize, usize),
    Managed(usize),
    Multi(usize),
}

#[derive(Clone, Debug)]
struct FdMsg {
    payload: usize,
    fds: usize,
    /// bytes of the control buffer beyond what the descriptors need (0: it fits exactly)
    slack: usize,
    tx: TxS,
    /// pause before sending (µs)
    pause: u64,
}

fn token(m: usize, f: usize) -> [u8; 8] {
    [0xfd, m as u8, f as u8, 0x5a, !(m as u8), !(f as u8), 0xa5, 0x0f]
}

fn fd_passing() -> RunResult {
    let cfg = simkernel::KConfig::draw();
    let n = 1 + sim::range("msgs", 0, 3) as usize;
    let msgs: Vec<FdMsg> = (0..n)
        .map(|_| FdMsg {
            payload: [1usize, 5, 64, 300][sim::choose("payload.len", 4)],
            fds: [0usize, 1, 1, 2, 3, 5][sim::choose("fds", 6)],
            // (sizes that are no multiple of the alignment too: padding after the last message is part of its space)
            // (20, 21: room for the header and data of one more small message, not for its padding)
            slack: [0usize, 1, 5, 8, 20, 21, 24, 40][sim::choose("ctl.slack", 8)],
            tx: if sim::flip("tx.vectored", 1, 3) { TxS::Vectored } else { TxS::Plain },
            pause: sim::range("tx.pause", 0, 30),
        })
        .collect();
    let rx_kind = sim::choose("rx.kind", 4);
    let rx_cap = [16usize, 24, 32, 40, 64, 128][sim::weighted("rx.ctl.cap", &[1, 2, 2, 2, 3, 3])];
    let capacity = 1u32 << sim::range("ring.capacity.log2", 0, 4);
    let pool_len = [512usize, 1024][sim::choose("bufpool.len", 2)]; // (a provided buffer must hold the message header, the address area and the control area: EFAULT otherwise)
    let seed = sim::subseed("payload");
    sim::log(|| format!("ring capacity {capacity}, pool buffers of {pool_len}, receive flavour {rx_kind} with {rx_cap} bytes for control data; {cfg:?}"));
    sim::log(|| format!("messages: {msgs:?}"));
    let errs = Errs::default();
    let end = run_on_kernel(cfg, {
        let errs = errs.clone();
        move || {
            let mut pb = ProactorBuilder::new();
            pb.capacity(capacity).buffer_pool_size(std::num::NonZero::new(4).unwrap()).buffer_pool_buffer_len(pool_len);
            draw_driver(&mut pb);
            let rt = compio_runtime::Runtime::builder().with_proactor(pb).build().expect("runtime");
            rt.block_on(async {
                let Ok((a, b)) = std::os::unix::net::UnixStream::pair() else { return };
                let (Ok(mut tx), Ok(mut rx)) = (compio_net::UnixStream::from_std(a), compio_net::UnixStream::from_std(b)) else { return };
                let total: usize = msgs.iter().map(|m| m.payload).sum();
                let stream: Vec<u8> = sim::payload(seed, total);
                // tokens of the descriptors in the order they were sent
                let expected: Rc<RefCell<Vec<[u8; 8]>>> = Rc::default();
                let sent_all = Rc::new(Cell::new(false));
                let sender = {
                    let (errs, msgs, stream, expected, sent_all) = (errs.clone(), msgs.clone(), stream.clone(), expected.clone(), sent_all.clone());
                    async move {
                        let mut at = 0usize;
                        for (k, m) in msgs.iter().enumerate() {
                            if m.pause > 0 {
                                compio_runtime::time::sleep(Duration::from_micros(m.pause)).await;
                            }
                            // the descriptors of this message: read ends of pipes that hold a token each
                            let mut fds = Vec::new();
                            for f in 0..m.fds {
                                let mut p = [0i32; 2];
                                if unsafe { libc::pipe2(p.as_mut_ptr(), libc::O_CLOEXEC | libc::O_NONBLOCK) } != 0 {
                                    return;
                                }
                                let t = token(k, f);
                                unsafe {
                                    libc::write(p[1], t.as_ptr().cast(), 8);
                                    libc::close(p[1]);
                                }
                                fds.push(p[0]);
                                expected.borrow_mut().push(t);
                            }
                            let what = format!("message {k} ({m:?})");
                            let data: Vec<u8> = fds.iter().flat_map(|fd| fd.to_ne_bytes()).collect();
                            let list: Vec<Msg> = if fds.is_empty() { Vec::new() } else { vec![(libc::SOL_SOCKET, libc::SCM_RIGHTS, data)] };
                            // beyond the last message a further one must be refused when there is no room for it
                            let mut with_extra = list.clone();
                            let need = if fds.is_empty() { 0 } else { space(4 * fds.len()) };
                            let cap = (need + m.slack).max(space(0));
                            if cap - need < space(4) {
                                with_extra.push((libc::SOL_SOCKET, libc::SCM_RIGHTS, vec![0xff; 4]));
                            }
                            let body = stream[at..at + m.payload].to_vec();
                            let res: std::io::Result<usize> = with_cap!(cap, [16, 20, 21, 24, 25, 29, 32, 33, 37, 40, 41, 44, 45, 48, 52, 53, 56, 60, 61, 64, 72, 80], |N| {
                                let ctl = build::<N>(&errs, &what, &with_extra);
                                match m.tx {
                                    TxS::Plain => tx.write_with_ancillary(body, ctl).await.0,
                                    TxS::Vectored => {
                                        let cut = body.len() / 2;
                                        tx.write_vectored_with_ancillary([body[..cut].to_vec(), Vec::new(), body[cut..].to_vec()], ctl).await.0
                                    }
                                }
                            });
                            for fd in fds {
                                unsafe { libc::close(fd) };
                            }
                            match res {
                                Ok(w) if w == m.payload => at += w,
                                Ok(w) => {
                                    // the rest of a short write goes without control data, as any writer would send it
                                    at += w;
                                    let rest = stream[at..at + (m.payload - w)].to_vec();
                                    if let BufResult(Err(e), _) = compio_io::AsyncWriteExt::write_all(&mut tx, rest).await {
                                        errs.push("io-error", format!("{what}: the rest of a short write failed: {e}"));
                                        return;
                                    }
                                    at += m.payload - w;
                                }
                                Err(e) => {
                                    errs.push("io-error", format!("{what} failed: {e}"));
                                    return;
                                }
                            }
                        }
                        sent_all.set(true);
                        drop(tx); // end of stream
                    }
                };
                let receiver = {
                    let (errs, stream, expected) = (errs.clone(), stream.clone(), expected.clone());
                    async move {
                        let mut got: Vec<u8> = Vec::new();
                        let mut tokens: Vec<[u8; 8]> = Vec::new();
                        let mut cut = false;
                        let mut reads = 0usize;
                        // one received piece: payload bytes, control area, flags
                        let mut take = |what: &str, data: &[u8], ctl: &[u8], flags: ReturnFlags| {
                            got.extend_from_slice(data);
                            if flags.contains(ReturnFlags::CTRUNC) {
                                cut = true;
                                sim::probe("cmsg.ctrunc");
                            }
                            for (level, ty, d) in parse(&errs, what, ctl) {
                                if (level, ty) != (libc::SOL_SOCKET, libc::SCM_RIGHTS) {
                                    errs.push("cmsg-content", format!("{what}: a control message of level {level}, type {ty} that nobody sent"));
                                    continue;
                                }
                                if d.len() % 4 != 0 {
                                    errs.push("cmsg-content", format!("{what}: {} bytes of descriptors", d.len()));
                                }
                                for c in d.chunks_exact(4) {
                                    let fd = i32::from_ne_bytes(c.try_into().unwrap());
                                    let mut t = [0u8; 8];
                                    let r = unsafe { libc::read(fd, t.as_mut_ptr().cast(), 8) };
                                    if r != 8 {
                                        errs.push("fd-passed", format!("{what}: descriptor {fd} taken from the control data is not one of the pipes sent (read gives {r})"));
                                    } else {
                                        tokens.push(t);
                                        sim::probe("cmsg.descriptor-delivered");
                                        unsafe { libc::close(fd) };
                                    }
                                }
                            }
                        };
                        loop {
                            reads += 1;
                            let what = format!("read {reads}");
                            let n = with_cap!(rx_cap, [16, 24, 32, 40, 64, 128], |N| {
                                match rx_kind {
                                    0 | 1 => {
                                        let c = [7usize, 64, 512][sim::choose("rx.cap", 3)];
                                        let kind = if rx_kind == 0 { RxS::Plain(c) } else { RxS::Vectored(c.min(8), c) };
                                        let ctl = AncillaryBuf::<N>::new();
                                        let (res, data, ctl) = match kind {
                                            RxS::Plain(c) => {
                                                let BufResult(res, (b, ctl)) = rx.read_with_ancillary(Vec::with_capacity(c), ctl).await;
                                                (res, b, ctl)
                                            }
                                            RxS::Vectored(c1, c2) => {
                                                let BufResult(res, (bs, ctl)) = rx.read_vectored_with_ancillary([Vec::with_capacity(c1), Vec::with_capacity(c2)], ctl).await;
                                                (res, bs.concat(), ctl)
                                            }
                                            _ => unreachable!(),
                                        };
                                        match res {
                                            Ok((n, clen, flags)) => {
                                                if n != data.len() || clen != ctl.buf_len() || clen > N {
                                                    errs.push("count", format!("{what} ({kind:?}): {n} bytes and {clen} control bytes reported, the buffers hold {} and {} (room for {N})", data.len(), ctl.buf_len()));
                                                }
                                                take(&what, &data, &ctl[..clen.min(ctl.buf_len())], flags);
                                                n
                                            }
                                            Err(e) => {
                                                errs.push("io-error", format!("{what} ({kind:?}) failed: {e}"));
                                                0
                                            }
                                        }
                                    }
                                    2 => {
                                        let l = [0usize, 7, 64][sim::choose("rx.mlen", 3)];
                                        match rx.read_managed_with_ancillary(l, AncillaryBuf::<N>::new()).await {
                                            Ok(Some((b, ctl, flags))) => {
                                                take(&what, &b, &ctl, flags);
                                                b.len()
                                            }
                                            Ok(None) => 0,
                                            Err(e) if e.kind() == std::io::ErrorKind::ResourceBusy => {
                                                compio_runtime::time::sleep(Duration::from_micros(5)).await;
                                                continue;
                                            }
                                            Err(e) => {
                                                errs.push("io-error", format!("{what} (Managed({l})) failed: {e}"));
                                                0
                                            }
                                        }
                                    }
                                    _ => {
                                        // one multishot stream until the sender's end of stream: nothing the kernel took for it is left behind
                                        let mut st = rx.read_multi_with_ancillary(N).boxed_local();
                                        let mut n = 0;
                                        loop {
                                            match st.next().await {
                                                Some(Ok(r)) => {
                                                    if r.data().is_empty() {
                                                        break;
                                                    }
                                                    n += r.data().len();
                                                    let anc = r.ancillary();
                                                    // the control area of a provided buffer has no particular alignment: judge a copy
                                                    let mut copy = AncillaryBuf::<128>::new();
                                                    let l = anc.len().min(128);
                                                    copy.as_uninit()[..l].copy_from_slice(unsafe { std::mem::transmute::<&[u8], &[MaybeUninit<u8>]>(&anc[..l]) });
                                                    unsafe { compio_buf::SetLen::set_len(&mut copy, l) };
                                                    take(&format!("{what} (Multi, item)"), r.data(), &copy, r.flags());
                                                }
                                                Some(Err(e)) if e.kind() == std::io::ErrorKind::ResourceBusy => compio_runtime::time::sleep(Duration::from_micros(5)).await,
                                                Some(Err(e)) => {
                                                    errs.push("io-error", format!("{what} (Multi) failed: {e}"));
                                                    break;
                                                }
                                                None => {
                                                    if n == 0 {
                                                        break;
                                                    }
                                                    // the stream ended (the kernel may end a multishot operation at any time): start another
                                                    drop(st);
                                                    st = rx.read_multi_with_ancillary(N).boxed_local();
                                                    n = 0;
                                                }
                                            }
                                        }
                                        0
                                    }
                                }
                            });
                            if n == 0 {
                                break;
                            }
                        }
                        if got != stream {
                            errs.push("stream-content", format!("{} bytes received, {} sent; {}", got.len(), stream.len(), first_diff(&got, &stream)));
                        }
                        let exp = expected.borrow();
                        if !cut {
                            if tokens != *exp {
                                errs.push("fd-passed", format!("no control data was cut, yet {} descriptors arrived of {} sent (or in another order): {tokens:02x?} / {exp:02x?}", tokens.len(), exp.len()));
                            }
                        } else {
                            // cut control data loses descriptors (the kernel closes them); the others arrive once, in order
                            let mut i = 0;
                            for t in &tokens {
                                match exp[i..].iter().position(|e| e == t) {
                                    Some(p) => i += p + 1,
                                    None => {
                                        errs.push("fd-passed", format!("descriptor {t:02x?} arrived twice, out of order or was never sent: {tokens:02x?} / {exp:02x?}"));
                                        break;
                                    }
                                }
                            }
                        }
                    }
                };
                futures_util::join!(sender, receiver);
                if !sent_all.get() && errs.is_empty() {
                    errs.push("io-error", "the sender did not finish");
                }
            });
        }
    })?;
    errs.first()?;
    check!(end.open_rings == 0, "ring-leak", "{} rings still open", end.open_rings);
    Ok(())
}

// ---------------------------------------------------------------- traffic class and packet info with UDP

#[derive(Clone, Debug)]
struct InfoMsg {
    len: usize,
    tos: u8,
    /// the traffic class as one byte instead of an int (IPv4 accepts both)
    tos_byte: bool,
    /// a packet-info message too, before (1) or after (2) the traffic class
    pktinfo: u8,
    slack: usize,
    tx: u8,
}

fn setopt(fd: i32, level: i32, name: i32) -> bool {
    let on: i32 = 1;
    unsafe { libc::setsockopt(fd, level, name, &on as *const _ as *const libc::c_void, 4) == 0 }
}

fn udp_info() -> RunResult {
    let mut cfg = simkernel::KConfig::draw();
    cfg.udp_loss = 0;
    cfg.udp_dup = 0;
    let v6 = sim::flip("ipv6", 1, 3);
    let n = 1 + sim::range("dgrams", 0, 3) as usize;
    let msgs: Vec<InfoMsg> = (0..n)
        .map(|_| InfoMsg {
            len: [1usize, 9, 200, 1400][sim::choose("dgram.len", 4)],
            tos: (sim::range("tos", 0, 63) as u8) << 2,
            tos_byte: !v6 && sim::flip("tos.byte", 1, 2),
            pktinfo: sim::choose("pktinfo", 3) as u8,
            slack: [0usize, 1, 5, 8, 20, 21, 24][sim::choose("ctl.slack", 7)],
            tx: sim::choose("tx.kind", 4) as u8,
        })
        .collect();
    let rx_kind = sim::choose("rx.kind", 4);
    let rx_cap = [16usize, 24, 32, 40, 64, 128][sim::weighted("rx.ctl.cap", &[1, 1, 2, 2, 4, 4])];
    let capacity = 1u32 << sim::range("ring.capacity.log2", 0, 4);
    let pool_len = [512usize, 2048][sim::choose("bufpool.len", 2)];
    let host = if v6 { "[::1]:0" } else { "127.0.0.1:0" };
    let seed = sim::subseed("payload");
    sim::log(|| format!("ring capacity {capacity}, pool buffers of {pool_len}, sockets on {host}, receive flavour {rx_kind} with {rx_cap} bytes for control data; {cfg:?}"));
    sim::log(|| format!("datagrams: {msgs:?}"));
    // what the receiving socket reports per datagram: packet info, then the traffic class
    let (lvl, ty_tos, ty_info, info_len, tos_len) = if v6 { (libc::IPPROTO_IPV6, libc::IPV6_TCLASS, libc::IPV6_PKTINFO, 20usize, 4usize) } else { (libc::IPPROTO_IP, libc::IP_TOS, libc::IP_PKTINFO, 12, 1) };
    let full = space(info_len) + space(tos_len);
    let errs = Errs::default();
    let end = run_on_kernel(cfg, {
        let errs = errs.clone();
        move || {
            let mut pb = ProactorBuilder::new();
            pb.capacity(capacity).buffer_pool_size(std::num::NonZero::new(4).unwrap()).buffer_pool_buffer_len(pool_len);
            let iour = draw_driver(&mut pb) == compio_driver::DriverType::IoUring;
            let rt = compio_runtime::Runtime::builder().with_proactor(pb).build().expect("runtime");
            rt.block_on(async {
                let Ok(rx) = compio_net::UdpSocket::bind(host).await else { return };
                let Ok(tx) = compio_net::UdpSocket::bind(host).await else { return };
                let Ok(rx_addr) = rx.local_addr() else { return };
                let ok = if v6 { setopt(rx.as_raw_fd(), lvl, libc::IPV6_RECVTCLASS) && setopt(rx.as_raw_fd(), lvl, libc::IPV6_RECVPKTINFO) } else { setopt(rx.as_raw_fd(), lvl, libc::IP_RECVTOS) && setopt(rx.as_raw_fd(), lvl, libc::IP_PKTINFO) };
                if !ok {
                    return;
                }
                let sender = {
                    let (errs, msgs) = (errs.clone(), msgs.clone());
                    let tx = &tx;
                    async move {
                        for (k, m) in msgs.iter().enumerate() {
                            let what = format!("datagram {k} ({m:?})");
                            let mut d = sim::payload(seed ^ (k as u64 + 1) << 8, m.len);
                            d[0] = k as u8;
                            let tos: Msg = (lvl, ty_tos, if m.tos_byte { vec![m.tos] } else { (m.tos as i32).to_ne_bytes().to_vec() });
                            // packet info on the sending side: the source address to use (the loopback address), any interface
                            let info: Msg = if v6 {
                                let mut b = vec![0u8; 20];
                                b[15] = 1;
                                (lvl, ty_info, b)
                            } else {
                                let mut b = vec![0u8; 12];
                                b[4..8].copy_from_slice(&[127, 0, 0, 1]);
                                (lvl, ty_info, b)
                            };
                            let list: Vec<Msg> = match m.pktinfo {
                                0 => vec![tos],
                                1 => vec![info, tos],
                                _ => vec![tos, info],
                            };
                            let need: usize = list.iter().map(|x| space(x.2.len())).sum();
                            let cap = need + m.slack;
                            let mut with_extra = list.clone();
                            if m.slack < space(4) {
                                with_extra.push((lvl, ty_tos, vec![0xff; 4]));
                            }
                            let res: std::io::Result<usize> = with_cap!(cap, [24, 25, 29, 32, 44, 45, 48, 56, 57, 61, 64, 65, 69, 72, 76, 77, 80, 84, 85, 88], |N| {
                                let ctl = build::<N>(&errs, &what, &with_extra);
                                match m.tx {
                                    0 => tx.send_msg(d.clone(), ctl, rx_addr).await.0,
                                    1 => {
                                        let cut = d.len() / 2;
                                        tx.send_msg_vectored([d[..cut].to_vec(), Vec::new(), d[cut..].to_vec()], ctl, rx_addr).await.0
                                    }
                                    2 => {
                                        let BufResult(r, back) = tx.send_msg_zerocopy(d.clone(), ctl, rx_addr).await;
                                        let (b, _c) = back.await;
                                        if b != d {
                                            errs.push("buffer-returned", format!("{what}: the zero-copy send gave back another buffer"));
                                        }
                                        r
                                    }
                                    _ => {
                                        let cut = d.len() / 3;
                                        let BufResult(r, back) = tx.send_msg_zerocopy_vectored([d[..cut].to_vec(), d[cut..].to_vec()], ctl, rx_addr).await;
                                        let _ = back.await;
                                        r
                                    }
                                }
                            });
                            match res {
                                Ok(w) if w == d.len() => {}
                                Ok(w) => errs.push("count", format!("{what}: {w} bytes reported for a datagram of {}", d.len())),
                                Err(e) => errs.push("io-error", format!("{what} failed: {e}")),
                            }
                        }
                    }
                };
                let receiver = {
                    let (errs, msgs) = (errs.clone(), msgs.clone());
                    let rx = &rx;
                    async move {
                        let deadline = Instant::now() + Duration::from_millis(3);
                        let mut seen = vec![false; msgs.len()];
                        let mut judge = |what: &str, data: &[u8], room: usize, ctl: &[u8], ctl_room: usize, flags: ReturnFlags| {
                            let Some(&k) = data.first() else {
                                errs.push("datagram-content", format!("{what}: an empty datagram"));
                                return;
                            };
                            let k = k as usize;
                            if k >= msgs.len() || seen[k] {
                                errs.push("datagram-content", format!("{what}: datagram number {k} was not sent or has been received before"));
                                return;
                            }
                            seen[k] = true;
                            let m = &msgs[k];
                            let mut want = sim::payload(seed ^ (k as u64 + 1) << 8, m.len);
                            want[0] = k as u8;
                            let fit = want.len().min(room);
                            if data != &want[..fit] {
                                errs.push("datagram-content", format!("{what}: datagram {k}: {} bytes, expected {fit}; {}", data.len(), first_diff(data, &want[..fit])));
                            }
                            if flags.contains(ReturnFlags::TRUNC) != (want.len() > room) {
                                errs.push("datagram-truncation-flag", format!("{what}: datagram {k} of {} bytes into room for {room}: flags {flags:?}", want.len()));
                            }
                            let cut = flags.contains(ReturnFlags::CTRUNC);
                            if cut {
                                sim::probe("cmsg.ctrunc");
                            }
                            if cut != (ctl_room < full) {
                                errs.push("cmsg-truncation-flag", format!("{what}: the socket reports {full} bytes of control data per datagram, there is room for {ctl_room}: flags {flags:?}"));
                            }
                            if ctl.len() > ctl_room {
                                errs.push("count", format!("{what}: {} bytes of control data in room for {ctl_room}", ctl.len()));
                            }
                            let parsed = parse(&errs, what, ctl);
                            let (mut tos, mut info) = (false, false);
                            for (level, ty, d) in &parsed {
                                if *level == lvl && *ty == ty_tos && !tos {
                                    tos = true;
                                    if d.len() >= tos_len {
                                        let v = if tos_len == 1 { d[0] as i32 } else { i32::from_ne_bytes(d[..4].try_into().unwrap()) };
                                        if v != m.tos as i32 {
                                            errs.push("cmsg-content", format!("{what}: datagram {k} was sent with traffic class {:#x}, the control data says {v:#x}", m.tos));
                                        }
                                    } else if !cut {
                                        errs.push("cmsg-content", format!("{what}: a traffic class of {} bytes without the cut flag", d.len()));
                                    }
                                } else if *level == lvl && *ty == ty_info && !info {
                                    info = true;
                                    if d.len() >= info_len {
                                        // the address the datagram was sent to
                                        let ok = if v6 { d[..16] == [0, 0, 0, 0, 0, 0, 0, 0, 0, 0, 0, 0, 0, 0, 0, 1] } else { d[8..12] == [127, 0, 0, 1] };
                                        if !ok {
                                            errs.push("cmsg-content", format!("{what}: packet info {d:02x?} does not name the loopback address the datagram was sent to"));
                                        }
                                    } else if !cut {
                                        errs.push("cmsg-content", format!("{what}: packet info of {} bytes without the cut flag", d.len()));
                                    }
                                } else {
                                    errs.push("cmsg-content", format!("{what}: unexpected or repeated control message (level {level}, type {ty}, {} bytes)", d.len()));
                                }
                            }
                            if !cut && !(tos && info) {
                                errs.push("cmsg-content", format!("{what}: no control data was cut, yet traffic class present: {tos}, packet info present: {info} ({} bytes of control data)", ctl.len()));
                            }
                            // the typed accessors: a whole message decodes, a cut one is refused
                            if ctl.len() >= space(0) {
                                for c in unsafe { AncillaryIter::new(ctl) } {
                                    let have = c.len().saturating_sub(HDR).min(ctl.len());
                                    if c.level() == lvl && c.ty() == ty_info {
                                        let whole = (c.len() - HDR) >= info_len && !cut_inside(ctl, &c, info_len);
                                        let r = if v6 { c.data::<libc::in6_pktinfo>().map(|_| ()) } else { c.data::<libc::in_pktinfo>().map(|_| ()) };
                                        if !whole {
                                            sim::probe("cmsg.cut-message-decoded");
                                        }
                                        if r.is_ok() != whole {
                                            errs.push("cmsg-typed-decode", format!("{what}: packet info with {have} data bytes there (needs {info_len}): typed decode gives {:?}", r.map_err(|e| e.to_string())));
                                        }
                                    }
                                }
                            }
                        };
                        let mut got = 0usize;
                        let mut lossy = false;
                        while got < msgs.len() {
                            let left = deadline.saturating_duration_since(Instant::now()) + Duration::from_micros(100);
                            let what = format!("receive {got}");
                            let c = [1usize, 64, 2048][sim::weighted("rx.cap", &[1, 2, 4])];
                            with_cap!(rx_cap, [16, 24, 32, 40, 64, 128], |N| {
                                match rx_kind {
                                    0 => match compio_runtime::time::timeout(left, rx.recv_msg(Vec::with_capacity(c), AncillaryBuf::<N>::new())).await {
                                        Ok(BufResult(Ok((n, clen, _a, flags)), (b, ctl))) => {
                                            if n != b.len() || clen != ctl.buf_len() {
                                                errs.push("count", format!("{what}: {n} bytes and {clen} control bytes reported, the buffers hold {} and {}", b.len(), ctl.buf_len()));
                                            }
                                            judge(&what, &b, b.capacity(), &ctl, N, flags);
                                        }
                                        Ok(BufResult(Err(e), _)) => {
                                            errs.push("io-error", format!("{what} failed: {e}"));
                                            break;
                                        }
                                        Err(_) => break,
                                    },
                                    1 => match compio_runtime::time::timeout(left, rx.recv_msg_vectored([Vec::with_capacity(c.min(8)), Vec::with_capacity(c)], AncillaryBuf::<N>::new())).await {
                                        Ok(BufResult(Ok((n, clen, _a, flags)), (bs, ctl))) => {
                                            let room = bs[0].capacity() + bs[1].capacity();
                                            let b = bs.concat();
                                            if n != b.len() || clen != ctl.buf_len() {
                                                errs.push("count", format!("{what}: {n} bytes and {clen} control bytes reported, the buffers hold {} and {}", b.len(), ctl.buf_len()));
                                            }
                                            judge(&what, &b, room, &ctl, N, flags);
                                        }
                                        Ok(BufResult(Err(e), _)) => {
                                            errs.push("io-error", format!("{what} failed: {e}"));
                                            break;
                                        }
                                        Err(_) => break,
                                    },
                                    2 => {
                                        let l = [0usize, 64][sim::choose("rx.mlen", 2)];
                                        match compio_runtime::time::timeout(left, rx.recv_msg_managed(l, AncillaryBuf::<N>::new())).await {
                                            Ok(Ok(Some((b, ctl, _a, flags)))) => judge(&what, &b, if l == 0 { pool_len } else { l.min(pool_len) }, &ctl, N, flags),
                                            Ok(Err(e)) if e.kind() == std::io::ErrorKind::ResourceBusy => {
                                                compio_runtime::time::sleep(Duration::from_micros(5)).await;
                                                continue;
                                            }
                                            Ok(Err(e)) => {
                                                errs.push("io-error", format!("{what} failed: {e}"));
                                                break;
                                            }
                                            _ => break,
                                        }
                                    }
                                    _ => {
                                        lossy = true; // a stream dropped takes with it what the kernel had received for it
                                        let take = 1 + sim::range("rx.take", 0, 2) as usize;
                                        let mut st = rx.recv_msg_multi(N).boxed_local();
                                        let mut items = 0;
                                        while items < take && got + items < msgs.len() {
                                            let left = deadline.saturating_duration_since(Instant::now()) + Duration::from_micros(100);
                                            match compio_runtime::time::timeout(left, st.next()).await {
                                                Ok(Some(Ok(r))) => {
                                                    let anc = r.ancillary();
                                                    let mut copy = AncillaryBuf::<128>::new();
                                                    let l = anc.len().min(128);
                                                    copy.as_uninit()[..l].copy_from_slice(unsafe { std::mem::transmute::<&[u8], &[MaybeUninit<u8>]>(&anc[..l]) });
                                                    unsafe { compio_buf::SetLen::set_len(&mut copy, l) };
                                                    // on the ring the buffer also carries the message header, the source address and the control area
                                                    let room = if iour { pool_len.saturating_sub(16 + std::mem::size_of::<libc::sockaddr_storage>() + N) } else { pool_len };
                                                    judge(&format!("{what} (Multi, item {items})"), r.data(), room, &copy, N, r.flags());
                                                    items += 1;
                                                }
                                                Ok(Some(Err(e))) if e.kind() == std::io::ErrorKind::ResourceBusy && Instant::now() < deadline => compio_runtime::time::sleep(Duration::from_micros(5)).await,
                                                _ => break,
                                            }
                                        }
                                        if items == 0 {
                                            break;
                                        }
                                        got += items - 1;
                                    }
                                }
                            });
                            got += 1;
                        }
                        let n_seen = seen.iter().filter(|s| **s).count();
                        if !lossy && n_seen != msgs.len() && errs.is_empty() {
                            errs.push("datagram-lost", format!("{n_seen} of {} datagrams arrived on a loss-free loopback", msgs.len()));
                        }
                    }
                };
                futures_util::join!(sender, receiver);
            });
        }
    })?;
    errs.first()?;
    check!(end.open_rings == 0, "ring-leak", "{} rings still open", end.open_rings);
    Ok(())
}

/// Whether the data of message `c` (which claims at least `need` bytes) runs beyond the end of the control area.
fn cut_inside(ctl: &[u8], c: &compio_io::ancillary::AncillaryRef<'_>, need: usize) -> bool {
    // the message's data starts HDR bytes after its header; find the header by scanning for it
    let base = ctl.as_ptr() as usize;
    let mut off = 0usize;
    while off + HDR <= ctl.len() {
        let len = usize::from_ne_bytes(ctl[off..off + 8].try_into().unwrap());
        let level = i32::from_ne_bytes(ctl[off + 8..off + 12].try_into().unwrap());
        let ty = i32::from_ne_bytes(ctl[off + 12..off + 16].try_into().unwrap());
        if len == c.len() && level == c.level() && ty == c.ty() {
            return off + HDR + need > ctl.len();
        }
        if len < HDR {
            break;
        }
        off += (len + 7) & !7;
    }
    let _ = base;
    false
}
