//! C02 — every operation completes exactly once, with its own result.
//!
//! Lanes work side by side, each on its own resource: concurrent reads on one pipe or Unix socket,
//! concurrent writes on one Unix socket, positional reads and writes on one file, metadata calls,
//! blocking-pool jobs. The peers' data arrives at generated instants, the simulated kernel decides which
//! pending operation completes when (also out of order), with how many bytes, through submission and
//! completion queues of 1..16 entries (overflow, bursts). Oracles: what each awaited operation returns —
//! count, bytes, the very buffer it submitted — is what the kernel's ledger says it did for the
//! operation with that buffer (nothing swapped, duplicated or invented); per descriptor the bytes handed
//! out in the kernel's completion order are the peer's stream; nothing the kernel finished stays
//! undelivered (every task ends; an operation is observed complete within a slack of its kernel
//! completion); blocking jobs return their own values.

use std::{
    cell::RefCell,
    io::{Read, Write},
    os::unix::fs::FileExt,
    rc::Rc,
    time::Duration,
};

use compio_buf::BufResult;
use compio_driver::ProactorBuilder;
use compio_io::{AsyncRead, AsyncReadAt, AsyncWrite, AsyncWriteAt};
use simcore::{self as sim, RunResult, check, worker::Scenario};

use crate::kutil::*;

pub fn scenarios() -> Vec<Scenario> {
    vec![
        Scenario {
            name: "ops_mix",
            property: "C02",
            engine: "K",
            run: ops_mix,
            weight: 1,
        },
        Scenario {
            name: "pool_through_driver",
            property: "C17",
            engine: "K",
            run: pool_through_driver,
            weight: 1,
        },
    ]
}

#[derive(Clone, Copy, Debug, PartialEq)]
enum Lane {
    PipeReads,
    UnixReads,
    UnixWrites,
    File,
    Meta,
    Pool,
    /// one socket: a read that waits for the peer's bytes and a write large enough to fill the socket
    /// buffer pend together; the peer drains (writable) and writes (readable) at generated instants
    Duplex,
    /// a read polled once where it was created, then handed to a spawned task that awaits it; the data
    /// comes after the hand-over (the completion must wake the task that now owns the future)
    HandOver,
    /// two descriptors of one socket (a `dup`), a read pending on each; the peer writes one chunk, later a
    /// second one: whichever read finds the first chunk gone must go on waiting and get the second
    DupReads,
    /// a multishot read whose consumer pauses (before its first look and between results) while the peer
    /// writes several chunks and closes: results queued behind each other, the last one included, arrive in
    /// order and complete
    Multi,
    /// a long run of one-byte reads, each of which has to wait for its byte (the peer writes it a microsecond
    /// after the read was issued): a descriptor event in every turn of the event loop for a millisecond or
    /// more, while the other lanes' completions (blocking-pool results among them) want to be noticed
    Chatter,
}

#[derive(Clone, Debug)]
struct Plan {
    lane: Lane,
    /// sizes of the operations (buffer capacity / payload length); all issued at once
    ops: Vec<usize>,
    /// for read lanes: (at µs, bytes) the peer writes; it closes its end after the last one
    feed: Vec<(u64, usize)>,
}

fn gen_plan() -> Plan {
    let lane = [Lane::PipeReads, Lane::UnixReads, Lane::UnixWrites, Lane::File, Lane::Meta, Lane::Pool, Lane::Duplex, Lane::HandOver, Lane::DupReads, Lane::Multi, Lane::Chatter][sim::choose("lane", 11)];
    let n = 1 + sim::range("lane.ops", 0, 4) as usize;
    // distinct sizes, so that a swapped buffer is also visible in its capacity
    let ops = (0..n).map(|k| 1 + k * 3 + 16 * sim::range("op.size", 0, 6) as usize).collect();
    let feed = (0..1 + sim::range("feed", 0, 3)).map(|_| (sim::range("feed.at", 0, 40), 1 + sim::range("feed.len", 0, 60) as usize)).collect();
    Plan { lane, ops, feed }
}

/// What the program saw for one operation.
#[derive(Clone, Debug)]
struct Seen {
    lane: usize,
    op: usize,
    /// address of the buffer submitted (and required back)
    addr: usize,
    #[allow(dead_code)]
    write: bool,
    res: Result<usize, i32>,
    digest: u64,
    bytes: Vec<u8>,
    done_ns: u64,
}

const SLACK_NS: u64 = 300_000;

fn fnv(b: &[u8]) -> u64 {
    let mut h = 0xcbf29ce484222325u64;
    for x in b {
        h = (h ^ *x as u64).wrapping_mul(0x100000001b3);
    }
    h
}

fn ops_mix() -> RunResult {
    let plans: Vec<Plan> = (0..1 + sim::range("lanes", 0, 3)).map(|_| gen_plan()).collect();
    run_plans(plans)
}

/// C17, the driver's half: results of blocking-pool jobs reach their submitters, promptly, whatever else the
/// event loop is busy with (descriptor events in every turn, other completions), on both drivers.
fn pool_through_driver() -> RunResult {
    let mut plans = Vec::new();
    for _ in 0..1 + sim::range("pool.lanes", 0, 2) {
        let n = 1 + sim::range("lane.ops", 0, 4) as usize;
        plans.push(Plan { lane: Lane::Pool, ops: (0..n).map(|k| 1 + k * 3 + 16 * sim::range("op.size", 0, 6) as usize).collect(), feed: vec![(0, 1)] });
    }
    for _ in 0..sim::range("other.lanes", 0, 2) {
        let mut p = gen_plan();
        if sim::flip("chatter", 1, 2) {
            p.lane = Lane::Chatter;
        }
        plans.push(p);
    }
    run_plans(plans)
}

fn run_plans(plans: Vec<Plan>) -> RunResult {
    let cfg = simkernel::KConfig::draw();
    let capacity = 1u32 << sim::range("ring.capacity.log2", 0, 4);
    let seed = sim::subseed("payload");
    sim::log(|| format!("ring capacity {capacity}; {cfg:?}"));
    for (i, p) in plans.iter().enumerate() {
        sim::log(|| format!("lane {i}: {p:?}"));
    }
    let errs = Errs::default();
    let seen: Rc<RefCell<Vec<Seen>>> = Rc::default();
    // per lane: what the peer wrote (read lanes) or received (write lanes), in order
    let streams: Rc<RefCell<Vec<Vec<u8>>>> = Rc::new(RefCell::new(vec![Vec::new(); plans.len()]));
    let finished: Rc<RefCell<Vec<bool>>> = Rc::new(RefCell::new(vec![false; plans.len()]));
    let iour = Rc::new(std::cell::Cell::new(true));
    static N: std::sync::atomic::AtomicU64 = std::sync::atomic::AtomicU64::new(0);
    let dir = std::env::temp_dir().join(format!("verif-k-mix-{}-{}", std::process::id(), N.fetch_add(1, std::sync::atomic::Ordering::Relaxed)));
    let _ = std::fs::remove_dir_all(&dir);
    std::fs::create_dir_all(&dir).expect("scratch directory");
    let end = run_on_kernel(cfg, {
        let (errs, plans, seen, streams, finished, dir, iour) = (errs.clone(), plans.clone(), seen.clone(), streams.clone(), finished.clone(), dir.clone(), iour.clone());
        move || {
            let mut pb = ProactorBuilder::new();
            pb.capacity(capacity);
            iour.set(draw_driver(&mut pb) == compio_driver::DriverType::IoUring);
            let concurrent = true;
            let rt = compio_runtime::Runtime::builder().with_proactor(pb).build().expect("runtime");
            let keep: Rc<RefCell<Vec<Box<dyn std::any::Any>>>> = Rc::default();
            rt.block_on(async {
                let mut tasks = Vec::new();
                for (li, p) in plans.iter().cloned().enumerate() {
                    let (errs, seen, streams, finished, keep, dir) = (errs.clone(), seen.clone(), streams.clone(), finished.clone(), keep.clone(), dir.clone());
                    tasks.push(compio_runtime::spawn(async move {
                        lane(li, p, seed, concurrent, &errs, &seen, &streams, &keep, &dir).await;
                        finished.borrow_mut()[li] = true;
                    }));
                }
                for t in tasks {
                    let _ = t.await;
                }
                keep.borrow_mut().clear();
            });
        }
    });
    let _ = std::fs::remove_dir_all(&dir);
    let end = end?;
    errs.first()?;
    for (li, f) in finished.borrow().iter().enumerate() {
        check!(*f, "lane-unfinished", "lane {li} did not run to its end");
    }
    let seen = seen.borrow();
    // exactly once: one outcome per operation issued
    for (li, p) in plans.iter().enumerate() {
        if matches!(p.lane, Lane::Meta | Lane::Pool | Lane::Duplex | Lane::HandOver | Lane::DupReads | Lane::Multi | Lane::Chatter) {
            continue;
        }
        for k in 0..p.ops.len() {
            let n = seen.iter().filter(|s| s.lane == li && s.op == k).count();
            check!(n == 1, "outcome-count", "lane {li} operation {k} produced {n} outcomes");
        }
    }
    if iour.get() {
        // each outcome is what the kernel did for the operation that carried this buffer
        for s in seen.iter() {
            let mine: Vec<&simkernel::Completion> = end.ledger.iter().filter(|c| c.addr == s.addr && c.flags & simkernel::CQE_F_MORE == 0).collect();
            check!(mine.len() == 1, "ledger-mismatch", "lane {} operation {}: the kernel completed {} operations with this buffer, the program awaited one", s.lane, s.op, mine.len());
            let c = mine[0];
            let kernel: Result<usize, i32> = if c.res >= 0 { Ok(c.res as usize) } else { Err(-c.res) };
            check!(kernel == s.res, "swapped-result", "lane {} operation {}: the program got {:?}, the kernel's completion for the operation with this buffer says {:?}", s.lane, s.op, s.res, kernel);
            if matches!(s.res, Ok(n) if n > 0) {
                check!(c.digest == s.digest, "swapped-data", "lane {} operation {}: the {} bytes the program sees in its buffer are not the bytes the kernel moved for this operation", s.lane, s.op, s.res.unwrap());
            }
            check!(s.done_ns <= c.at_ns + SLACK_NS, "left-waiting", "lane {} operation {}: completed in the kernel but observed by the program only {} ns later", s.lane, s.op, s.done_ns.saturating_sub(c.at_ns));
        }
    }
    // per descriptor: bytes in completion order are the stream
    for (li, p) in plans.iter().enumerate() {
        let mut mine: Vec<&Seen> = seen.iter().filter(|s| s.lane == li).collect();
        if !matches!(p.lane, Lane::PipeReads | Lane::UnixReads | Lane::UnixWrites) {
            continue;
        }
        if iour.get() {
            let order = |s: &Seen| end.ledger.iter().find(|c| c.addr == s.addr).map(|c| c.evseq).unwrap_or(u64::MAX);
            mine.sort_by_key(|s| order(s));
        }
        // (polling driver: no ledger; the order in which the program observed the completions, which is the
        // order of `seen`: operations queued on one descriptor are served first come, first served)
        let total: usize = mine.iter().map(|s| s.res.unwrap_or(0)).sum();
        let stream = &streams.borrow()[li];
        check!(total <= stream.len() || p.lane == Lane::UnixWrites, "stream-length", "lane {li}: the reads returned {total} bytes, the peer wrote {}", stream.len());
        if p.lane == Lane::UnixWrites {
            check!(total == stream.len(), "stream-length", "lane {li}: the writes reported {total} bytes, the peer received {}", stream.len());
        }
        let joined: Vec<u8> = mine.iter().flat_map(|s| s.bytes.iter().copied()).collect();
        check!(joined[..] == stream[..joined.len().min(stream.len())] && joined.len() <= stream.len(), "stream-content", "lane {li}: the bytes of its operations in completion order are not the peer's stream: {}", first_diff(&joined, stream));
    }
    check!(end.open_rings == 0, "ring-leak", "{} rings still open", end.open_rings);
    Ok(())
}

#[allow(clippy::too_many_arguments)]
async fn lane(li: usize, p: Plan, seed: u64, concurrent: bool, errs: &Errs, seen: &Rc<RefCell<Vec<Seen>>>, streams: &Rc<RefCell<Vec<Vec<u8>>>>, keep: &Rc<RefCell<Vec<Box<dyn std::any::Any>>>>, dir: &std::path::Path) {
    let at = |us: u64| Duration::from_micros(us);
    let record = |op: usize, addr: usize, write: bool, res: &std::io::Result<usize>, bytes: &[u8]| {
        let res = match res {
            Ok(n) => Ok(*n),
            Err(e) => Err(e.raw_os_error().unwrap_or(-1)),
        };
        seen.borrow_mut().push(Seen { lane: li, op, addr, write, res, digest: fnv(bytes), bytes: bytes.to_vec(), done_ns: simkernel::now_ns() });
    };
    match p.lane {
        Lane::PipeReads | Lane::UnixReads => {
            // the peer: a feed of bytes, then end of stream
            let total: usize = p.feed.iter().map(|f| f.1).sum();
            let table = Rc::new(sim::payload(seed ^ (li as u64) << 8, total));
            let cursor = Rc::new(std::cell::Cell::new(0usize));
            enum Peer {
                Pipe(compio_fs::pipe::Sender),
                Unix(std::os::unix::net::UnixStream),
            }
            let (pipe_rx, unix_rx, peer) = if p.lane == Lane::PipeReads {
                let Ok((rx, tx)) = compio_fs::pipe::anonymous().await else { return };
                (Some(rx), None, Peer::Pipe(tx))
            } else {
                let Ok((a, b)) = std::os::unix::net::UnixStream::pair() else { return };
                let Ok(s) = compio_net::UnixStream::from_std(a) else { return };
                (None, Some(s), Peer::Unix(b))
            };
            let peer = Rc::new(RefCell::new(Some(peer)));
            let left = Rc::new(std::cell::Cell::new(p.feed.len()));
            for (t, len) in p.feed.iter().copied() {
                let (table, cursor, peer, left, streams) = (table.clone(), cursor.clone(), peer.clone(), left.clone(), streams.clone());
                simkernel::at(at(t), format!("peer of lane {li} writes {len} bytes"), move || {
                    let off = cursor.get();
                    cursor.set(off + len);
                    let d = &table[off..off + len];
                    streams.borrow_mut()[li].extend_from_slice(d);
                    match peer.borrow_mut().as_mut() {
                        Some(Peer::Pipe(tx)) => {
                            use std::os::fd::AsRawFd;
                            unsafe { libc::write(tx.as_raw_fd(), d.as_ptr() as *const libc::c_void, d.len()) };
                        }
                        Some(Peer::Unix(s)) => {
                            let _ = s.write_all(d);
                        }
                        None => {}
                    }
                    left.set(left.get() - 1);
                    if left.get() == 0 {
                        // end of stream: reads still pending complete with 0
                        peer.borrow_mut().take();
                    }
                });
            }
            let one = |k: usize, cap: usize| {
                let (pipe_rx, unix_rx) = (&pipe_rx, &unix_rx);
                async move {
                    let buf = Vec::with_capacity(cap);
                    let addr = buf.as_ptr() as usize;
                    let BufResult(res, buf) = match (pipe_rx, unix_rx) {
                        (Some(r), _) => {
                            let mut r = r;
                            r.read(buf).await
                        }
                        (_, Some(s)) => {
                            let mut r = s;
                            r.read(buf).await
                        }
                        _ => unreachable!(),
                    };
                    if buf.as_ptr() as usize != addr || buf.capacity() < cap {
                        errs.push("buffer-identity", format!("lane {li} read {k}: a different buffer came back"));
                    }
                    if let Ok(n) = &res {
                        if *n != buf.len() {
                            errs.push("count", format!("lane {li} read {k}: {n} bytes reported, the buffer holds {}", buf.len()));
                        }
                    }
                    record(k, addr, false, &res, &buf);
                }
            };
            if concurrent {
                futures_util::future::join_all(p.ops.iter().copied().enumerate().map(|(k, cap)| one(k, cap))).await;
            } else {
                for (k, cap) in p.ops.iter().copied().enumerate() {
                    one(k, cap).await;
                }
            }
        }
        Lane::UnixWrites => {
            let Ok((a, b)) = std::os::unix::net::UnixStream::pair() else { return };
            let Ok(s) = compio_net::UnixStream::from_std(a) else { return };
            let _ = b.set_nonblocking(true);
            let one = |k: usize, len: usize| {
                let s = &s;
                async move {
                    let data = sim::payload(seed ^ ((li as u64) << 8) ^ ((k as u64 + 1) << 16), len);
                    let addr = data.as_ptr() as usize;
                    let mut w = s;
                    let BufResult(res, back) = w.write(data.clone()).await;
                    let _ = addr;
                    // (the buffer submitted is the clone: its address is what the kernel saw)
                    record(k, back.as_ptr() as usize, true, &res, &back[..res.as_ref().map(|n| *n).unwrap_or(0).min(back.len())]);
                    if back != data {
                        errs.push("buffer-identity", format!("lane {li} write {k}: the buffer came back changed"));
                    }
                }
            };
            if concurrent {
                futures_util::future::join_all(p.ops.iter().copied().enumerate().map(|(k, len)| one(k, len))).await;
            } else {
                for (k, len) in p.ops.iter().copied().enumerate() {
                    one(k, len).await;
                }
            }
            // what the peer received
            let mut b = b;
            let mut got = Vec::new();
            let mut tmp = [0u8; 4096];
            while let Ok(n) = b.read(&mut tmp) {
                if n == 0 {
                    break;
                }
                got.extend_from_slice(&tmp[..n]);
            }
            streams.borrow_mut()[li] = got;
            keep.borrow_mut().push(Box::new(b));
        }
        Lane::File => {
            // disjoint regions: operation k owns [k*512, k*512+len)
            let path = dir.join(format!("f{li}"));
            let initial = sim::payload(seed ^ (li as u64) << 8, p.ops.len() * 512);
            std::fs::write(&path, &initial).expect("scratch file");
            let Ok(f) = compio_fs::OpenOptions::new().read(true).write(true).open(&path).await else { return };
            let one = |k: usize, len: usize| {
                let (f, initial) = (&f, &initial);
                async move {
                    let pos = (k * 512) as u64;
                    if k % 2 == 0 {
                        let buf = Vec::with_capacity(len);
                        let addr = buf.as_ptr() as usize;
                        let BufResult(res, buf) = f.read_at(buf, pos).await;
                        if res.as_ref().ok() != Some(&len) || buf[..] != initial[k * 512..k * 512 + len] {
                            errs.push("content", format!("lane {li} read_at {k}: {res:?}, not the {len} bytes of its own region"));
                        }
                        record(k, addr, false, &res, &buf);
                    } else {
                        let data = sim::payload(seed ^ ((li as u64) << 8) ^ ((k as u64 + 1) << 16), len);
                        let mut w = f;
                        let BufResult(res, back) = w.write_at(data, pos).await;
                        record(k, back.as_ptr() as usize, true, &res, &back[..res.as_ref().map(|n| *n).unwrap_or(0).min(back.len())]);
                    }
                }
            };
            futures_util::future::join_all(p.ops.iter().copied().enumerate().map(|(k, len)| one(k, len.min(500)))).await;
            let _ = f.close().await;
            // every write landed in its own region, nothing else changed
            if let Ok(os) = std::fs::File::open(&path) {
                for (k, len) in p.ops.iter().copied().enumerate() {
                    let len = len.min(500);
                    let mut got = vec![0u8; 512];
                    let _ = os.read_at(&mut got, (k * 512) as u64);
                    let want = if k % 2 == 1 { sim::payload(seed ^ ((li as u64) << 8) ^ ((k as u64 + 1) << 16), len) } else { initial[k * 512..k * 512 + len].to_vec() };
                    if got[..len] != want[..] || got[len..] != initial[k * 512 + len..(k + 1) * 512] {
                        errs.push("content", format!("lane {li}: region {k} of the file is not what operation {k} alone would leave"));
                    }
                }
            }
        }
        Lane::Meta => {
            // files of different lengths: each metadata call must report its own file
            let mut paths = Vec::new();
            for (k, len) in p.ops.iter().copied().enumerate() {
                let path = dir.join(format!("m{li}-{k}"));
                std::fs::write(&path, vec![7u8; len]).expect("scratch file");
                paths.push((path, len));
            }
            let rs = futures_util::future::join_all(paths.iter().map(|(path, _)| compio_fs::metadata(path))).await;
            for (k, (r, (_, len))) in rs.into_iter().zip(paths.iter()).enumerate() {
                match r {
                    Ok(m) if m.len() == *len as u64 => {}
                    Ok(m) => errs.push("swapped-result", format!("lane {li} metadata {k}: reports {} bytes, its file has {len}", m.len())),
                    Err(e) => errs.push("io-error", format!("lane {li} metadata {k}: {e}")),
                }
            }
        }
        Lane::Duplex => {
            let Ok((a, b)) = std::os::unix::net::UnixStream::pair() else { return };
            let Ok(s) = compio_net::UnixStream::from_std(a) else { return };
            let _ = b.set_nonblocking(true);
            let peer = Rc::new(RefCell::new(b));
            // more than the socket buffers hold, so that the write has to wait for the peer
            let big = 300_000 + p.ops[0] * 1000;
            let out = sim::payload(seed ^ (li as u64) << 8 ^ 0xD0, big);
            let inc = sim::payload(seed ^ (li as u64) << 8 ^ 0xD1, 1 + p.ops.len() * 7);
            let drained: Rc<RefCell<Vec<u8>>> = Rc::default();
            let (t_drain, t_write) = (p.feed[0].0, p.feed.last().unwrap().0 + sim::range("duplex.gap", 0, 1) * 30);
            // the peer drains what has been written every 20 µs from t_drain on, until everything arrived
            {
                fn drain(peer: Rc<RefCell<std::os::unix::net::UnixStream>>, got: Rc<RefCell<Vec<u8>>>, want: usize, rounds: u32) {
                    let mut tmp = vec![0u8; 65536];
                    loop {
                        match peer.borrow_mut().read(&mut tmp) {
                            Ok(n) if n > 0 => got.borrow_mut().extend_from_slice(&tmp[..n]),
                            _ => break,
                        }
                    }
                    if got.borrow().len() < want && rounds < 400 {
                        simkernel::at(Duration::from_micros(20), "the duplex peer drains its socket".to_string(), move || drain(peer, got, want, rounds + 1));
                    }
                }
                let (peer, got) = (peer.clone(), drained.clone());
                simkernel::at(at(t_drain), format!("the peer of lane {li} starts draining"), move || drain(peer, got, big, 0));
            }
            {
                let (peer, inc) = (peer.clone(), inc.clone());
                simkernel::at(at(t_write), format!("the peer of lane {li} writes {} bytes", inc.len()), move || {
                    let _ = peer.borrow_mut().write_all(&inc);
                });
            }
            let rd = async {
                let mut r = &s;
                let BufResult(res, buf) = r.read(Vec::with_capacity(inc.len() + 8)).await;
                match res {
                    Ok(n) if n > 0 && buf[..n] == inc[..n] => {}
                    other => errs.push("content", format!("lane {li}: the read that pended next to a blocked write returned {other:?}, the peer wrote {} bytes", inc.len())),
                }
            };
            let wr = async {
                let mut w = &s;
                let mut off = 0;
                while off < out.len() {
                    let BufResult(res, _) = w.write(out[off..].to_vec()).await;
                    match res {
                        Ok(n) if n > 0 => off += n,
                        other => {
                            errs.push("io-error", format!("lane {li}: write next to a pending read returned {other:?}"));
                            break;
                        }
                    }
                }
            };
            futures_util::join!(rd, wr);
            // give the peer's periodic drain time to collect the tail
            for _ in 0..400 {
                if drained.borrow().len() >= big {
                    break;
                }
                compio_runtime::time::sleep(Duration::from_micros(20)).await;
            }
            if drained.borrow()[..] != out[..] {
                errs.push("stream-content", format!("lane {li}: the peer received {} of {big} bytes written next to a pending read: {}", drained.borrow().len(), first_diff(&drained.borrow(), &out)));
            }
            keep.borrow_mut().push(Box::new(peer));
        }
        Lane::HandOver => {
            let Ok((a, b)) = std::os::unix::net::UnixStream::pair() else { return };
            let Ok(s) = compio_net::UnixStream::from_std(a) else { return };
            let s = Rc::new(s);
            let data = sim::payload(seed ^ (li as u64) << 8 ^ 0xE0, 1 + p.ops[0] % 50);
            let peer = Rc::new(RefCell::new(b));
            {
                let (peer, d) = (peer.clone(), data.clone());
                simkernel::at(at(5 + p.feed[0].0), format!("the peer of lane {li} writes {} bytes", d.len()), move || {
                    let _ = peer.borrow_mut().write_all(&d);
                });
            }
            let s2 = s.clone();
            let cap = data.len() + 4;
            let mut fut = Box::pin(async move {
                let mut r = &*s2;
                r.read(Vec::with_capacity(cap)).await
            });
            // polled here once: the operation is submitted and remembers this task's waker
            if let std::task::Poll::Ready(BufResult(res, _)) = futures_util::poll!(fut.as_mut()) {
                errs.push("content", format!("lane {li}: a read completed ({res:?}) before the peer wrote anything"));
                return;
            }
            let h = compio_runtime::spawn(fut);
            match h.await {
                Ok(BufResult(Ok(n), buf)) if buf[..n] == data[..n] && n > 0 => {}
                other => errs.push("content", format!("lane {li}: the handed-over read returned {:?}", other.map(|r| r.0))),
            }
            keep.borrow_mut().push(Box::new(peer));
        }
        Lane::DupReads => {
            let Ok((a, b)) = std::os::unix::net::UnixStream::pair() else { return };
            let Ok(a2) = a.try_clone() else { return };
            let (Ok(s1), Ok(s2)) = (compio_net::UnixStream::from_std(a), compio_net::UnixStream::from_std(a2)) else { return };
            let c1 = sim::payload(seed ^ (li as u64) << 8 ^ 0xD1, 1 + p.ops[0] % 40);
            let c2 = sim::payload(seed ^ (li as u64) << 8 ^ 0xD2, 1 + p.ops[0] % 23);
            let peer = Rc::new(RefCell::new(b));
            let t1 = p.feed[0].0;
            for (t, d) in [(t1, c1.clone()), (t1 + 20 + p.feed[0].1 as u64, c2.clone())] {
                let peer = peer.clone();
                simkernel::at(at(t), format!("the peer of lane {li} writes {} bytes", d.len()), move || {
                    let _ = peer.borrow_mut().write_all(&d);
                });
            }
            let cap = c1.len().max(c2.len()) + 8;
            async fn read(s: &compio_net::UnixStream, cap: usize) -> BufResult<usize, Vec<u8>> {
                let mut r = s;
                r.read(Vec::with_capacity(cap)).await
            }
            let (BufResult(r1, b1), BufResult(r2, b2)) = futures_util::join!(read(&s1, cap), read(&s2, cap));
            let got = [(r1, b1), (r2, b2)];
            // (transfers may be short) each read gets at least a byte, and one after the other they are the
            // beginning of what the peer wrote
            let stream: Vec<u8> = c1.iter().chain(c2.iter()).copied().collect();
            let joined = |x: &Vec<u8>, y: &Vec<u8>| x.iter().chain(y.iter()).copied().collect::<Vec<u8>>();
            let prefix = |v: Vec<u8>| v.len() <= stream.len() && v[..] == stream[..v.len()];
            let ok = got.iter().all(|(r, b)| matches!(r, Ok(n) if *n > 0 && *n == b.len())) && (prefix(joined(&got[0].1, &got[1].1)) || prefix(joined(&got[1].1, &got[0].1)));
            if !ok {
                errs.push(
                    "stream-content",
                    format!("lane {li}: two reads on two descriptors of one socket, the peer wrote {} and later {} bytes: the reads returned {:?} ({} bytes) and {:?} ({} bytes), which is not the beginning of the peer's stream split over the two", c1.len(), c2.len(), got[0].0, got[0].1.len(), got[1].0, got[1].1.len()),
                );
            }
            keep.borrow_mut().push(Box::new(peer));
        }
        Lane::Multi => {
            use compio_io::AsyncReadMulti;
            use futures_util::StreamExt;
            let Ok((a, b)) = std::os::unix::net::UnixStream::pair() else { return };
            let Ok(s) = compio_net::UnixStream::from_std(a) else { return };
            let total: usize = p.feed.iter().map(|f| f.1).sum();
            let table = Rc::new(sim::payload(seed ^ (li as u64) << 8 ^ 0x3317, total));
            let cursor = Rc::new(std::cell::Cell::new(0usize));
            let peer = Rc::new(RefCell::new(Some(b)));
            let left = Rc::new(std::cell::Cell::new(p.feed.len()));
            for (t, len) in p.feed.iter().copied() {
                let (table, cursor, peer, left) = (table.clone(), cursor.clone(), peer.clone(), left.clone());
                simkernel::at(at(t), format!("peer of lane {li} writes {len} bytes"), move || {
                    let off = cursor.get();
                    cursor.set(off + len);
                    if let Some(s) = peer.borrow_mut().as_mut() {
                        let _ = s.write_all(&table[off..off + len]);
                    }
                    left.set(left.get() - 1);
                    if left.get() == 0 {
                        peer.borrow_mut().take();
                    }
                });
            }
            // the consumer is slow: everything may be queued (the end of the stream too) before it looks
            let pauses = [0u64, 3, 60];
            compio_runtime::time::sleep(at(pauses[p.ops[0] % 3])).await;
            let mut r = &s;
            let mut st = r.read_multi(0).boxed_local();
            let mut got = Vec::new();
            let mut rounds = 0;
            loop {
                rounds += 1;
                match st.next().await {
                    Some(Ok(b)) if b.is_empty() => break,
                    Some(Ok(b)) => got.extend_from_slice(&b),
                    // (the pool is shared with the other lanes: exhausted for the moment, reported as such)
                    Some(Err(e)) if (e.kind() == std::io::ErrorKind::ResourceBusy || e.raw_os_error() == Some(libc::ENOBUFS)) && rounds < 10_000 => compio_runtime::time::sleep(at(1)).await,
                    Some(Err(e)) => {
                        errs.push("stream-content", format!("lane {li}: the multishot read failed with {e} after {} of {total} bytes", got.len()));
                        break;
                    }
                    None => break,
                }
                if p.ops.len() > 1 {
                    compio_runtime::time::sleep(at(pauses[p.ops[1] % 3])).await;
                }
            }
            if got[..] != table[..] {
                errs.push("stream-content", format!("lane {li}: the multishot read delivered {} bytes up to the end of the stream, the peer wrote {total}: {}", got.len(), first_diff(&got, &table)));
            }
        }
        Lane::Chatter => {
            let Ok((a, b)) = std::os::unix::net::UnixStream::pair() else { return };
            let Ok(s) = compio_net::UnixStream::from_std(a) else { return };
            let peer = Rc::new(RefCell::new(b));
            let rounds = 400 + 100 * p.ops.len();
            let mut r = &s;
            for k in 0..rounds {
                let peer2 = peer.clone();
                simkernel::at(at(1), String::new(), move || {
                    let _ = peer2.borrow_mut().write_all(&[k as u8]);
                });
                let BufResult(res, b) = r.read(Vec::with_capacity(1)).await;
                if !matches!(res, Ok(1)) || b != [k as u8] {
                    errs.push("stream-content", format!("lane {li}: round {k} of a one-byte ping read {res:?} {b:?}"));
                    break;
                }
            }
            keep.borrow_mut().push(Box::new(peer));
        }
        Lane::Pool => {
            // each job notes when it ran; its submitter notes when it saw the result
            let jobs = p.ops.iter().copied().enumerate().map(|(k, len)| async move {
                let h = compio_runtime::spawn_blocking(move || (k, len * 3 + 1, simkernel::now_ns()));
                let r = h.await;
                (k, r, simkernel::now_ns())
            });
            for (k, r, seen_ns) in futures_util::future::join_all(jobs).await {
                match r {
                    Ok((kk, v, ran_ns)) if kk == k && v == p.ops[k] * 3 + 1 => {
                        if seen_ns > ran_ns + SLACK_NS {
                            errs.push("left-waiting", format!("lane {li} blocking job {k}: it ran to its end and its submitter saw the result only {} ns later", seen_ns - ran_ns));
                        }
                    }
                    other => errs.push("swapped-result", format!("lane {li} blocking job {k}: returned {other:?}")),
                }
            }
        }
    }
}
