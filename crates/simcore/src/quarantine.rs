//! A global allocator that, while a run is in progress on the calling thread,
//! quarantines freed blocks instead of returning them to the system (they are
//! released when the run ends). A use-after-free inside the code under test then
//! reads and writes memory that is still mapped and unchanged, so the run stays
//! deterministic and finishes; the harness reports the condition through its own
//! probes (e.g. "waker pushed into the executor's queue after the executor was
//! freed") instead of crashing or hanging.
//!
//! Opt in per binary: `#[global_allocator] static A: simcore::quarantine::Quarantine = simcore::quarantine::Quarantine;`

use std::{
    alloc::{GlobalAlloc, Layout, System},
    cell::Cell,
    ptr,
};

pub struct Quarantine;

const CHUNK: usize = 8192;

#[repr(C)]
struct Chunk {
    next: *mut Chunk,
    len: usize,
    items: [(*mut u8, usize, usize); CHUNK],
}

thread_local! {
    static ACTIVE: Cell<bool> = const { Cell::new(false) };
    static HEAD: Cell<*mut Chunk> = const { Cell::new(ptr::null_mut()) };
    static HELD: Cell<usize> = const { Cell::new(0) };
}

/// Start quarantining frees made on this thread.
pub fn begin() {
    ACTIVE.with(|a| a.set(true));
}

/// Stop quarantining and release everything held. Returns the number of blocks released.
pub fn end() -> usize {
    ACTIVE.with(|a| a.set(false));
    let mut n = 0;
    let mut head = HEAD.with(|h| h.replace(ptr::null_mut()));
    unsafe {
        while !head.is_null() {
            let c = &mut *head;
            for i in 0..c.len {
                let (p, size, align) = c.items[i];
                System.dealloc(p, Layout::from_size_align_unchecked(size, align));
                n += 1;
            }
            let next = c.next;
            System.dealloc(head as *mut u8, Layout::new::<Chunk>());
            head = next;
        }
    }
    HELD.with(|h| h.set(0));
    n
}

pub fn held_blocks() -> usize {
    HELD.with(|h| h.get())
}

unsafe impl GlobalAlloc for Quarantine {
    unsafe fn alloc(&self, layout: Layout) -> *mut u8 {
        unsafe { System.alloc(layout) }
    }

    unsafe fn alloc_zeroed(&self, layout: Layout) -> *mut u8 {
        unsafe { System.alloc_zeroed(layout) }
    }

    unsafe fn dealloc(&self, p: *mut u8, layout: Layout) {
        let active = ACTIVE.try_with(|a| a.get()).unwrap_or(false);
        if !active {
            unsafe { System.dealloc(p, layout) };
            return;
        }
        unsafe {
            let mut head = HEAD.with(|h| h.get());
            if head.is_null() || (*head).len == CHUNK {
                let c = System.alloc(Layout::new::<Chunk>()) as *mut Chunk;
                if c.is_null() {
                    System.dealloc(p, layout);
                    return;
                }
                ptr::addr_of_mut!((*c).next).write(head);
                ptr::addr_of_mut!((*c).len).write(0);
                head = c;
                HEAD.with(|h| h.set(head));
            }
            let c = &mut *head;
            c.items[c.len] = (p, layout.size(), layout.align());
            c.len += 1;
        }
        HELD.with(|h| h.set(h.get() + 1));
    }

    unsafe fn realloc(&self, p: *mut u8, layout: Layout, new_size: usize) -> *mut u8 {
        let active = ACTIVE.try_with(|a| a.get()).unwrap_or(false);
        if !active {
            return unsafe { System.realloc(p, layout, new_size) };
        }
        // move: the old block goes to quarantine, so stale pointers into it keep seeing the old bytes
        unsafe {
            let new_layout = Layout::from_size_align_unchecked(new_size, layout.align());
            let q = System.alloc(new_layout);
            if !q.is_null() {
                ptr::copy_nonoverlapping(p, q, layout.size().min(new_size));
                self.dealloc(p, layout);
            }
            q
        }
    }
}
