//! A global allocator that, while a run is in progress on the calling thread,
//! quarantines freed blocks instead of returning them to the system (they are
//! released when the run ends). A use-after-free inside the code under test then
//! reads and writes memory that is still mapped and unchanged, so the run stays
//! deterministic and finishes; the harness reports the condition through its own
//! probes (e.g. "waker pushed into the executor's queue after the executor was
//! freed") instead of crashing or hanging.
//!
//! Opt in per binary: `#[global_allocator] static A: simcore::quarantine::Quarantine = simcore::quarantine::Quarantine;`

use std::{
    alloc::{GlobalAlloc, Layout, System},
    cell::Cell,
    ptr,
};

pub struct Quarantine;

const CHUNK: usize = 8192;

#[repr(C)]
struct Chunk {
    next: *mut Chunk,
    len: usize,
    /// (block, size, align, checksum of its bytes when it was freed)
    items: [(*mut u8, usize, usize, u64); CHUNK],
}

/// Memory ranges somebody outside the program (the simulated kernel) may still read or write:
/// (address, length, tag). Freeing or moving a block that overlaps one is recorded.
const NWATCH: usize = 1024;

#[derive(Clone, Copy, Debug)]
pub struct WatchHit {
    pub watch_addr: usize,
    pub watch_len: usize,
    pub tag: u64,
    pub freed_addr: usize,
    pub freed_len: usize,
}

struct Watches {
    n: usize,
    w: [(usize, usize, u64); NWATCH],
    /// provided-buffer rings of the simulated kernel: (tag, ring address, entries, kernel head). The
    /// buffers published in a ring (entries between the kernel's head and the tail the program wrote)
    /// are memory the kernel may write at any time.
    nrings: usize,
    rings: [(u64, usize, u16, u16); 16],
}

thread_local! {
    static ACTIVE: Cell<bool> = const { Cell::new(false) };
    static HEAD: Cell<*mut Chunk> = const { Cell::new(ptr::null_mut()) };
    static HELD: Cell<usize> = const { Cell::new(0) };
    static WATCHES: std::cell::UnsafeCell<Watches> = const { std::cell::UnsafeCell::new(Watches { n: 0, w: [(0, 0, 0); NWATCH], nrings: 0, rings: [(0, 0, 0, 0); 16] }) };
    static HIT: Cell<Option<WatchHit>> = const { Cell::new(None) };
    static POISON: Cell<bool> = const { Cell::new(false) };
    /// first freed block found modified when the run ended: (address, size)
    static WRITTEN_AFTER_FREE: Cell<Option<(usize, usize)>> = const { Cell::new(None) };
}

/// Watch `[addr, addr+len)` under `tag`. No allocation happens here.
pub fn watch_add(addr: usize, len: usize, tag: u64) {
    if len == 0 {
        return;
    }
    WATCHES.with(|w| unsafe {
        let w = &mut *w.get();
        if w.n < NWATCH {
            w.w[w.n] = (addr, len, tag);
            w.n += 1;
        }
    });
}

pub fn watch_remove(tag: u64) {
    WATCHES.with(|w| unsafe {
        let w = &mut *w.get();
        let mut i = 0;
        while i < w.n {
            if w.w[i].2 == tag {
                w.w[i] = w.w[w.n - 1];
                w.n -= 1;
            } else {
                i += 1;
            }
        }
    });
}

pub fn pbuf_register(tag: u64, ring_addr: usize, entries: u16) {
    WATCHES.with(|w| unsafe {
        let w = &mut *w.get();
        if w.nrings < 16 {
            w.rings[w.nrings] = (tag, ring_addr, entries, 0);
            w.nrings += 1;
        }
    });
}

pub fn pbuf_set_head(tag: u64, head: u16) {
    WATCHES.with(|w| unsafe {
        let w = &mut *w.get();
        for i in 0..w.nrings {
            if w.rings[i].0 == tag {
                w.rings[i].3 = head;
            }
        }
    });
}

pub fn pbuf_unregister(tag: u64) {
    WATCHES.with(|w| unsafe {
        let w = &mut *w.get();
        let mut i = 0;
        while i < w.nrings {
            if w.rings[i].0 == tag {
                w.rings[i] = w.rings[w.nrings - 1];
                w.nrings -= 1;
            } else {
                i += 1;
            }
        }
    });
}

/// Fill freed blocks with a pattern (0xDD) before they are quarantined: code that goes on reading them
/// sees garbage instead of the old contents (a pointer read from them faults). Off by default.
pub fn set_poison(on: bool) {
    POISON.with(|p| p.set(on));
}

pub fn watch_clear() {
    WATCHES.with(|w| unsafe {
        (*w.get()).n = 0;
        (*w.get()).nrings = 0;
    });
    HIT.with(|h| h.set(None));
}

/// Whether `addr` lies in a block freed during this run (still quarantined).
pub fn is_freed(addr: usize) -> bool {
    let mut head = HEAD.with(|h| h.get());
    unsafe {
        while !head.is_null() {
            let c = &*head;
            for i in 0..c.len {
                let (p, size, _, _) = c.items[i];
                if (p as usize) <= addr && addr < p as usize + size {
                    return true;
                }
            }
            head = c.next;
        }
    }
    false
}

/// The first free of watched memory since the last call, if any.
pub fn take_hit() -> Option<WatchHit> {
    HIT.with(|h| h.take())
}

/// A block that was modified after it had been freed during the last run, if any.
pub fn take_written_after_free() -> Option<(usize, usize)> {
    WRITTEN_AFTER_FREE.with(|h| h.take())
}

fn check_watches(p: *mut u8, size: usize) {
    let (a, b) = (p as usize, p as usize + size);
    let _ = WATCHES.try_with(|w| unsafe {
        let w = &*w.get();
        for i in 0..w.n {
            let (wa, wl, tag) = w.w[i];
            if wa < b && a < wa + wl {
                let _ = HIT.try_with(|h| {
                    if h.get().is_none() {
                        h.set(Some(WatchHit { watch_addr: wa, watch_len: wl, tag, freed_addr: a, freed_len: size }));
                    }
                });
                break;
            }
        }
        // buffers currently published in a provided-buffer ring
        for k in 0..w.nrings {
            let (tag, ring, entries, head) = w.rings[k];
            if (a < ring + entries as usize * 16) && (ring < b) {
                continue; // the ring memory itself: covered by its own watch
            }
            let tail = ((ring + 14) as *const u16).read_volatile();
            let mask = entries.wrapping_sub(1);
            let mut idx = head;
            let mut guard = 0u32;
            while idx != tail && guard <= entries as u32 {
                let e = ring + ((idx & mask) as usize) * 16;
                let addr = (e as *const u64).read_unaligned() as usize;
                let len = ((e + 8) as *const u32).read_unaligned() as usize;
                if addr < b && a < addr + len {
                    let _ = HIT.try_with(|h| {
                        if h.get().is_none() {
                            h.set(Some(WatchHit { watch_addr: addr, watch_len: len, tag, freed_addr: a, freed_len: size }));
                        }
                    });
                    return;
                }
                idx = idx.wrapping_add(1);
                guard += 1;
            }
        }
    });
}

/// Checksum of a freed block (whole block up to 64 KiB, head and tail beyond).
unsafe fn checksum(p: *const u8, size: usize) -> u64 {
    let mut h = 0xcbf29ce484222325u64;
    let mut feed = |from: usize, to: usize| {
        let mut i = from;
        while i + 8 <= to {
            h = (h ^ unsafe { (p.add(i) as *const u64).read_unaligned() }).wrapping_mul(0x100000001b3);
            i += 8;
        }
        while i < to {
            h = (h ^ unsafe { *p.add(i) } as u64).wrapping_mul(0x100000001b3);
            i += 1;
        }
    };
    if size <= 65536 {
        feed(0, size);
    } else {
        feed(0, 32768);
        feed(size - 32768, size);
    }
    h
}

/// Start quarantining frees made on this thread.
pub fn begin() {
    ACTIVE.with(|a| a.set(true));
}

/// Stop quarantining and release everything held. Returns the number of blocks released.
pub fn end() -> usize {
    ACTIVE.with(|a| a.set(false));
    let mut n = 0;
    let mut head = HEAD.with(|h| h.replace(ptr::null_mut()));
    unsafe {
        while !head.is_null() {
            let c = &mut *head;
            for i in 0..c.len {
                let (p, size, align, sum) = c.items[i];
                if checksum(p, size) != sum {
                    WRITTEN_AFTER_FREE.with(|w| {
                        if w.get().is_none() {
                            w.set(Some((p as usize, size)));
                        }
                    });
                }
                System.dealloc(p, Layout::from_size_align_unchecked(size, align));
                n += 1;
            }
            let next = c.next;
            System.dealloc(head as *mut u8, Layout::new::<Chunk>());
            head = next;
        }
    }
    HELD.with(|h| h.set(0));
    n
}

pub fn held_blocks() -> usize {
    HELD.with(|h| h.get())
}

unsafe impl GlobalAlloc for Quarantine {
    unsafe fn alloc(&self, layout: Layout) -> *mut u8 {
        unsafe { System.alloc(layout) }
    }

    unsafe fn alloc_zeroed(&self, layout: Layout) -> *mut u8 {
        unsafe { System.alloc_zeroed(layout) }
    }

    unsafe fn dealloc(&self, p: *mut u8, layout: Layout) {
        let active = ACTIVE.try_with(|a| a.get()).unwrap_or(false);
        if !active {
            unsafe { System.dealloc(p, layout) };
            return;
        }
        unsafe {
            let mut head = HEAD.with(|h| h.get());
            if head.is_null() || (*head).len == CHUNK {
                let c = System.alloc(Layout::new::<Chunk>()) as *mut Chunk;
                if c.is_null() {
                    System.dealloc(p, layout);
                    return;
                }
                ptr::addr_of_mut!((*c).next).write(head);
                ptr::addr_of_mut!((*c).len).write(0);
                head = c;
                HEAD.with(|h| h.set(head));
            }
            check_watches(p, layout.size());
            if POISON.try_with(|x| x.get()).unwrap_or(false) {
                ptr::write_bytes(p, 0xDD, layout.size());
            }
            let c = &mut *head;
            c.items[c.len] = (p, layout.size(), layout.align(), checksum(p, layout.size()));
            c.len += 1;
        }
        HELD.with(|h| h.set(h.get() + 1));
    }

    unsafe fn realloc(&self, p: *mut u8, layout: Layout, new_size: usize) -> *mut u8 {
        let active = ACTIVE.try_with(|a| a.get()).unwrap_or(false);
        if !active {
            return unsafe { System.realloc(p, layout, new_size) };
        }
        // move: the old block goes to quarantine, so stale pointers into it keep seeing the old bytes
        unsafe {
            let new_layout = Layout::from_size_align_unchecked(new_size, layout.align());
            let q = System.alloc(new_layout);
            if !q.is_null() {
                ptr::copy_nonoverlapping(p, q, layout.size().min(new_size));
                self.dealloc(p, layout);
            }
            q
        }
    }
}
