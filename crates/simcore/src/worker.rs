//! Per-process worker: runs a slice of a batch, minimises what fails, writes
//! a JSON result the driver (`/verif/check`) merges. Also the `--replay` mode.

use std::{
    collections::BTreeMap,
    path::PathBuf,
    time::{Duration, Instant},
};

use serde::{Deserialize, Serialize};

use crate::*;

pub struct Scenario {
    /// e.g. "read_exact"
    pub name: &'static str,
    pub property: &'static str,
    pub engine: &'static str,
    pub run: fn() -> RunResult,
    /// relative share of a batch's runs
    pub weight: u32,
}

#[derive(Serialize, Deserialize, Clone, Debug)]
pub struct Known {
    pub property: String,
    #[serde(default)]
    pub scenario: Option<String>,
    pub oracle: String,
    /// substring that must occur in the violation detail ("" = any)
    #[serde(default)]
    pub detail_contains: String,
    pub what: String,
    #[serde(default)]
    pub status: String,
}

#[derive(Serialize, Deserialize, Clone, Debug)]
pub struct FoundViolation {
    pub scenario: String,
    pub seed: u64,
    pub oracle: String,
    pub detail: String,
    pub replay: String,
    pub minimised_len: usize,
    pub original_len: usize,
}

#[derive(Serialize, Deserialize, Clone, Debug, Default)]
pub struct Sample {
    pub scenario: String,
    pub seed: u64,
    pub log: Vec<String>,
    pub decisions: usize,
}

#[derive(Serialize, Deserialize, Clone, Debug, Default)]
pub struct WorkerOut {
    pub property: String,
    pub runs: u64,
    pub runs_per_scenario: BTreeMap<String, u64>,
    pub violations: Vec<FoundViolation>,
    pub known_hits: BTreeMap<String, u64>,
    pub unreproducible: u64,
    pub faults: BTreeMap<String, u64>,
    pub probes: BTreeMap<String, u64>,
    pub sigs: Vec<u64>,
    pub nontrivial_sigs: Vec<u64>,
    pub steps: u64,
    pub sim_ns: u64,
    pub decisions: u64,
    pub samples: Vec<Sample>,
    pub wall_s: f64,
    pub stopped_early: bool,
    pub digest: u64,
    pub sigs_capped: bool,
}

struct Args {
    prop: String,
    seed: u64,
    start: u64,
    count: u64,
    out: Option<PathBuf>,
    replay: Option<PathBuf>,
    known: Option<PathBuf>,
    time_limit: Option<f64>,
    replay_dir: PathBuf,
    only: Option<String>,
    verbose: bool,
    dump_log: bool,
    log_all: bool,
}

fn parse_args() -> Args {
    let mut a = Args {
        prop: String::new(),
        seed: 1,
        start: 0,
        count: 100,
        out: None,
        replay: None,
        known: None,
        time_limit: None,
        replay_dir: PathBuf::from("/verif/replays"),
        only: None,
        verbose: false,
        dump_log: false,
        log_all: false,
    };
    let mut it = std::env::args().skip(1);
    while let Some(k) = it.next() {
        let mut v = || it.next().unwrap_or_else(|| usage(&format!("missing value for {k}")));
        match k.as_str() {
            "--prop" => a.prop = v(),
            "--seed" => a.seed = v().parse().unwrap_or_else(|_| usage("bad --seed")),
            "--start" => a.start = v().parse().unwrap_or_else(|_| usage("bad --start")),
            "--count" => a.count = v().parse().unwrap_or_else(|_| usage("bad --count")),
            "--out" => a.out = Some(v().into()),
            "--replay" => a.replay = Some(v().into()),
            "--known" => a.known = Some(v().into()),
            "--time-limit" => a.time_limit = Some(v().parse().unwrap_or_else(|_| usage("bad --time-limit"))),
            "--replay-dir" => a.replay_dir = v().into(),
            "--only" => a.only = Some(v()),
            "--verbose" => a.verbose = true,
            "--dump-log" => a.dump_log = true,
            "--log-all" => a.log_all = true,
            _ => usage(&format!("unknown argument {k}")),
        }
    }
    a
}

fn usage(msg: &str) -> ! {
    eprintln!("worker: {msg}");
    eprintln!(
        "usage: <bin> --prop <id> [--seed N --start I --count N --out FILE --known FILE --time-limit S --only SCENARIO] | --replay FILE"
    );
    std::process::exit(2)
}

fn load_known(path: &Option<PathBuf>) -> Vec<Known> {
    let Some(p) = path else { return vec![] };
    let Ok(text) = std::fs::read_to_string(p) else {
        return vec![];
    };
    text.lines()
        .filter(|l| !l.trim().is_empty() && !l.trim_start().starts_with('#'))
        .filter_map(|l| serde_json::from_str::<Known>(l).ok())
        .filter(|k| k.status != "fixed")
        .collect()
}

fn matches_known<'a>(known: &'a [Known], prop: &str, scen: &str, v: &Violation) -> Option<&'a Known> {
    known.iter().find(|k| {
        k.property == prop
            && k.scenario.as_deref().map(|s| s == scen).unwrap_or(true)
            && k.oracle == v.oracle
            && v.detail.contains(&k.detail_contains)
    })
}

/// (run index + 1, seed, started-at in ms since process start); 0 = idle.
static WATCH: [std::sync::atomic::AtomicU64; 3] = [
    std::sync::atomic::AtomicU64::new(0),
    std::sync::atomic::AtomicU64::new(0),
    std::sync::atomic::AtomicU64::new(0),
];

/// A run that does not come back (a spin without scheduling points, typically memory
/// already corrupted) cannot be minimised or replayed from inside; name it and give up.
fn start_watchdog(limit_s: u64) {
    use std::sync::atomic::Ordering::SeqCst;
    let t0 = Instant::now();
    std::thread::spawn(move || {
        loop {
            std::thread::sleep(Duration::from_millis(500));
            let idx = WATCH[0].load(SeqCst);
            if idx == 0 {
                continue;
            }
            let started = WATCH[2].load(SeqCst);
            let now = t0.elapsed().as_millis() as u64;
            if now.saturating_sub(started) > limit_s * 1000 && WATCH[0].load(SeqCst) == idx {
                eprintln!("WATCHDOG run_index={} seed={} did not finish within {limit_s}s (hang without scheduling points)", idx - 1, WATCH[1].load(SeqCst));
                std::process::exit(4);
            }
        }
    });
    WATCH[2].store(0, SeqCst);
    let _ = t0;
}

/// Where the worker notes which run it is executing, for the driver to read if the process dies.
static JOURNAL: std::sync::OnceLock<std::fs::File> = std::sync::OnceLock::new();

fn journal(idx: u64, seed: u64, scenario: &str) {
    use std::os::unix::fs::FileExt;
    if let Some(f) = JOURNAL.get() {
        let line = format!("{idx} {seed} {scenario}\n{:40}", "");
        let _ = f.write_at(line.as_bytes(), 0);
    }
}

fn watch_begin(idx: u64, seed: u64, t0: &Instant) {
    use std::sync::atomic::Ordering::SeqCst;
    WATCH[1].store(seed, SeqCst);
    WATCH[2].store(t0.elapsed().as_millis() as u64, SeqCst);
    WATCH[0].store(idx + 1, SeqCst);
}

fn watch_end() {
    WATCH[0].store(0, std::sync::atomic::Ordering::SeqCst);
}

pub fn main(scenarios: &[Scenario]) -> ! {
    install_panic_hook();
    let args = parse_args();
    if let Some(path) = &args.replay {
        replay_main(scenarios, path, &args);
    }
    let mine: Vec<&Scenario> = scenarios
        .iter()
        .filter(|s| s.property == args.prop)
        .filter(|s| args.only.as_deref().map(|o| o == s.name).unwrap_or(true))
        .collect();
    if mine.is_empty() {
        usage(&format!("no scenario for property {:?}", args.prop));
    }
    let known = load_known(&args.known);
    let total_w: u64 = mine.iter().map(|s| s.weight as u64).sum();
    let t0 = Instant::now();
    if let Some(out) = &args.out {
        if let Ok(f) = std::fs::File::create(format!("{}.cur", out.display())) {
            let _ = JOURNAL.set(f);
        }
    }
    start_watchdog(60);
    warm_up(&mine);
    let mut out = WorkerOut {
        property: args.prop.clone(),
        ..Default::default()
    };
    let mut merge = Merge::default();
    let mut samples_per_scen: BTreeMap<&str, u32> = BTreeMap::new();
    for i in args.start..args.start + args.count {
        if let Some(lim) = args.time_limit {
            if t0.elapsed().as_secs_f64() > lim {
                out.stopped_early = true;
                break;
            }
        }
        let seed = run_seed(args.seed, &args.prop, i);
        // scenario selection is a function of the run index only
        let mut pick = {
            let mut x = seed ^ 0xABCD;
            splitmix64(&mut x) % total_w
        };
        let scen = mine
            .iter()
            .find(|s| {
                if pick < s.weight as u64 {
                    true
                } else {
                    pick -= s.weight as u64;
                    false
                }
            })
            .unwrap();
        let want_sample = {
            let c = samples_per_scen.entry(scen.name).or_insert(0);
            *c += 1;
            (*c <= 4 && args.start == 0) || args.log_all
        };
        watch_begin(i, seed, &t0);
        journal(i, seed, scen.name);
        let f = execute(&scen.run, Decider::generate(seed), want_sample);
        watch_end();
        out.runs += 1;
        *out.runs_per_scenario.entry(scen.name.to_string()).or_insert(0) += 1;
        merge.absorb(&f.decider);
        if want_sample && !args.log_all && f.result.is_ok() {
            // keep the richest of the first few runs of each scenario
            let prev = out.samples.iter().position(|s| s.scenario == scen.name);
            if let Some(i) = prev {
                if out.samples[i].log.len() >= f.decider.log.len() {
                    continue;
                }
                out.samples.remove(i);
            }
            out.samples.push(Sample {
                scenario: scen.name.to_string(),
                seed,
                log: f.decider.log.iter().take(60).cloned().collect(),
                decisions: f.decider.trace.len(),
            });
        }
        if let Err(v) = f.result {
            if let Some(k) = matches_known(&known, &args.prop, scen.name, &v) {
                *out.known_hits.entry(k.what.clone()).or_insert(0) += 1;
                continue;
            }
            if args.verbose {
                eprintln!("run {i} seed {seed} scenario {}: {} — {}", scen.name, v.oracle, v.detail);
            }
            // one violation per (scenario, oracle) per worker is enough
            if out
                .violations
                .iter()
                .any(|o| o.scenario == scen.name && o.oracle == v.oracle)
            {
                continue;
            }
            let original = f.decider.choices();
            watch_begin(i, seed, &t0);
            // does it reproduce at all?
            let again = execute(&scen.run, Decider::replay(seed, original.clone()), false);
            match &again.result {
                Err(v2) if v2.oracle == v.oracle => {}
                _ => {
                    out.unreproducible += 1;
                    eprintln!(
                        "UNREPRODUCIBLE property={} scenario={} seed={} oracle={} detail={}",
                        args.prop, scen.name, seed, v.oracle, v.detail
                    );
                    continue;
                }
            }
            let (min, attempts) = minimise(&scen.run, seed, original.clone(), &v.oracle, Duration::from_secs(20));
            let fin = execute(&scen.run, Decider::replay(seed, min.clone()), true);
            let (choices, viol, dec) = match fin.result {
                Err(v2) if v2.oracle == v.oracle => (min, v2, fin.decider),
                _ => {
                    let f2 = execute(&scen.run, Decider::replay(seed, original.clone()), true);
                    (original.clone(), v.clone(), f2.decider)
                }
            };
            let rf = ReplayFile {
                property: args.prop.clone(),
                scenario: scen.name.to_string(),
                engine: scen.engine.to_string(),
                seed,
                choices: choices.clone(),
                violation: viol.clone(),
                decisions: dec.trace.iter().map(|(k, n, v)| (k.to_string(), *n, *v)).collect(),
                log: dec.log.clone(),
                minimised_from: original.len(),
                minimise_attempts: attempts,
                from_seed: false,
            };
            let _ = std::fs::create_dir_all(&args.replay_dir);
            let path = args
                .replay_dir
                .join(format!("{}-{}-{}-{}.json", args.prop, scen.name, viol.oracle, seed));
            std::fs::write(&path, serde_json::to_string_pretty(&rf).unwrap()).expect("write replay file");
            watch_end();
            out.violations.push(FoundViolation {
                scenario: scen.name.to_string(),
                seed,
                oracle: viol.oracle.clone(),
                detail: viol.detail.clone(),
                replay: path.display().to_string(),
                minimised_len: choices.len(),
                original_len: original.len(),
            });
            if out.violations.len() >= 4 {
                out.stopped_early = true;
                break;
            }
        }
    }
    out.faults = merge.faults;
    out.probes = merge.probes;
    out.sigs = merge.sigs.into_iter().collect();
    out.nontrivial_sigs = merge.nontrivial_sigs.into_iter().collect();
    out.steps = merge.steps;
    out.sim_ns = merge.sim_ns;
    out.decisions = merge.decisions;
    out.digest = merge.digest;
    out.sigs_capped = merge.sigs_capped;
    out.wall_s = t0.elapsed().as_secs_f64();
    let text = serde_json::to_string(&out).unwrap();
    match &args.out {
        Some(p) => std::fs::write(p, text).expect("write worker output"),
        None => println!("{text}"),
    }
    std::process::exit(0)
}

/// Libraries under test initialise process-wide state lazily (hasher seeds from the entropy source, probe
/// caches, provider tables): whatever a process's first runs would set up is set up here instead, by the
/// same fixed runs in every process, so that no run of a batch depends on its position in its worker.
fn warm_up(scenarios: &[&Scenario]) {
    for s in scenarios {
        for w in 0..3u64 {
            // (a warm-up run that kills the process is reported like any other: its seed regenerates it)
            journal(w, 0x5741_524d_5550 + w, s.name);
            let _ = execute(&s.run, Decider::generate(0x5741_524d_5550 + w), false);
        }
    }
}

fn replay_main(scenarios: &[Scenario], path: &PathBuf, args: &Args) -> ! {
    let text = std::fs::read_to_string(path).unwrap_or_else(|e| {
        eprintln!("cannot read {}: {e}", path.display());
        std::process::exit(2)
    });
    let rf: ReplayFile = serde_json::from_str(&text).unwrap_or_else(|e| {
        eprintln!("bad replay file: {e}");
        std::process::exit(2)
    });
    let Some(scen) = scenarios
        .iter()
        .find(|s| s.property == rf.property && s.name == rf.scenario)
    else {
        eprintln!("no scenario {}/{} in this binary", rf.property, rf.scenario);
        std::process::exit(2)
    };
    warm_up(&[scen]);
    if rf.from_seed {
        // the recorded run killed its process: regenerate it from the seed; dying again is the reproduction
        start_watchdog(60);
        watch_begin(0, rf.seed, &Instant::now());
        eprintln!("replaying run seed={} of {}/{} from its seed; it is expected to end the process ({})", rf.seed, rf.property, rf.scenario, rf.violation.detail);
    }
    let decider = if rf.from_seed { Decider::generate(rf.seed) } else { Decider::replay(rf.seed, rf.choices.clone()) };
    let f = execute(&scen.run, decider, true);
    if args.dump_log {
        for l in &f.decider.log {
            println!("  | {l}");
        }
    }
    match f.result {
        Err(v) => {
            let same = v.oracle == rf.violation.oracle;
            println!(
                "REPLAY property={} scenario={} seed={} oracle={} same_oracle={} detail={}",
                rf.property, rf.scenario, rf.seed, v.oracle, same, v.detail
            );
            std::process::exit(if same { 1 } else { 3 })
        }
        Ok(()) => {
            println!(
                "REPLAY property={} scenario={} seed={} no violation",
                rf.property, rf.scenario, rf.seed
            );
            std::process::exit(0)
        }
    }
}
