//! simcore — the part every engine shares: one seeded PRNG behind a recording
//! `Decider`, choice-sequence replay and minimisation, counters for evidence,
//! and the per-process worker protocol spoken with `/verif/check`.
//!
//! Rules (DESIGN §2): every random choice of a run goes through `choose`/`flip`/
//! `range`; value 0 is always the benign alternative (no fault, full transfer,
//! oldest first, stay on the current thread), so a replay whose trace is
//! exhausted, or a trace with entries deleted by the minimiser, degrades to the
//! fault-free FIFO execution. Logging never draws and never reads a clock.

use std::{
    cell::RefCell,
    collections::{BTreeMap, BTreeSet},
    panic::{self, AssertUnwindSafe},
    time::{Duration, Instant},
};

use serde::{Deserialize, Serialize};

pub mod quarantine;
pub mod worker;

// ---------------------------------------------------------------- PRNG

#[derive(Clone, Debug)]
pub struct Rng {
    s: [u64; 4],
}

pub fn splitmix64(x: &mut u64) -> u64 {
    *x = x.wrapping_add(0x9E3779B97F4A7C15);
    let mut z = *x;
    z = (z ^ (z >> 30)).wrapping_mul(0xBF58476D1CE4E5B9);
    z = (z ^ (z >> 27)).wrapping_mul(0x94D049BB133111EB);
    z ^ (z >> 31)
}

pub fn fnv(s: &str) -> u64 {
    let mut h = 0xcbf29ce484222325u64;
    for b in s.bytes() {
        h ^= b as u64;
        h = h.wrapping_mul(0x100000001b3);
    }
    h
}

pub fn fnv_bytes(s: &[u8]) -> u64 {
    let mut h = 0xcbf29ce484222325u64;
    for b in s {
        h ^= *b as u64;
        h = h.wrapping_mul(0x100000001b3);
    }
    h
}

/// Seed of run `i` of a batch: a pure function of (VERIF_SEED, property, i).
pub fn run_seed(base: u64, property: &str, i: u64) -> u64 {
    let mut x = base ^ fnv(property).rotate_left(17) ^ i.wrapping_mul(0xD1342543DE82EF95);
    splitmix64(&mut x);
    splitmix64(&mut x)
}

impl Rng {
    pub fn new(seed: u64) -> Self {
        let mut x = seed;
        let s = [
            splitmix64(&mut x),
            splitmix64(&mut x),
            splitmix64(&mut x),
            splitmix64(&mut x),
        ];
        Rng { s }
    }

    pub fn next(&mut self) -> u64 {
        let r = self.s[1].wrapping_mul(5).rotate_left(7).wrapping_mul(9);
        let t = self.s[1] << 17;
        self.s[2] ^= self.s[0];
        self.s[3] ^= self.s[1];
        self.s[1] ^= self.s[2];
        self.s[0] ^= self.s[3];
        self.s[2] ^= t;
        self.s[3] = self.s[3].rotate_left(45);
        r
    }

    pub fn below(&mut self, n: u64) -> u64 {
        if n <= 1 { 0 } else { self.next() % n }
    }
}

// ---------------------------------------------------------------- Decider

#[derive(Clone, Debug, Serialize, Deserialize, PartialEq)]
pub struct Violation {
    pub oracle: String,
    pub detail: String,
}

impl Violation {
    pub fn new(oracle: &str, detail: impl Into<String>) -> Self {
        Violation {
            oracle: oracle.to_string(),
            detail: detail.into(),
        }
    }
}

pub type RunResult = Result<(), Violation>;

#[macro_export]
macro_rules! violation {
    ($oracle:expr, $($arg:tt)*) => {
        return Err($crate::Violation::new($oracle, format!($($arg)*)))
    };
}

#[macro_export]
macro_rules! check {
    ($cond:expr, $oracle:expr, $($arg:tt)*) => {
        if !($cond) {
            return Err($crate::Violation::new($oracle, format!($($arg)*)));
        }
    };
}

enum Mode {
    Gen(Rng),
    Replay { choices: Vec<u64>, pos: usize },
}

pub struct Decider {
    mode: Mode,
    pub seed: u64,
    /// (kind, n, chosen) of every draw, in order.
    pub trace: Vec<(&'static str, u64, u64)>,
    pub faults: BTreeMap<&'static str, u64>,
    pub probes: BTreeMap<&'static str, u64>,
    sig: u64,
    nontrivial: bool,
    pub steps: u64,
    pub sim_ns: u64,
    log_on: bool,
    pub log: Vec<String>,
    /// first violation raised from inside a seam (where no Result can be returned)
    pub pending: Option<Violation>,
}

impl Decider {
    pub fn generate(seed: u64) -> Self {
        Self::with_mode(Mode::Gen(Rng::new(seed)), seed)
    }

    pub fn replay(seed: u64, choices: Vec<u64>) -> Self {
        Self::with_mode(Mode::Replay { choices, pos: 0 }, seed)
    }

    fn with_mode(mode: Mode, seed: u64) -> Self {
        Decider {
            mode,
            seed,
            trace: Vec::new(),
            faults: BTreeMap::new(),
            probes: BTreeMap::new(),
            sig: 0xcbf29ce484222325,
            nontrivial: false,
            steps: 0,
            sim_ns: 0,
            log_on: false,
            log: Vec::new(),
            pending: None,
        }
    }

    fn draw(&mut self, kind: &'static str, n: u64, gen_fn: impl FnOnce(&mut Rng) -> u64) -> u64 {
        let v = if n <= 1 {
            // still recorded, so that traces line up when n changes between runs
            match &mut self.mode {
                Mode::Gen(_) => 0,
                Mode::Replay { pos, .. } => {
                    *pos += 1;
                    0
                }
            }
        } else {
            match &mut self.mode {
                Mode::Gen(r) => gen_fn(r).min(n - 1),
                Mode::Replay { choices, pos } => {
                    let v = choices.get(*pos).copied().unwrap_or(0);
                    *pos += 1;
                    if v < n { v } else { 0 }
                }
            }
        };
        self.trace.push((kind, n, v));
        v
    }

    /// Uniform choice among `n` alternatives; alternative 0 is the benign one.
    pub fn choose(&mut self, kind: &'static str, n: usize) -> usize {
        self.draw(kind, n as u64, |r| r.below(n as u64)) as usize
    }

    /// `true` with probability num/den. `false` (0) is the benign outcome.
    pub fn flip(&mut self, kind: &'static str, num: u32, den: u32) -> bool {
        self.draw(kind, 2, |r| (r.below(den as u64) < num as u64) as u64) != 0
    }

    /// Value in `lo..=hi`, biased towards both ends and small values.
    pub fn range(&mut self, kind: &'static str, lo: u64, hi: u64) -> u64 {
        debug_assert!(lo <= hi);
        let n = hi - lo + 1;
        lo + self.draw(kind, n, |r| match r.below(8) {
            0 => 0,
            1 => n - 1,
            2 => r.below(n.min(4)),
            3 => n - 1 - r.below(n.min(4)),
            4 | 5 => {
                // log-uniform
                let bits = 64 - (n - 1).leading_zeros() as u64;
                let b = r.below(bits + 1);
                r.below((1u64 << b).min(n).max(1))
            }
            _ => r.below(n),
        })
    }

    /// Weighted choice; index 0 should be the benign alternative.
    pub fn weighted(&mut self, kind: &'static str, weights: &[u32]) -> usize {
        let total: u64 = weights.iter().map(|w| *w as u64).sum();
        self.draw(kind, weights.len() as u64, |r| {
            let mut x = r.below(total.max(1));
            for (i, w) in weights.iter().enumerate() {
                if x < *w as u64 {
                    return i as u64;
                }
                x -= *w as u64;
            }
            0
        }) as usize
    }

    /// A sub-seed for bulk data (payload bytes); one recorded draw.
    pub fn subseed(&mut self, kind: &'static str) -> u64 {
        self.draw(kind, u64::MAX, |r| r.next())
    }

    pub fn fault(&mut self, kind: &'static str) {
        *self.faults.entry(kind).or_insert(0) += 1;
        self.nontrivial = true;
    }

    pub fn probe(&mut self, name: &'static str) {
        *self.probes.entry(name).or_insert(0) += 1;
    }

    pub fn sig(&mut self, x: u64) {
        self.sig = (self.sig ^ x).wrapping_mul(0x100000001b3).rotate_left(5);
    }

    pub fn mark_nontrivial(&mut self) {
        self.nontrivial = true;
    }

    pub fn step(&mut self) {
        self.steps += 1;
    }

    pub fn logging(&self) -> bool {
        self.log_on
    }

    pub fn set_logging(&mut self, on: bool) {
        self.log_on = on;
    }

    pub fn log(&mut self, f: impl FnOnce() -> String) {
        if self.log_on && self.log.len() < 400_000 {
            let s = f();
            if trace_to_stderr() {
                eprintln!("  | {s}");
            }
            self.log.push(s);
        }
    }

    pub fn raise(&mut self, v: Violation) {
        if self.pending.is_none() {
            self.pending = Some(v);
        }
    }

    pub fn choices(&self) -> Vec<u64> {
        self.trace.iter().map(|t| t.2).collect()
    }
}

/// VERIF_TRACE=1: echo the event log to stderr as it is produced (debugging hangs).
pub fn trace_to_stderr() -> bool {
    static T: std::sync::OnceLock<bool> = std::sync::OnceLock::new();
    *T.get_or_init(|| std::env::var_os("VERIF_TRACE").is_some())
}

// ---------------------------------------------------------------- randomness of the code under test

thread_local! {
    /// the random bytes handed to the code under test during a run (vendored `getrandom`): a stream of its
    /// own, derived from the run's seed, so that it does not show up in the choice sequence
    static ENTROPY: RefCell<Option<Rng>> = const { RefCell::new(None) };
}

/// Called by the vendored `getrandom` crates. Returns 1 after filling the buffer when a run is active on
/// this thread, 0 otherwise (the caller then asks the operating system).
#[unsafe(no_mangle)]
pub unsafe extern "C" fn __verif_getrandom(ptr: *mut u8, len: usize) -> i32 {
    if !in_run() {
        return 0;
    }
    let fill = |e: &RefCell<Option<Rng>>| {
        let Ok(mut e) = e.try_borrow_mut() else { return 0 };
        let Some(rng) = e.as_mut() else { return 0 };
        let out = unsafe { std::slice::from_raw_parts_mut(ptr, len) };
        for chunk in out.chunks_mut(8) {
            let v = rng.next().to_le_bytes();
            chunk.copy_from_slice(&v[..chunk.len()]);
        }
        1
    };
    if let Some(sh) = shared() {
        return fill(unsafe { &*sh.entropy });
    }
    ENTROPY.try_with(|e| fill(e)).unwrap_or(0)
}

// ---------------------------------------------------------------- runs with several threads (Engine M)
//
// A run belongs to the thread that executes it: decider, entropy stream and panic note are thread-locals of
// that thread. When a run starts further OS threads under a scheduler that lets exactly one of them run at
// any time, those threads adopt the run: their accesses go to the owning thread's cells through the pointers
// published here. Exclusive access is the scheduler's business (the hand-over of the baton orders them).

struct SharedRun {
    cur: *const RefCell<Option<Decider>>,
    entropy: *const RefCell<Option<Rng>>,
    last_panic: *const RefCell<Option<String>>,
}

static SHARED: std::sync::atomic::AtomicPtr<SharedRun> = std::sync::atomic::AtomicPtr::new(std::ptr::null_mut());

thread_local! {
    static ADOPTED: std::cell::Cell<bool> = const { std::cell::Cell::new(false) };
}

fn shared() -> Option<&'static SharedRun> {
    if !ADOPTED.try_with(|a| a.get()).unwrap_or(false) {
        return None;
    }
    let p = SHARED.load(std::sync::atomic::Ordering::Acquire);
    if p.is_null() { None } else { Some(unsafe { &*p }) }
}

/// The calling thread's run may be adopted by other threads from now on (until `share_end`).
pub fn share_begin() {
    let run = Box::new(SharedRun {
        cur: CUR.with(|c| c as *const _),
        entropy: ENTROPY.with(|c| c as *const _),
        last_panic: LAST_PANIC.with(|c| c as *const _),
    });
    let old = SHARED.swap(Box::into_raw(run), std::sync::atomic::Ordering::AcqRel);
    if !old.is_null() {
        drop(unsafe { Box::from_raw(old) });
    }
}

pub fn share_end() {
    let old = SHARED.swap(std::ptr::null_mut(), std::sync::atomic::Ordering::AcqRel);
    if !old.is_null() {
        drop(unsafe { Box::from_raw(old) });
    }
}

/// The calling thread takes part in (or leaves) the run published by `share_begin`.
pub fn adopt(on: bool) {
    let _ = ADOPTED.try_with(|a| a.set(on));
}

fn in_run() -> bool {
    shared().is_some() || IN_RUN.try_with(|c| c.get()).unwrap_or(false)
}

fn with_cur<R>(f: impl FnOnce(&RefCell<Option<Decider>>) -> R) -> R {
    match shared() {
        Some(sh) => f(unsafe { &*sh.cur }),
        None => CUR.with(f),
    }
}

// ---------------------------------------------------------------- thread-local access

thread_local! {
    static CUR: RefCell<Option<Decider>> = const { RefCell::new(None) };
}

/// Run `f` on the current run's decider. Panics outside a run (harness bug).
pub fn with<R>(f: impl FnOnce(&mut Decider) -> R) -> R {
    with_cur(|c| {
        let mut b = c.borrow_mut();
        f(b.as_mut().expect("simcore: no run in progress on this thread"))
    })
}

/// Like `with`, but a no-op returning `None` outside a run (used by vendored
/// crates, which may be called from harness set-up code).
pub fn try_with<R>(f: impl FnOnce(&mut Decider) -> R) -> Option<R> {
    with_cur(|c| match c.try_borrow_mut() {
        Ok(mut b) => b.as_mut().map(f),
        Err(_) => None,
    })
}

pub fn active() -> bool {
    with_cur(|c| c.try_borrow().map(|b| b.is_some()).unwrap_or(true))
}

pub fn choose(kind: &'static str, n: usize) -> usize {
    with(|d| d.choose(kind, n))
}
pub fn flip(kind: &'static str, num: u32, den: u32) -> bool {
    with(|d| d.flip(kind, num, den))
}
pub fn range(kind: &'static str, lo: u64, hi: u64) -> u64 {
    with(|d| d.range(kind, lo, hi))
}
pub fn weighted(kind: &'static str, w: &[u32]) -> usize {
    with(|d| d.weighted(kind, w))
}
pub fn subseed(kind: &'static str) -> u64 {
    with(|d| d.subseed(kind))
}
pub fn fault(kind: &'static str) {
    with(|d| d.fault(kind))
}
pub fn probe(name: &'static str) {
    with(|d| d.probe(name))
}
pub fn sig(x: u64) {
    with(|d| d.sig(x))
}
pub fn mark_nontrivial() {
    with(|d| d.mark_nontrivial())
}
pub fn step() {
    with(|d| d.step())
}
pub fn log(f: impl FnOnce() -> String) {
    with(|d| d.log(f))
}
pub fn raise(oracle: &str, detail: impl Into<String>) {
    let v = Violation::new(oracle, detail);
    with(|d| d.raise(v))
}
pub fn pending() -> RunResult {
    match with(|d| d.pending.clone()) {
        Some(v) => Err(v),
        None => Ok(()),
    }
}
pub fn advance_time(ns: u64) {
    with(|d| d.sim_ns += ns)
}

/// Deterministic payload bytes from a sub-seed; byte i of stream `tag` is
/// attributable: value depends on (seed, i).
pub fn payload(seed: u64, len: usize) -> Vec<u8> {
    let mut r = Rng::new(seed);
    let mut v = Vec::with_capacity(len);
    while v.len() < len {
        let x = r.next().to_le_bytes();
        let take = (len - v.len()).min(8);
        v.extend_from_slice(&x[..take]);
    }
    v
}

// ---------------------------------------------------------------- executing one run

thread_local! {
    static LAST_PANIC: RefCell<Option<String>> = const { RefCell::new(None) };
    static IN_RUN: std::cell::Cell<bool> = const { std::cell::Cell::new(false) };
}

pub fn install_panic_hook() {
    let prev = panic::take_hook();
    panic::set_hook(Box::new(move |info| {
        if in_run() {
            let msg = if let Some(s) = info.payload().downcast_ref::<&str>() {
                s.to_string()
            } else if let Some(s) = info.payload().downcast_ref::<String>() {
                s.clone()
            } else {
                "<non-string panic payload>".to_string()
            };
            // deliberate panics of workload code (task bodies that are meant to panic)
            if msg.starts_with("[expected]") {
                return;
            }
            let loc = info
                .location()
                .map(|l| format!("{}:{}", l.file(), l.line()))
                .unwrap_or_default();
            let note = |p: &RefCell<Option<String>>| {
                if let Ok(mut p) = p.try_borrow_mut() {
                    if p.is_none() {
                        *p = Some(format!("{msg} @ {loc}"));
                    }
                }
            };
            match shared() {
                Some(sh) => note(unsafe { &*sh.last_panic }),
                None => LAST_PANIC.with(|p| note(p)),
            }
        } else {
            prev(info);
        }
    }));
}

pub struct Finished {
    pub result: RunResult,
    pub decider: Decider,
}

/// Execute a scenario under a decider. A panic escaping the scenario is a
/// violation with oracle id `panic` (scenarios that expect panics catch them).
pub fn execute(scenario: &dyn Fn() -> RunResult, mut d: Decider, log: bool) -> Finished {
    d.set_logging(log);
    CUR.with(|c| *c.borrow_mut() = Some(d));
    LAST_PANIC.with(|p| *p.borrow_mut() = None);
    IN_RUN.with(|c| c.set(true));
    let entropy_seed = CUR.with(|c| c.borrow().as_ref().map(|d| d.seed).unwrap_or(0)) ^ 0x6e74726f70793a29;
    ENTROPY.with(|e| *e.borrow_mut() = Some(Rng::new(entropy_seed)));
    quarantine::begin();
    let r = panic::catch_unwind(AssertUnwindSafe(scenario));
    quarantine::end();
    let waf = quarantine::take_written_after_free();
    IN_RUN.with(|c| c.set(false));
    let mut d = CUR.with(|c| c.borrow_mut().take()).expect("decider vanished");
    let result = match r {
        Ok(Ok(())) => match d.pending.take() {
            Some(v) => Err(v),
            None => match waf {
                Some((_addr, size)) => Err(Violation::new(
                    "write-after-free",
                    format!("a heap block of {size} bytes freed during the run was modified afterwards: somebody kept using it"),
                )),
                None => Ok(()),
            },
        },
        Ok(Err(v)) => Err(d.pending.take().unwrap_or(v)),
        Err(_) => {
            let msg = LAST_PANIC
                .with(|p| p.borrow_mut().take())
                .unwrap_or_else(|| "panic".into());
            // a seam-raised violation that then led to a panic keeps its own id
            Err(d.pending.take().unwrap_or(Violation::new("panic", msg)))
        }
    };
    Finished { result, decider: d }
}

// ---------------------------------------------------------------- minimisation

/// Shrink a failing choice sequence (delete chunks, zero entries, lower
/// values) while the same oracle id fires. Bounded by wall-clock and attempts.
pub fn minimise(
    scenario: &dyn Fn() -> RunResult,
    seed: u64,
    mut choices: Vec<u64>,
    oracle: &str,
    budget: Duration,
) -> (Vec<u64>, u64) {
    let start = Instant::now();
    let mut attempts = 0u64;
    let fails = |cand: &Vec<u64>, attempts: &mut u64| -> Option<Vec<u64>> {
        *attempts += 1;
        let f = execute(scenario, Decider::replay(seed, cand.clone()), false);
        match f.result {
            Err(v) if v.oracle == oracle => {
                // normalise: what the run actually consumed
                let mut used = f.decider.choices();
                while used.last() == Some(&0) {
                    used.pop();
                }
                Some(used)
            }
            _ => None,
        }
    };
    let over = |attempts: u64| start.elapsed() > budget || attempts > 20_000;

    // normalise first
    if let Some(c) = fails(&choices, &mut attempts) {
        choices = c;
    } else {
        return (choices, attempts);
    }
    let mut improved = true;
    while improved && !over(attempts) {
        improved = false;
        // 1. delete chunks
        let mut size = (choices.len() / 2).max(1);
        while size >= 1 && !over(attempts) {
            let mut i = 0;
            while i + size <= choices.len() && !over(attempts) {
                let mut cand = choices.clone();
                cand.drain(i..i + size);
                if let Some(c) = fails(&cand, &mut attempts) {
                    if c.len() < choices.len() || c < choices {
                        choices = c;
                        improved = true;
                        continue;
                    }
                }
                i += size;
            }
            if size == 1 {
                break;
            }
            size /= 2;
        }
        // 2. zero chunks / entries
        let mut size = (choices.len() / 2).max(1);
        while size >= 1 && !over(attempts) {
            let mut i = 0;
            while i < choices.len() && !over(attempts) {
                let end = (i + size).min(choices.len());
                if choices[i..end].iter().any(|v| *v != 0) {
                    let mut cand = choices.clone();
                    for v in &mut cand[i..end] {
                        *v = 0;
                    }
                    if let Some(c) = fails(&cand, &mut attempts) {
                        if weight(&c) < weight(&choices) {
                            choices = c;
                            improved = true;
                        }
                    }
                }
                i += size;
            }
            if size == 1 {
                break;
            }
            size /= 2;
        }
        // 3. lower individual values
        let mut i = 0;
        while i < choices.len() && !over(attempts) {
            let v = choices[i];
            if v > 1 {
                for cand_v in [1, v / 2, v - 1] {
                    if cand_v >= v {
                        continue;
                    }
                    let mut cand = choices.clone();
                    cand[i] = cand_v;
                    if let Some(c) = fails(&cand, &mut attempts) {
                        if weight(&c) < weight(&choices) {
                            choices = c;
                            improved = true;
                            break;
                        }
                    }
                }
            }
            i += 1;
        }
    }
    (choices, attempts)
}

fn weight(c: &[u64]) -> (usize, usize, u128) {
    (
        c.len(),
        c.iter().filter(|v| **v != 0).count(),
        c.iter().map(|v| *v as u128).sum(),
    )
}

// ---------------------------------------------------------------- replay files

#[derive(Serialize, Deserialize, Clone, Debug)]
pub struct ReplayFile {
    pub property: String,
    pub scenario: String,
    pub engine: String,
    pub seed: u64,
    pub choices: Vec<u64>,
    pub violation: Violation,
    /// (kind, n, chosen) as executed — informational, for the reader
    pub decisions: Vec<(String, u64, u64)>,
    /// event log of the minimised run — informational
    pub log: Vec<String>,
    pub minimised_from: usize,
    pub minimise_attempts: u64,
    /// the run killed its process (abort, segmentation fault, hang caught by the watchdog): it cannot be
    /// minimised from inside; the replay regenerates it from the seed and is expected to die the same way
    #[serde(default)]
    pub from_seed: bool,
}

#[derive(Default)]
pub struct Merge {
    pub faults: BTreeMap<String, u64>,
    pub probes: BTreeMap<String, u64>,
    pub sigs: BTreeSet<u64>,
    pub nontrivial_sigs: BTreeSet<u64>,
    pub steps: u64,
    pub sim_ns: u64,
    pub decisions: u64,
    /// order-independent digest of (seed, trace, signature) of every run: two
    /// batches over the same run indices must agree whatever the worker count
    pub digest: u64,
    pub sigs_capped: bool,
}

pub const SIG_CAP: usize = 400_000;

impl Merge {
    pub fn absorb(&mut self, d: &Decider) {
        for (k, v) in &d.faults {
            *self.faults.entry(k.to_string()).or_insert(0) += v;
        }
        for (k, v) in &d.probes {
            *self.probes.entry(k.to_string()).or_insert(0) += v;
        }
        if self.sigs.len() < SIG_CAP {
            self.sigs.insert(d.sig);
            if d.nontrivial {
                self.nontrivial_sigs.insert(d.sig);
            }
        } else {
            self.sigs_capped = true;
        }
        let mut h = d.seed ^ d.sig.rotate_left(13);
        for (k, n, v) in &d.trace {
            h = (h ^ fnv(k) ^ n.rotate_left(7) ^ v.rotate_left(29)).wrapping_mul(0x100000001b3);
        }
        for l in &d.log {
            h = (h ^ fnv(l)).wrapping_mul(0x100000001b3);
        }
        self.digest = self.digest.wrapping_add(h);
        self.steps += d.steps;
        // (millions of runs of up to days of simulated time each)
        self.sim_ns = self.sim_ns.saturating_add(d.sim_ns);
        self.decisions += d.trace.len() as u64;
    }
}
