//! simsched — Engine T (DESIGN §5). Logical threads are shuttle coroutines on
//! one OS thread; *which* runnable thread proceeds at each scheduling point is
//! drawn from the run's `simcore` decider, so a whole multi-threaded execution is
//! one replayable, minimisable choice sequence (choice 0 = keep running the
//! current thread).
//!
//! Scheduling points: every `simhook::point` (compio's guarded hooks, vendored
//! flume/synchrony), every shuttle sync primitive used by the harness, spawn,
//! join, park. "All threads blocked" is reported by shuttle as a deadlock and
//! becomes the violation `deadlock` — the lost-wake-up oracle.

use std::{
    cell::Cell,
    panic::{self, AssertUnwindSafe},
    sync::Once,
};

use shuttle::scheduler::{Schedule, Scheduler, Task, TaskId};
use simcore::{RunResult, Violation};

pub use shuttle::{sync, thread};

struct DeciderScheduler {
    started: bool,
    /// probability of a context switch at a point where the current thread could go on: num/den
    switch_num: u32,
    switch_den: u32,
}

thread_local! {
    static POINTS: Cell<u64> = const { Cell::new(0) };
    /// a controlled execution is in progress on this OS thread (shuttle's own query panics outside one)
    static ACTIVE: Cell<bool> = const { Cell::new(false) };
}

fn current_task() -> Option<usize> {
    if ACTIVE.with(|a| a.get()) {
        shuttle::current::get_current_task().map(usize::from)
    } else {
        None
    }
}

impl Scheduler for DeciderScheduler {
    fn new_execution(&mut self) -> Option<Schedule> {
        if self.started {
            return None;
        }
        self.started = true;
        Some(Schedule::new(0))
    }

    fn next_task(&mut self, runnable: &[&Task], current: Option<TaskId>, is_yielding: bool) -> Option<TaskId> {
        let mut ids: Vec<usize> = runnable.iter().map(|t| usize::from(t.id())).collect();
        ids.sort_unstable();
        let cur = current.map(usize::from);
        simcore::step();
        if ids.len() == 1 {
            return Some(TaskId::from(ids[0]));
        }
        // candidate order: current first (if it may continue), then the others starting after it
        let cur_runnable = cur.map(|c| ids.contains(&c)).unwrap_or(false);
        let stay = cur_runnable && !is_yielding;
        let mut others: Vec<usize> = ids.iter().copied().filter(|i| Some(*i) != cur).collect();
        if let Some(c) = cur {
            let k = others.iter().position(|i| *i > c).unwrap_or(0);
            others.rotate_left(k);
        }
        simcore::mark_nontrivial();
        let pick = if stay {
            if simcore::flip("sched.switch", self.switch_num, self.switch_den) {
                others[simcore::choose("sched.to", others.len())]
            } else {
                cur.unwrap()
            }
        } else if others.is_empty() {
            // yielding but nobody else can run
            cur.unwrap()
        } else {
            others[simcore::choose("sched.to", others.len())]
        };
        simcore::sig(0x5c00 + pick as u64 * 31 + cur.unwrap_or(99) as u64);
        Some(TaskId::from(pick))
    }

    fn next_u64(&mut self) -> u64 {
        simcore::subseed("shuttle.rand")
    }
}

// ------------------------------------------------------------------ per-execution state

#[derive(Default)]
struct SchedState {
    /// shuttle handle of every logical thread that has talked to the hooks, by logical id
    threads: Vec<Option<shuttle::thread::Thread>>,
    now_ns: u64,
    /// pending timeouts: (deadline, logical thread, sequence for a total order)
    timers: Vec<(u64, u64, u64)>,
    timer_seq: u64,
    clock: Option<shuttle::thread::Thread>,
    clock_started: bool,
    clock_join: Option<shuttle::thread::JoinHandle<()>>,
    shutdown: bool,
    spawned: Vec<shuttle::thread::JoinHandle<()>>,
    timeouts_fired: u64,
}

thread_local! {
    static STATE: std::cell::RefCell<SchedState> = std::cell::RefCell::new(SchedState::default());
}

fn register_self(id: u64) {
    let missing = STATE.with(|s| {
        let s = s.borrow();
        s.threads.get(id as usize).map(|t| t.is_none()).unwrap_or(true)
    });
    if missing {
        let me = shuttle::thread::current();
        STATE.with(|s| {
            let mut s = s.borrow_mut();
            if s.threads.len() <= id as usize {
                s.threads.resize(id as usize + 1, None);
            }
            s.threads[id as usize] = Some(me);
        });
    }
}

fn hook_thread_id() -> Option<u64> {
    let id = current_task()? as u64;
    register_self(id);
    Some(id)
}

thread_local! {
    static OBSERVER: Cell<Option<fn(u32)>> = const { Cell::new(None) };
}

/// Let the harness look at every hook site as it is reached (before the possible switch).
pub fn set_site_observer(f: Option<fn(u32)>) {
    OBSERVER.with(|o| o.set(f));
}

fn hook_point(site: u32) {
    if current_task().is_some() && !std::thread::panicking() {
        if let Some(f) = OBSERVER.with(|o| o.get()) {
            f(site);
        }
        POINTS.with(|c| c.set(c.get() + 1));
        // a plain switch point (no "deprioritise me" hint)
        shuttle::thread::sleep(std::time::Duration::ZERO);
    }
}

fn hook_yield() {
    if current_task().is_some() && !std::thread::panicking() {
        shuttle::thread::yield_now();
    }
}

fn hook_unpark(id: u64) {
    let t = STATE.with(|s| s.borrow().threads.get(id as usize).cloned().flatten());
    if let Some(t) = t {
        t.unpark();
    }
}

fn hook_park(timeout: Option<std::time::Duration>) {
    let Some(me) = hook_thread_id() else { return };
    match timeout {
        None => shuttle::thread::park(),
        Some(d) => {
            let seq = STATE.with(|s| {
                let mut s = s.borrow_mut();
                s.timer_seq += 1;
                let seq = s.timer_seq;
                let deadline = s.now_ns.saturating_add(d.as_nanos().min(u64::MAX as u128) as u64);
                s.timers.push((deadline, me, seq));
                seq
            });
            ensure_clock();
            simcore::try_with(|dd| dd.log(|| format!("  sched: thread {me} parks with timeout {d:?}")));
            shuttle::thread::park();
            simcore::try_with(|dd| dd.log(|| format!("  sched: thread {me} resumes from timed park")));
            STATE.with(|s| s.borrow_mut().timers.retain(|t| t.2 != seq));
        }
    }
}

/// The clock: a logical thread that, whenever the scheduler lets it run and a timeout is pending,
/// advances simulated time to the earliest deadline and unparks its owner. It is runnable exactly
/// while timeouts are pending, so "when does a timeout fire relative to everything else" is a
/// scheduling decision, and "all threads blocked, no timeout pending" is still a deadlock.
fn ensure_clock() {
    // spawning is a scheduling point: reserve the role first so that only one clock is ever started
    let (spawn_it, clock) = STATE.with(|s| {
        let mut s = s.borrow_mut();
        if s.clock_started {
            (false, s.clock.clone())
        } else {
            s.clock_started = true;
            (true, None)
        }
    });
    if spawn_it {
        let h = shuttle::thread::spawn(clock_loop);
        let t = h.thread().clone();
        STATE.with(|s| {
            let mut s = s.borrow_mut();
            s.clock = Some(t);
            s.clock_join = Some(h);
        });
    } else if let Some(c) = clock {
        // (a clock that is still being started finds our timer when it first runs)
        c.unpark();
    }
}

fn clock_loop() {
    loop {
        shuttle::thread::sleep(std::time::Duration::ZERO);
        let next = STATE.with(|s| {
            let mut s = s.borrow_mut();
            if let Some(i) = (0..s.timers.len()).min_by_key(|i| (s.timers[*i].0, s.timers[*i].2)) {
                let (deadline, tid, _) = s.timers.remove(i);
                // strictly past the deadline: code that re-reads the clock after a timed wait must see it expired
                s.now_ns = s.now_ns.max(deadline.saturating_add(1));
                s.timeouts_fired += 1;
                Ok(tid)
            } else {
                Err(s.shutdown)
            }
        });
        match next {
            Ok(tid) => {
                simcore::try_with(|d| d.sim_ns = STATE.with(|s| s.borrow().now_ns));
                simcore::try_with(|dd| dd.log(|| format!("  clock: timeout of thread {tid} fires at {:?}", hook_now())));
                hook_unpark(tid);
            }
            Err(true) => {
                simcore::try_with(|dd| dd.log(|| format!("  clock (thread {:?}): exits", current_task())));
                return;
            }
            Err(false) => {
                simcore::try_with(|dd| dd.log(|| format!("  clock (thread {:?}): idle, parks", current_task())));
                shuttle::thread::park();
                simcore::try_with(|dd| dd.log(|| "  clock: unparked".to_string()));
            }
        }
    }
}

fn hook_spawn(f: Box<dyn FnOnce() + Send + 'static>) {
    let h = shuttle::thread::spawn(move || {
        let me = hook_thread_id();
        simcore::try_with(|dd| dd.log(|| format!("  sched: spawned thread {me:?} starts")));
        // a panicking job unwinds its thread like a std thread would: drop guards run, the thread ends
        if let Err(p) = std::panic::catch_unwind(std::panic::AssertUnwindSafe(f)) {
            let msg = p.downcast_ref::<String>().cloned().or_else(|| p.downcast_ref::<&str>().map(|s| s.to_string())).unwrap_or_default();
            if !msg.starts_with("[expected]") {
                simcore::raise("worker-panic", format!("a thread started through the spawn hook panicked: {msg}"));
            }
            simcore::try_with(|dd| dd.log(|| format!("  sched: spawned thread {me:?} ends by panic")));
            return;
        }
        simcore::try_with(|dd| dd.log(|| format!("  sched: spawned thread {me:?} exits")));
    });
    STATE.with(|s| s.borrow_mut().spawned.push(h));
}

fn hook_now() -> std::time::Duration {
    std::time::Duration::from_nanos(STATE.with(|s| s.borrow().now_ns))
}

/// Simulated time of this execution.
pub fn now() -> std::time::Duration {
    hook_now()
}

pub fn timeouts_fired() -> u64 {
    STATE.with(|s| s.borrow().timeouts_fired)
}

/// Wait for the threads started through the spawn hook (pool workers, ...) and stop the clock.
/// Runs at the end of the main logical thread, inside the execution.
fn wind_down() {
    simcore::try_with(|dd| dd.log(|| "  sched: main body done, winding down".to_string()));
    loop {
        let h = STATE.with(|s| s.borrow_mut().spawned.pop());
        match h {
            Some(h) => {
                let _ = h.join();
            }
            None => break,
        }
    }
    let (clock, join) = STATE.with(|s| {
        let mut s = s.borrow_mut();
        s.shutdown = true;
        (s.clock.take(), s.clock_join.take())
    });
    simcore::try_with(|dd| dd.log(|| format!("  sched: stopping the clock (exists: {})", clock.is_some())));
    if let Some(c) = clock {
        c.unpark();
    }
    if let Some(j) = join {
        let _ = j.join();
    }
    simcore::try_with(|dd| dd.log(|| "  sched: wound down".to_string()));
}

static HOOKS: simhook::Hooks = simhook::Hooks {
    thread_id: hook_thread_id,
    point: hook_point,
    yield_now: hook_yield,
    park: hook_park,
    unpark: hook_unpark,
    spawn: hook_spawn,
    now: hook_now,
    choose: |_site, n| simcore::try_with(|d| d.choose("hook.order", n)).unwrap_or(0),
    op_supported: |_| None,
};

pub fn install() {
    static ONCE: Once = Once::new();
    ONCE.call_once(|| simhook::install(&HOOKS));
}

pub fn in_sim() -> bool {
    current_task().is_some()
}

/// Logical id of the calling thread inside an execution.
pub fn me() -> usize {
    current_task().unwrap_or(usize::MAX)
}

/// An explicit scheduling point for harness code.
pub fn point() {
    hook_point(0)
}

/// Run `body` as the main logical thread of one controlled execution.
/// Violations are raised through `simcore::raise`; a shuttle deadlock or step
/// bound becomes a violation with that oracle id; other panics propagate as
/// `panic` violations through `simcore::execute`.
pub fn run(max_steps: usize, body: impl Fn() + Send + Sync + 'static) -> RunResult {
    install();
    // swarm: how eagerly this run preempts
    let (num, den) = match simcore::weighted("cfg.sched.rate", &[2, 3, 3, 2]) {
        0 => (1, 2),
        1 => (1, 6),
        2 => (1, 24),
        _ => (1, 100),
    };
    let mut cfg = shuttle::Config::new();
    cfg.stack_size = 1 << 20;
    cfg.failure_persistence = shuttle::FailurePersistence::None;
    cfg.max_steps = shuttle::MaxSteps::FailAfter(max_steps);
    cfg.silence_warnings = true;
    let sched = DeciderScheduler {
        started: false,
        switch_num: num,
        switch_den: den,
    };
    let runner = shuttle::Runner::new(sched, cfg);
    STATE.with(|s| *s.borrow_mut() = SchedState::default());
    ACTIVE.with(|a| a.set(true));
    let r = panic::catch_unwind(AssertUnwindSafe(move || {
        runner.run(move || {
            let _ = hook_thread_id();
            body();
            wind_down();
        });
    }));
    ACTIVE.with(|a| a.set(false));
    // handles of a failed execution must not outlive it
    STATE.with(|s| {
        let st = std::mem::take(&mut *s.borrow_mut());
        std::mem::forget(st.spawned);
        std::mem::forget(st.clock_join);
        std::mem::forget(st.threads);
        std::mem::forget(st.clock);
    });
    simcore::pending()?;
    match r {
        Ok(()) => Ok(()),
        Err(p) => {
            let msg = if let Some(s) = p.downcast_ref::<&str>() {
                s.to_string()
            } else if let Some(s) = p.downcast_ref::<String>() {
                s.clone()
            } else {
                String::new()
            };
            if msg.contains("deadlock") {
                Err(Violation::new("deadlock", first_line(&msg)))
            } else if msg.contains("exceeded max_steps") || msg.contains("max_steps") {
                Err(Violation::new("step-bound", first_line(&msg)))
            } else {
                // let simcore classify it as a panic, with the message its hook recorded first
                panic::resume_unwind(p)
            }
        }
    }
}

fn first_line(s: &str) -> String {
    s.lines().find(|l| !l.trim().is_empty()).unwrap_or("").chars().take(400).collect()
}
