//! simsched — Engine T (DESIGN §5). Logical threads are shuttle coroutines on
//! one OS thread; *which* runnable thread proceeds at each scheduling point is
//! drawn from the run's `simcore` decider, so a whole multi-threaded execution is
//! one replayable, minimisable choice sequence (choice 0 = keep running the
//! current thread).
//!
//! Scheduling points: every `simhook::point` (compio's guarded hooks, vendored
//! flume/synchrony), every shuttle sync primitive used by the harness, spawn,
//! join, park. "All threads blocked" is reported by shuttle as a deadlock and
//! becomes the violation `deadlock` — the lost-wake-up oracle.

use std::{
    cell::Cell,
    panic::{self, AssertUnwindSafe},
    sync::Once,
};

use shuttle::scheduler::{Schedule, Scheduler, Task, TaskId};
use simcore::{RunResult, Violation};

pub use shuttle::{sync, thread};

struct DeciderScheduler {
    started: bool,
    /// probability of a context switch at a point where the current thread could go on: num/den
    switch_num: u32,
    switch_den: u32,
}

thread_local! {
    static POINTS: Cell<u64> = const { Cell::new(0) };
    /// a controlled execution is in progress on this OS thread (shuttle's own query panics outside one)
    static ACTIVE: Cell<bool> = const { Cell::new(false) };
}

fn current_task() -> Option<usize> {
    if ACTIVE.with(|a| a.get()) {
        shuttle::current::get_current_task().map(usize::from)
    } else {
        None
    }
}

impl Scheduler for DeciderScheduler {
    fn new_execution(&mut self) -> Option<Schedule> {
        if self.started {
            return None;
        }
        self.started = true;
        Some(Schedule::new(0))
    }

    fn next_task(&mut self, runnable: &[&Task], current: Option<TaskId>, is_yielding: bool) -> Option<TaskId> {
        let mut ids: Vec<usize> = runnable.iter().map(|t| usize::from(t.id())).collect();
        ids.sort_unstable();
        let cur = current.map(usize::from);
        simcore::step();
        if ids.len() == 1 {
            return Some(TaskId::from(ids[0]));
        }
        // candidate order: current first (if it may continue), then the others starting after it
        let cur_runnable = cur.map(|c| ids.contains(&c)).unwrap_or(false);
        let stay = cur_runnable && !is_yielding;
        let mut others: Vec<usize> = ids.iter().copied().filter(|i| Some(*i) != cur).collect();
        if let Some(c) = cur {
            let k = others.iter().position(|i| *i > c).unwrap_or(0);
            others.rotate_left(k);
        }
        simcore::mark_nontrivial();
        let pick = if stay {
            if simcore::flip("sched.switch", self.switch_num, self.switch_den) {
                others[simcore::choose("sched.to", others.len())]
            } else {
                cur.unwrap()
            }
        } else if others.is_empty() {
            // yielding but nobody else can run
            cur.unwrap()
        } else {
            others[simcore::choose("sched.to", others.len())]
        };
        simcore::sig(0x5c00 + pick as u64 * 31 + cur.unwrap_or(99) as u64);
        Some(TaskId::from(pick))
    }

    fn next_u64(&mut self) -> u64 {
        simcore::subseed("shuttle.rand")
    }
}

fn hook_thread_id() -> Option<u64> {
    current_task().map(|t| t as u64)
}

thread_local! {
    static OBSERVER: Cell<Option<fn(u32)>> = const { Cell::new(None) };
}

/// Let the harness look at every hook site as it is reached (before the possible switch).
pub fn set_site_observer(f: Option<fn(u32)>) {
    OBSERVER.with(|o| o.set(f));
}

fn hook_point(site: u32) {
    if current_task().is_some() && !std::thread::panicking() {
        if let Some(f) = OBSERVER.with(|o| o.get()) {
            f(site);
        }
        POINTS.with(|c| c.set(c.get() + 1));
        // a plain switch point (no "deprioritise me" hint)
        shuttle::thread::sleep(std::time::Duration::ZERO);
    }
}

fn hook_yield() {
    if current_task().is_some() && !std::thread::panicking() {
        shuttle::thread::yield_now();
    }
}

static HOOKS: simhook::Hooks = simhook::Hooks {
    thread_id: hook_thread_id,
    point: hook_point,
    yield_now: hook_yield,
};

pub fn install() {
    static ONCE: Once = Once::new();
    ONCE.call_once(|| simhook::install(&HOOKS));
}

pub fn in_sim() -> bool {
    current_task().is_some()
}

/// Logical id of the calling thread inside an execution.
pub fn me() -> usize {
    current_task().unwrap_or(usize::MAX)
}

/// An explicit scheduling point for harness code.
pub fn point() {
    hook_point(0)
}

/// Run `body` as the main logical thread of one controlled execution.
/// Violations are raised through `simcore::raise`; a shuttle deadlock or step
/// bound becomes a violation with that oracle id; other panics propagate as
/// `panic` violations through `simcore::execute`.
pub fn run(max_steps: usize, body: impl Fn() + Send + Sync + 'static) -> RunResult {
    install();
    // swarm: how eagerly this run preempts
    let (num, den) = match simcore::weighted("cfg.sched.rate", &[2, 3, 3, 2]) {
        0 => (1, 2),
        1 => (1, 6),
        2 => (1, 24),
        _ => (1, 100),
    };
    let mut cfg = shuttle::Config::new();
    cfg.stack_size = 1 << 20;
    cfg.failure_persistence = shuttle::FailurePersistence::None;
    cfg.max_steps = shuttle::MaxSteps::FailAfter(max_steps);
    cfg.silence_warnings = true;
    let sched = DeciderScheduler {
        started: false,
        switch_num: num,
        switch_den: den,
    };
    let runner = shuttle::Runner::new(sched, cfg);
    ACTIVE.with(|a| a.set(true));
    let r = panic::catch_unwind(AssertUnwindSafe(move || {
        runner.run(body);
    }));
    ACTIVE.with(|a| a.set(false));
    simcore::pending()?;
    match r {
        Ok(()) => Ok(()),
        Err(p) => {
            let msg = if let Some(s) = p.downcast_ref::<&str>() {
                s.to_string()
            } else if let Some(s) = p.downcast_ref::<String>() {
                s.clone()
            } else {
                String::new()
            };
            if msg.contains("deadlock") {
                Err(Violation::new("deadlock", first_line(&msg)))
            } else if msg.contains("exceeded max_steps") || msg.contains("max_steps") {
                Err(Violation::new("step-bound", first_line(&msg)))
            } else {
                // let simcore classify it as a panic, with the message its hook recorded first
                panic::resume_unwind(p)
            }
        }
    }
}

fn first_line(s: &str) -> String {
    s.lines().find(|l| !l.trim().is_empty()).unwrap_or("").chars().take(400).collect()
}
