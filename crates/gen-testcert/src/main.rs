//! Generates the fixed test key material under /verif/data (run once; output is committed,
//! so TLS record sizes are identical in every process that replays a run). RSA, because
//! both back-ends load it and its signatures have a constant length.
// (the vendored getrandom crates refer to a symbol simcore defines)
use simcore as _;
use rsa::pkcs8::EncodePrivateKey;
fn main() {
    let dir = std::env::args().nth(1).expect("output dir");
    let mut rng = rand::rng();
    let private_key = rsa::RsaPrivateKey::new(&mut rng, 2048).unwrap();
    let der = private_key.to_pkcs8_der().unwrap();
    let key = rcgen::KeyPair::try_from(der.as_bytes()).unwrap();
    let mut params = rcgen::CertificateParams::new(["localhost".to_string()]).unwrap();
    params.serial_number = Some(rcgen::SerialNumber::from(vec![0x42; 8]));
    let cert = params.self_signed(&key).unwrap();
    std::fs::write(format!("{dir}/cert.pem"), cert.pem()).unwrap();
    std::fs::write(format!("{dir}/key.pem"), key.serialize_pem()).unwrap();
    println!("wrote {dir}/cert.pem and key.pem");
}
