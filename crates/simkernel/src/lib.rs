//! simkernel — Engine K (DESIGN §4): an in-process stand-in for the kernel side
//! of io_uring. The vendored `io-uring` crate's three system calls and its
//! `mmap` land here; everything above (ring code, opcode builders, the compio
//! driver and runtime) is the real code.
//!
//! The ring memory follows the kernel ABI. Each consumed SQE becomes a pending
//! `KOp`. An operation is *completed* by performing the real non-blocking system
//! call on the real descriptor at a moment the run's decider picks, in an order
//! it picks, with the short counts / errno it picks among what the kernel may
//! legally do; CQEs become visible at `io_uring_enter` boundaries. The clock is
//! simulated; blocking-pool jobs are queued events run inline (virtual pool).
//!
//! Outside a simcore run (no decider on the thread) every decision takes the
//! benign default: oldest first, full transfer, no fault. compio's own test
//! suite runs on that mode as a fidelity check of the model.

use std::{
    cell::RefCell,
    collections::{BTreeMap, VecDeque},
    time::Duration,
};

pub mod abi;
mod clock;
mod interpose;
pub mod multi;
mod ops;
pub mod pollsim;
mod ring;

pub use clock::*;
pub use ops::{KOp, op_name};
pub use ring::*;

/// Per-run knobs (swarm). Rates are x/64 per opportunity.
#[derive(Clone, Debug)]
pub struct KConfig {
    /// complete something other than the oldest completable operation
    pub reorder: u32,
    /// short transfer on stream reads/writes
    pub short: u32,
    /// leave a completable operation pending when the caller did not ask to wait
    pub lazy: u32,
    /// return -EINTR from a waiting enter without doing anything
    pub eintr: u32,
    /// end a multishot operation (CQE without F_MORE) although it could go on
    pub multishot_end: u32,
    /// consume fewer SQEs than requested (the driver must resubmit)
    pub partial_submit: u32,
    /// delay the zero-copy notification CQE
    pub zc_delay: u32,
    /// -EAGAIN/-EINTR result on an operation that may legally get one
    pub op_eintr: u32,
    /// opcodes reported as unsupported by the probe (per process, see DESIGN §4.1)
    pub unsupported: Vec<u8>,
    /// cap for SQ entries regardless of what the builder asks (0 = as requested)
    pub sq_entries_cap: u32,
    pub cq_entries_cap: u32,
    /// ns added to the clock by every enter
    pub tick_ns: u64,
    /// datagrams sent through sendmsg on a datagram socket get lost / duplicated on the way (only
    /// scenarios whose protocol recovers from it switch these on)
    pub udp_loss: u32,
    pub udp_dup: u32,
}

impl Default for KConfig {
    fn default() -> Self {
        KConfig {
            reorder: 0,
            short: 0,
            lazy: 0,
            eintr: 0,
            multishot_end: 0,
            partial_submit: 0,
            zc_delay: 0,
            op_eintr: 0,
            unsupported: Vec::new(),
            sq_entries_cap: 0,
            cq_entries_cap: 0,
            tick_ns: 1_000,
            udp_loss: 0,
            udp_dup: 0,
        }
    }
}

impl KConfig {
    /// Swarm draw: each fault kind on with probability ~1/2 at a rate from a small set.
    pub fn draw() -> Self {
        let rate = |k: &'static str| -> u32 {
            match simcore::weighted(k, &[4, 1, 2, 1]) {
                0 => 0,
                1 => 2,
                2 => 12,
                _ => 36,
            }
        };
        KConfig {
            reorder: rate("k.reorder"),
            short: rate("k.short"),
            lazy: rate("k.lazy"),
            eintr: rate("k.eintr"),
            multishot_end: rate("k.multishot_end"),
            partial_submit: rate("k.partial_submit"),
            zc_delay: rate("k.zc_delay"),
            op_eintr: 0,
            unsupported: Vec::new(),
            sq_entries_cap: match simcore::weighted("k.sq_cap", &[3, 1, 1, 1]) {
                0 => 0,
                1 => 1,
                2 => 2,
                _ => 4,
            },
            cq_entries_cap: match simcore::weighted("k.cq_cap", &[3, 1, 1]) {
                0 => 0,
                1 => 2,
                _ => 4,
            },
            tick_ns: 1_000,
            udp_loss: 0,
            udp_dup: 0,
        }
    }
}

/// What the kernel did for one operation (the kernel-side ledger, DESIGN §4.5).
#[derive(Clone, Debug)]
pub struct Completion {
    pub seq: u64,
    pub user_data: u64,
    pub opcode: u8,
    pub fd: i32,
    pub res: i32,
    pub flags: u32,
    /// digest of the bytes moved (reads: what was written to user memory; writes: what was taken)
    pub digest: u64,
    pub at_ns: u64,
    /// the `addr` field of the SQE (the data buffer of plain reads and writes): never logged, only for
    /// matching a completion with the buffer a user operation submitted
    pub addr: usize,
    /// position in the order of all completions of the run
    pub evseq: u64,
}

pub type EnvAction = Box<dyn FnOnce()>;

pub struct EnvEvent {
    pub due_ns: u64,
    pub seq: u64,
    pub label: String,
    pub action: EnvAction,
}

#[derive(Default)]
pub struct Stats {
    pub enters: u64,
    pub sqes: u64,
    pub cqes: u64,
    pub overflowed: u64,
    pub clock_jumps: u64,
    pub pool_jobs: u64,
}

pub struct Kernel {
    pub active: bool,
    pub cfg: KConfig,
    pub rings: BTreeMap<i32, Ring>,
    pub clock_ns: u64,
    pub next_seq: u64,
    pub ledger: Vec<Completion>,
    pub env: Vec<EnvEvent>,
    pub env_seq: u64,
    /// blocking-pool jobs handed over through the spawn hook (virtual pool)
    pub jobs: VecDeque<Box<dyn FnOnce() + Send + 'static>>,
    /// memory ranges the "kernel" may still touch: (addr, len, op seq)
    pub watches: Vec<(usize, usize, u64)>,
    /// set while the event loop runs a pool job or env action (re-entrancy guard)
    pub in_callback: bool,
    /// time a virtual pool worker spent parked inside the current callback: its own view of the
    /// clock (its idle time-out elapses), not the run's
    pub cb_offset_ns: u64,
    /// counts completions posted (any ring)
    pub evseq: u64,
    /// descriptors whose Close request was cancelled because its ring was closed first
    pub lost_closes: Vec<i32>,
    /// pool buffers the program currently holds handles to: (addr, len, id)
    pub user_held: Vec<(usize, usize, u64)>,
}

impl Kernel {
    fn new() -> Self {
        Kernel {
            active: false,
            cfg: KConfig::default(),
            rings: BTreeMap::new(),
            clock_ns: 1_000_000_000,
            next_seq: 1,
            ledger: Vec::new(),
            env: Vec::new(),
            env_seq: 0,
            jobs: VecDeque::new(),
            watches: Vec::new(),
            in_callback: false,
            cb_offset_ns: 0,
            evseq: 0,
            lost_closes: Vec::new(),
            user_held: Vec::new(),
        }
    }
}

thread_local! {
    pub(crate) static KERNEL: RefCell<Kernel> = RefCell::new(Kernel::new());
    static STATS: RefCell<Stats> = RefCell::new(Stats::default());
}

pub(crate) fn with_stats(f: impl FnOnce(&mut Stats)) {
    STATS.with(|s| f(&mut s.borrow_mut()))
}

pub fn with_kernel<R>(f: impl FnOnce(&mut Kernel) -> R) -> R {
    KERNEL.with(|k| f(&mut k.borrow_mut()))
}

// ------------------------------------------------------------------ decisions (benign outside a run)

pub(crate) fn flip(kind: &'static str, num: u32) -> bool {
    if num == 0 {
        return false;
    }
    simcore::try_with(|d| d.flip(kind, num, 64)).unwrap_or(false)
}

pub(crate) fn choose(kind: &'static str, n: usize) -> usize {
    if n <= 1 {
        return 0;
    }
    simcore::try_with(|d| d.choose(kind, n)).unwrap_or(0)
}

pub(crate) fn range(kind: &'static str, lo: u64, hi: u64) -> u64 {
    simcore::try_with(|d| d.range(kind, lo, hi)).unwrap_or(lo)
}

pub(crate) fn fault(kind: &'static str) {
    simcore::try_with(|d| d.fault(kind));
}

pub(crate) fn probe(kind: &'static str) {
    simcore::try_with(|d| d.probe(kind));
}

pub(crate) fn sig(x: u64) {
    simcore::try_with(|d| d.sig(x));
}

pub(crate) fn klog(f: impl FnOnce() -> String) {
    simcore::try_with(|d| d.log(f));
}

// ------------------------------------------------------------------ run set-up / tear-down

/// Start a simulated-kernel run on this thread: fresh state, simulated clock on, virtual pool on.
pub fn begin(cfg: KConfig) {
    install_hooks();
    with_kernel(|k| {
        *k = Kernel::new();
        k.cfg = cfg;
        k.active = true;
    });
    STATS.with(|s| *s.borrow_mut() = Stats::default());
    simcore::quarantine::watch_clear();
    clock::set_active(true);
}

/// Whether the kernel has posted the release notification of the zero-copy send whose data buffer is at
/// `addr`. `None`: no zero-copy send with that buffer was seen (the run is on the polling driver, or the
/// send went through another path).
pub fn zc_released(addr: usize) -> Option<bool> {
    with_kernel(|k| {
        let mut seen = false;
        for c in k.ledger.iter().filter(|c| c.addr == addr && (c.opcode == 47 || c.opcode == 48)) {
            seen = true;
            if c.flags & CQE_F_NOTIF != 0 {
                return Some(true);
            }
            // a send that failed outright owes no notification
            if c.res < 0 && c.flags & CQE_F_MORE == 0 {
                return Some(true);
            }
        }
        if seen { Some(false) } else { None }
    })
}

/// The program holds a handle to the pool buffer at `[addr, addr+len)` from now on (C07): the kernel
/// must not select it for a receive until `user_release(id)`.
pub fn user_hold(addr: usize, len: usize, id: u64) {
    with_kernel(|k| k.user_held.push((addr, len, id)));
}

pub fn user_release(id: u64) {
    with_kernel(|k| k.user_held.retain(|h| h.2 != id));
}

/// Number of completions the simulated kernel has posted so far in this run.
pub fn completions_posted() -> u64 {
    with_kernel(|k| k.evseq)
}

/// Raise the violation for memory freed (or moved) while the kernel could still use it, if it happened.
pub(crate) fn check_memory_ledger() {
    if let Some(h) = simcore::quarantine::take_hit() {
        let what = KERNEL.with(|k| {
            k.try_borrow().ok().map(|k| {
                if h.tag >= PBUF_TAG {
                    format!("the provided-buffer ring of group {} (the ring, or a buffer published in it)", h.tag - PBUF_TAG)
                } else {
                    k.rings
                        .values()
                        .flat_map(|r| r.ops.iter())
                        .find(|o| o.seq == h.tag)
                        .map(|o| format!("operation #{} {} on fd {}", o.seq, op_name(o.opcode), o.fd))
                        .unwrap_or_else(|| format!("operation #{}", h.tag))
                }
            })
        });
        simcore::try_with(|d| {
            d.raise(simcore::Violation::new(
                "freed-in-flight",
                format!(
                    "a heap block of {} bytes was freed (or moved) while {} was still registered or pending in the kernel, which may read or write {} bytes of it",
                    h.freed_len,
                    what.unwrap_or_default(),
                    h.watch_len
                ),
            ))
        });
    }
}

pub const PBUF_TAG: u64 = 1 << 48;

/// End the run; returns the statistics and whatever was left pending (for quiescence checks).
pub struct EndState {
    pub stats: Stats,
    pub open_rings: usize,
    pub pending_ops: Vec<(u64, u8, i32)>,
    pub ledger: Vec<Completion>,
    pub clock_ns: u64,
    pub jobs_left: usize,
    pub lost_closes: Vec<i32>,
}

pub fn end() -> EndState {
    // pool threads outlive the runtime: what was handed to them still runs
    while pump_once() {}
    check_memory_ledger();
    simcore::quarantine::watch_clear();
    clock::set_active(false);
    with_kernel(|k| {
        k.active = false;
        let pending = k.rings.values().flat_map(|r| r.ops.iter().map(|o| (o.seq, o.opcode, o.fd))).collect();
        let st = EndState {
            stats: STATS.with(|s| std::mem::take(&mut *s.borrow_mut())),
            open_rings: k.rings.len(),
            pending_ops: pending,
            ledger: std::mem::take(&mut k.ledger),
            clock_ns: k.clock_ns,
            jobs_left: k.jobs.len(),
            lost_closes: std::mem::take(&mut k.lost_closes),
        };
        // ring memory of rings never closed is released here
        k.rings.clear();
        k.env.clear();
        k.jobs.clear();
        k.watches.clear();
        simcore::try_with(|d| d.sim_ns = st.clock_ns.saturating_sub(1_000_000_000));
        st
    })
}

pub fn is_active() -> bool {
    KERNEL.with(|k| k.try_borrow().map(|k| k.active).unwrap_or(true))
}

pub fn now_ns() -> u64 {
    with_kernel(|k| k.clock_ns)
}

/// Schedule an environment action (a peer writing to a socket, a token firing...) at +delay.
pub fn at(delay: Duration, label: impl Into<String>, action: impl FnOnce() + 'static) {
    with_kernel(|k| {
        k.env_seq += 1;
        let ev = EnvEvent {
            due_ns: k.clock_ns + delay.as_nanos() as u64,
            seq: k.env_seq,
            label: label.into(),
            action: Box::new(action),
        };
        k.env.push(ev);
    })
}

// ------------------------------------------------------------------ simhook hooks for Engine K (single thread)

fn hook_thread_id() -> Option<u64> {
    if let Some(i) = multi::thread_index() {
        return Some(i);
    }
    if is_active() && !in_shuttle() { Some(0) } else { None }
}

fn in_shuttle() -> bool {
    // Engine T+K installs its own hooks; K's are only installed when nothing else is
    false
}

fn hook_point(_site: u32) {
    multi::point();
}

fn hook_yield() {
    if multi::active() {
        // another thread of the run has to act
        return multi::yield_now();
    }
    // a spin-wait on the only thread there is: let the kernel make progress instead
    pump_once();
}

fn hook_park(timeout: Option<Duration>) {
    if multi::active() {
        return multi::park(timeout);
    }
    // nobody else can unpark us: time passes
    if let Some(d) = timeout {
        with_kernel(|k| {
            let d = d.as_nanos() as u64 + 1;
            if k.in_callback {
                // an idle pool worker waiting for its next job: only its own clock moves
                k.cb_offset_ns = k.cb_offset_ns.saturating_add(d);
            } else {
                k.clock_ns = k.clock_ns.saturating_add(d);
            }
        });
    }
}

fn hook_unpark(id: u64) {
    multi::unpark(id);
}

fn hook_spawn(f: Box<dyn FnOnce() + Send + 'static>) {
    if multi::active() {
        // a thread of the run like any other (its creation is intercepted)
        with_stats(|s| s.pool_jobs += 1);
        std::thread::Builder::new().stack_size(512 * 1024).spawn(f).expect("pool thread");
        return;
    }
    with_stats(|s| s.pool_jobs += 1);
    with_kernel(|k| k.jobs.push_back(f));
}

fn hook_op_supported(code: u8) -> Option<bool> {
    KERNEL.with(|k| match k.try_borrow() {
        Ok(k) if k.active => Some(!k.cfg.unsupported.contains(&code) && ops::modelled(code)),
        _ => None,
    })
}

fn hook_now() -> Duration {
    Duration::from_nanos(with_kernel(|k| k.clock_ns + if k.in_callback { k.cb_offset_ns } else { 0 }))
}

static HOOKS: simhook::Hooks = simhook::Hooks {
    thread_id: hook_thread_id,
    point: hook_point,
    yield_now: hook_yield,
    park: hook_park,
    unpark: hook_unpark,
    spawn: hook_spawn,
    now: hook_now,
    choose: |_site, n| simcore::try_with(|d| d.choose("hook.order", n)).unwrap_or(0),
    op_supported: hook_op_supported,
};

fn install_hooks() {
    static ONCE: std::sync::Once = std::sync::Once::new();
    ONCE.call_once(|| simhook::install(&HOOKS));
}

/// Run one queued pool job or due environment action, if any. Returns whether something ran.
pub fn pump_once() -> bool {
    let job = with_kernel(|k| if k.in_callback { None } else { k.jobs.pop_front() });
    if let Some(j) = job {
        with_kernel(|k| {
            k.in_callback = true;
            k.cb_offset_ns = 0;
        });
        j();
        with_kernel(|k| k.in_callback = false);
        return true;
    }
    false
}

/// Run the environment actions that are due, oldest first.
pub(crate) fn run_due_env() {
    loop {
        let ev = with_kernel(|k| {
            let now = k.clock_ns;
            let i = k.env.iter().enumerate().filter(|(_, e)| e.due_ns <= now).min_by_key(|(_, e)| (e.due_ns, e.seq)).map(|(i, _)| i)?;
            Some(k.env.remove(i))
        });
        let Some(ev) = ev else { break };
        klog(|| format!("kernel: environment: {}", ev.label));
        sig(0x4e00 + fnv_label(&ev.label));
        (ev.action)();
    }
}

/// A blocking-pool job (run inline) is blocked in a system call: let the next environment action happen,
/// jumping the clock to it. Returns false when none is scheduled.
pub(crate) fn env_step_for_blocked_job() -> bool {
    let next = KERNEL.with(|k| k.try_borrow().ok().and_then(|k| k.env.iter().map(|e| e.due_ns).min()));
    let Some(due) = next else { return false };
    with_kernel(|k| {
        if due > k.clock_ns {
            k.clock_ns = due;
        }
    });
    with_stats(|s| s.clock_jumps += 1);
    run_due_env();
    true
}

/// The only thread of the run is about to sleep with nothing that could ever wake it.
pub(crate) fn blocked_forever(what: &str) {
    simcore::try_with(|d| {
        d.raise(simcore::Violation::new(
            "blocked-forever",
            format!("the runtime thread waits in {what} and nothing can ever complete: no pool job, no peer action scheduled"),
        ))
    });
    panic!("[expected] simkernel: the wait would block forever");
}

pub(crate) fn fnv_label(s: &str) -> u64 {
    simcore::fnv(s) & 0xff
}

/// Operations currently pending in any ring: (seq, opcode, fd).
pub fn pending_ops() -> Vec<(u64, u8, i32)> {
    with_kernel(|k| k.rings.values().flat_map(|r| r.ops.iter().map(|o| (o.seq, o.opcode, o.fd))).collect())
}
