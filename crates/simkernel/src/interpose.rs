//! `close(2)` is defined here, so it takes precedence over libc's for everything linked into the binary
//! (std's `OwnedFd`, socket2, rustix): during a simulated-kernel run, closing a descriptor that an
//! operation still pending in the simulated ring works on is recorded (C01/C06: a descriptor stays open
//! until the final completion of everything that uses it).

use crate::{KERNEL, op_name};

#[unsafe(no_mangle)]
pub unsafe extern "C" fn close(fd: libc::c_int) -> libc::c_int {
    if crate::clock_is_simulated() {
        closing(fd);
    }
    unsafe { libc::syscall(libc::SYS_close, fd as libc::c_long) as libc::c_int }
}

/// Also called by the simulated `IORING_OP_CLOSE`.
pub(crate) fn closing(fd: i32) {
    let user = KERNEL.with(|k| {
        let k = k.try_borrow().ok()?;
        if !k.active {
            return None;
        }
        k.rings.values().flat_map(|r| r.ops.iter()).find(|o| o.uses_fd() && o.fd == fd && o.user_data < u64::MAX - 1).map(|o| (o.seq, o.opcode))
    });
    if let Some((seq, opcode)) = user {
        simcore::try_with(|d| {
            d.raise(simcore::Violation::new(
                "fd-closed-in-flight",
                format!("descriptor {fd} was closed while operation #{seq} {} on it was still pending in the kernel", op_name(opcode)),
            ))
        });
    }
}

/// `waitpid(2)`: on the virtual pool a blocking job runs inline on the only thread there is, so a wait
/// for a child that has not exited yet cannot simply block: while it "blocks", the environment goes on
/// (the actions that eventually make the child exit are environment actions), and time passes up to
/// each of them. With nothing scheduled any more the wait would never return, which is reported.
#[unsafe(no_mangle)]
pub unsafe extern "C" fn waitpid(pid: libc::pid_t, status: *mut libc::c_int, options: libc::c_int) -> libc::pid_t {
    let real = |opts: libc::c_int| -> libc::pid_t {
        // wait4(pid, status, options, NULL)
        unsafe { libc::syscall(libc::SYS_wait4, pid as libc::c_long, status, opts as libc::c_long, 0 as libc::c_long) as libc::pid_t }
    };
    if !crate::clock_is_simulated() || options & libc::WNOHANG != 0 {
        return real(options);
    }
    if crate::multi::active() {
        // (Engine M) the wait runs on a pool thread of its own: it looks again whenever another thread of the
        // run has done something (the child's script is made of the main thread's environment actions)
        let mut looked_only = false;
        loop {
            let r = real(options | libc::WNOHANG);
            if r != 0 {
                return r;
            }
            crate::multi::wait_in_kernel(None, looked_only);
            looked_only = true;
        }
    }
    loop {
        let r = real(options | libc::WNOHANG);
        if r != 0 {
            return r;
        }
        if !crate::env_step_for_blocked_job() {
            crate::blocked_forever("waitpid (a blocking-pool job waits for a child that nothing will ever make exit)");
            return -1;
        }
    }
}

// ------------------------------------------------------------------ Engine M: threads, futexes

fn next_symbol(name: &'static [u8], cache: &std::sync::atomic::AtomicUsize) -> usize {
    use std::sync::atomic::Ordering::Relaxed;
    let p = cache.load(Relaxed);
    if p != 0 {
        return p;
    }
    let p = unsafe { libc::dlsym(libc::RTLD_NEXT, name.as_ptr().cast()) } as usize;
    assert!(p != 0, "simkernel: the C library has no such symbol");
    cache.store(p, Relaxed);
    p
}

type SyscallFn = unsafe extern "C" fn(libc::c_long, libc::c_long, libc::c_long, libc::c_long, libc::c_long, libc::c_long, libc::c_long) -> libc::c_long;

/// The C library's `syscall(2)` wrapper (the one defined below shadows it for the whole binary).
pub(crate) unsafe fn real_syscall(num: libc::c_long, a1: libc::c_long, a2: libc::c_long, a3: libc::c_long, a4: libc::c_long, a5: libc::c_long, a6: libc::c_long) -> libc::c_long {
    static REAL: std::sync::atomic::AtomicUsize = std::sync::atomic::AtomicUsize::new(0);
    let f: SyscallFn = unsafe { std::mem::transmute(next_symbol(b"syscall\0", &REAL)) };
    unsafe { f(num, a1, a2, a3, a4, a5, a6) }
}

/// `syscall(2)`: std's mutexes, condition variables, `thread::park` and channels block in
/// `syscall(SYS_futex, FUTEX_WAIT..)`. For a thread of a multi-threaded run (Engine M) such a wait hands
/// the baton to another thread and ends when the futex word has changed or the simulated deadline has
/// passed (spurious returns are part of the futex contract); everything else goes to the C library.
/// (x86-64 and aarch64 pass the variadic arguments of `syscall` like fixed ones.)
#[unsafe(no_mangle)]
pub unsafe extern "C" fn syscall(num: libc::c_long, a1: libc::c_long, a2: libc::c_long, a3: libc::c_long, a4: libc::c_long, a5: libc::c_long, a6: libc::c_long) -> libc::c_long {
    if num == libc::SYS_futex && crate::multi::active() {
        let op = a2 as i32;
        let cmd = op & !(libc::FUTEX_PRIVATE_FLAG | libc::FUTEX_CLOCK_REALTIME);
        if cmd == libc::FUTEX_WAIT || cmd == libc::FUTEX_WAIT_BITSET {
            let ts = a4 as *const libc::timespec;
            let deadline = if ts.is_null() {
                None
            } else {
                let t = unsafe { (*ts).tv_sec as u64 * 1_000_000_000 + (*ts).tv_nsec as u64 };
                if cmd == libc::FUTEX_WAIT {
                    Some(crate::multi::now_ns() + t)
                } else if op & libc::FUTEX_CLOCK_REALTIME != 0 {
                    // an absolute wall-clock time: keep the distance
                    let mut now = libc::timespec { tv_sec: 0, tv_nsec: 0 };
                    unsafe { real_syscall(libc::SYS_clock_gettime, libc::CLOCK_REALTIME as libc::c_long, &mut now as *mut _ as libc::c_long, 0, 0, 0, 0) };
                    let now = now.tv_sec as u64 * 1_000_000_000 + now.tv_nsec as u64;
                    Some(crate::multi::now_ns() + t.saturating_sub(now))
                } else {
                    Some(t)
                }
            };
            let r = crate::multi::futex_wait(a1 as usize, a3 as u32, deadline);
            if r < 0 {
                unsafe { *libc::__errno_location() = -r };
                return -1;
            }
            return 0;
        }
    }
    unsafe { real_syscall(num, a1, a2, a3, a4, a5, a6) }
}

struct Start {
    start: extern "C" fn(*mut libc::c_void) -> *mut libc::c_void,
    arg: *mut libc::c_void,
    id: u32,
}

extern "C" fn trampoline(p: *mut libc::c_void) -> *mut libc::c_void {
    let s = unsafe { Box::from_raw(p as *mut Start) };
    crate::multi::thread_begin(s.id);
    let r = (s.start)(s.arg);
    crate::multi::thread_end();
    r
}

/// `pthread_create`: a thread created by a thread of a multi-threaded run becomes a thread of that run.
#[unsafe(no_mangle)]
pub unsafe extern "C" fn pthread_create(
    thread: *mut libc::pthread_t,
    attr: *const libc::pthread_attr_t,
    start: extern "C" fn(*mut libc::c_void) -> *mut libc::c_void,
    arg: *mut libc::c_void,
) -> libc::c_int {
    type F = unsafe extern "C" fn(*mut libc::pthread_t, *const libc::pthread_attr_t, extern "C" fn(*mut libc::c_void) -> *mut libc::c_void, *mut libc::c_void) -> libc::c_int;
    static REAL: std::sync::atomic::AtomicUsize = std::sync::atomic::AtomicUsize::new(0);
    let real: F = unsafe { std::mem::transmute(next_symbol(b"pthread_create\0", &REAL)) };
    if !crate::multi::active() {
        return unsafe { real(thread, attr, start, arg) };
    }
    let id = crate::multi::register_thread();
    crate::multi::count_thread();
    let boxed = Box::into_raw(Box::new(Start { start, arg, id }));
    let rc = unsafe { real(thread, attr, trampoline, boxed.cast()) };
    if rc != 0 {
        // (a thread that was registered and never started would be waited for for ever)
        panic!("simkernel: pthread_create failed inside a multi-threaded run: {rc}");
    }
    crate::multi::set_pthread(id, unsafe { *thread });
    crate::multi::point();
    rc
}

/// `pthread_join` by a thread of a multi-threaded run waits, baton given away, until the target's code
/// has ended; the real join then only waits for the thread's own teardown.
#[unsafe(no_mangle)]
pub unsafe extern "C" fn pthread_join(thread: libc::pthread_t, retval: *mut *mut libc::c_void) -> libc::c_int {
    type F = unsafe extern "C" fn(libc::pthread_t, *mut *mut libc::c_void) -> libc::c_int;
    static REAL: std::sync::atomic::AtomicUsize = std::sync::atomic::AtomicUsize::new(0);
    let real: F = unsafe { std::mem::transmute(next_symbol(b"pthread_join\0", &REAL)) };
    crate::multi::join_wait(thread);
    unsafe { real(thread, retval) }
}
