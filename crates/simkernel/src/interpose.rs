//! `close(2)` is defined here, so it takes precedence over libc's for everything linked into the binary
//! (std's `OwnedFd`, socket2, rustix): during a simulated-kernel run, closing a descriptor that an
//! operation still pending in the simulated ring works on is recorded (C01/C06: a descriptor stays open
//! until the final completion of everything that uses it).

use crate::{KERNEL, op_name};

#[unsafe(no_mangle)]
pub unsafe extern "C" fn close(fd: libc::c_int) -> libc::c_int {
    if crate::clock_is_simulated() {
        closing(fd);
    }
    unsafe { libc::syscall(libc::SYS_close, fd as libc::c_long) as libc::c_int }
}

/// Also called by the simulated `IORING_OP_CLOSE`.
pub(crate) fn closing(fd: i32) {
    let user = KERNEL.with(|k| {
        let k = k.try_borrow().ok()?;
        if !k.active {
            return None;
        }
        k.rings.values().flat_map(|r| r.ops.iter()).find(|o| o.uses_fd() && o.fd == fd && o.user_data < u64::MAX - 1).map(|o| (o.seq, o.opcode))
    });
    if let Some((seq, opcode)) = user {
        simcore::try_with(|d| {
            d.raise(simcore::Violation::new(
                "fd-closed-in-flight",
                format!("descriptor {fd} was closed while operation #{seq} {} on it was still pending in the kernel", op_name(opcode)),
            ))
        });
    }
}
