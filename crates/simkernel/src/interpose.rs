//! `close(2)` is defined here, so it takes precedence over libc's for everything linked into the binary
//! (std's `OwnedFd`, socket2, rustix): during a simulated-kernel run, closing a descriptor that an
//! operation still pending in the simulated ring works on is recorded (C01/C06: a descriptor stays open
//! until the final completion of everything that uses it).

use crate::{KERNEL, op_name};

#[unsafe(no_mangle)]
pub unsafe extern "C" fn close(fd: libc::c_int) -> libc::c_int {
    if crate::clock_is_simulated() {
        closing(fd);
    }
    unsafe { libc::syscall(libc::SYS_close, fd as libc::c_long) as libc::c_int }
}

/// Also called by the simulated `IORING_OP_CLOSE`.
pub(crate) fn closing(fd: i32) {
    let user = KERNEL.with(|k| {
        let k = k.try_borrow().ok()?;
        if !k.active {
            return None;
        }
        k.rings.values().flat_map(|r| r.ops.iter()).find(|o| o.uses_fd() && o.fd == fd && o.user_data < u64::MAX - 1).map(|o| (o.seq, o.opcode))
    });
    if let Some((seq, opcode)) = user {
        simcore::try_with(|d| {
            d.raise(simcore::Violation::new(
                "fd-closed-in-flight",
                format!("descriptor {fd} was closed while operation #{seq} {} on it was still pending in the kernel", op_name(opcode)),
            ))
        });
    }
}

/// `waitpid(2)`: on the virtual pool a blocking job runs inline on the only thread there is, so a wait
/// for a child that has not exited yet cannot simply block: while it "blocks", the environment goes on
/// (the actions that eventually make the child exit are environment actions), and time passes up to
/// each of them. With nothing scheduled any more the wait would never return, which is reported.
#[unsafe(no_mangle)]
pub unsafe extern "C" fn waitpid(pid: libc::pid_t, status: *mut libc::c_int, options: libc::c_int) -> libc::pid_t {
    let real = |opts: libc::c_int| -> libc::pid_t {
        // wait4(pid, status, options, NULL)
        unsafe { libc::syscall(libc::SYS_wait4, pid as libc::c_long, status, opts as libc::c_long, 0 as libc::c_long) as libc::pid_t }
    };
    if !crate::clock_is_simulated() || options & libc::WNOHANG != 0 {
        return real(options);
    }
    loop {
        let r = real(options | libc::WNOHANG);
        if r != 0 {
            return r;
        }
        if !crate::env_step_for_blocked_job() {
            crate::blocked_forever("waitpid (a blocking-pool job waits for a child that nothing will ever make exit)");
            return -1;
        }
    }
}
