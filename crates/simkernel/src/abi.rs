//! The entry points the vendored `io-uring` crate calls instead of the system.
//! Return values follow the raw syscall convention: >= 0 or -errno.

use std::{ffi::c_void, sync::atomic::Ordering};

use crate::{PBUF_TAG, 
    Completion, KERNEL, choose, fault, flip, klog, ops, ops::Outcome, probe, ring::*, sig, with_kernel, with_stats,
};

const SETUP_CQSIZE: u32 = 1 << 3;
const SETUP_SQE128: u32 = 1 << 10;
const SETUP_CQE32: u32 = 1 << 11;
const SETUP_SQPOLL: u32 = 1 << 1;

const FEAT_NODROP: u32 = 2;
const FEAT_SUBMIT_STABLE: u32 = 4;
const FEAT_RW_CUR_POS: u32 = 8;
const FEAT_FAST_POLL: u32 = 32;
const FEAT_POLL_32BITS: u32 = 64;
const FEAT_EXT_ARG: u32 = 256;
const FEAT_NATIVE_WORKERS: u32 = 512;
const FEAT_NO_IOWAIT: u32 = 131072;

const ENTER_GETEVENTS: u32 = 1;
const ENTER_EXT_ARG: u32 = 8;

const REGISTER_FILES: u32 = 2;
const UNREGISTER_FILES: u32 = 3;
const REGISTER_EVENTFD: u32 = 4;
const UNREGISTER_EVENTFD: u32 = 5;
const REGISTER_EVENTFD_ASYNC: u32 = 7;
const REGISTER_PROBE: u32 = 8;
const REGISTER_PERSONALITY: u32 = 9;
const UNREGISTER_PERSONALITY: u32 = 10;
const REGISTER_PBUF_RING: u32 = 22;
const UNREGISTER_PBUF_RING: u32 = 23;

fn wr32(p: *mut c_void, off: usize, v: u32) {
    unsafe { (p as *mut u8).add(off).cast::<u32>().write_unaligned(v) }
}

fn rd32(p: *const c_void, off: usize) -> u32 {
    unsafe { (p as *const u8).add(off).cast::<u32>().read_unaligned() }
}

/// # Safety
/// `params` points to a writable `io_uring_params` (120 bytes).
pub unsafe fn io_uring_setup(entries: u32, params: *mut c_void) -> i32 {
    if entries == 0 || entries > 32768 || params.is_null() {
        return -libc::EINVAL;
    }
    let flags = rd32(params, 8);
    if flags & (SETUP_SQE128 | SETUP_CQE32 | SETUP_SQPOLL) != 0 {
        // not modelled: the builder options that need them are never generated
        return -libc::EINVAL;
    }
    let (sq_cap, cq_cap) = with_kernel(|k| (k.cfg.sq_entries_cap, k.cfg.cq_entries_cap));
    let mut sq_entries = entries.next_power_of_two();
    if sq_cap != 0 {
        sq_entries = sq_entries.min(sq_cap.next_power_of_two());
    }
    let mut cq_entries = if flags & SETUP_CQSIZE != 0 { rd32(params, 4).max(sq_entries).next_power_of_two() } else { sq_entries * 2 };
    if cq_cap != 0 {
        cq_entries = cq_entries.min(cq_cap.next_power_of_two()).max(1);
    }
    let fd = unsafe { libc::eventfd(0, libc::EFD_CLOEXEC | libc::EFD_NONBLOCK) };
    if fd < 0 {
        return -unsafe { *libc::__errno_location() };
    }
    let ring = Ring::new(fd, sq_entries, cq_entries, flags);
    wr32(params, 0, sq_entries);
    wr32(params, 4, cq_entries);
    wr32(params, 20, FEAT_NODROP | FEAT_SUBMIT_STABLE | FEAT_RW_CUR_POS | FEAT_FAST_POLL | FEAT_POLL_32BITS | FEAT_EXT_ARG | FEAT_NATIVE_WORKERS | FEAT_NO_IOWAIT);
    // sq_off @40: head, tail, ring_mask, ring_entries, flags, dropped, array
    for (i, v) in [0u32, 4, 8, 12, 16, 20, SQ_ARRAY_OFF, 0].iter().enumerate() {
        wr32(params, 40 + i * 4, *v);
    }
    unsafe { (params as *mut u8).add(72).cast::<u64>().write_unaligned(0) };
    // cq_off @80: head, tail, ring_mask, ring_entries, overflow, cqes, flags
    for (i, v) in [0u32, 4, 8, 12, 16, CQ_CQES_OFF, 20, 0].iter().enumerate() {
        wr32(params, 80 + i * 4, *v);
    }
    unsafe { (params as *mut u8).add(112).cast::<u64>().write_unaligned(0) };
    klog(|| format!("kernel: io_uring_setup(sq {sq_entries}, cq {cq_entries}) -> ring fd {fd}"));
    with_kernel(|k| k.rings.insert(fd, ring));
    fd
}

/// # Safety
/// Called by the vendored crate for a ring created by `io_uring_setup`.
pub unsafe fn ring_mmap(fd: i32, offset: i64, _len: usize) -> *mut c_void {
    with_kernel(|k| match k.rings.get(&fd) {
        Some(r) => match offset {
            IORING_OFF_SQ_RING => r.sq.ptr as *mut c_void,
            IORING_OFF_CQ_RING => r.cq.ptr as *mut c_void,
            IORING_OFF_SQES => r.sqes.ptr as *mut c_void,
            _ => std::ptr::null_mut(),
        },
        None => std::ptr::null_mut(),
    })
}

/// # Safety
/// `addr` came from `ring_mmap`.
pub unsafe fn ring_munmap(_addr: *mut c_void, _len: usize) {
    // the regions belong to the ring and go away with it
}

/// Closing the ring fd: the kernel cancels or finishes everything in flight and forgets the ring.
///
/// # Safety
/// `fd` is a descriptor owned by the caller.
pub unsafe fn ring_close(fd: i32) {
    let ring = KERNEL.with(|k| k.try_borrow_mut().ok().and_then(|mut k| k.rings.remove(&fd)));
    if let Some(r) = ring {
        klog(|| format!("kernel: ring {fd} closed with {} operations in flight, {} completions unreaped in the queue, {} on the overflow list", r.ops.len(), r.cq_ready(), r.overflow.len()));
        if !r.overflow.is_empty() {
            probe("ring-closed-with-overflowed-completions");
        }
        if r.cq_ready() > 0 {
            probe("ring-closed-with-unreaped-completions");
        }
        if !r.ops.is_empty() {
            probe("ring-closed-with-inflight-ops");
        }
        for o in r.ops.iter() {
            simcore::quarantine::watch_remove(o.seq);
            if o.opcode == ops::OP_CLOSE {
                // a close request still queued when the ring goes away is either run or cancelled by the kernel
                let lost = with_kernel(|k| k.cfg.lazy) > 0 && flip("k.exit.close-cancelled", 16);
                if lost {
                    fault("close-request-cancelled-at-ring-exit");
                    with_kernel(|k| k.lost_closes.push(o.fd));
                    klog(|| format!("kernel: Close #{} of fd {} is cancelled with the ring", o.seq, o.fd));
                } else {
                    klog(|| format!("kernel: Close #{} of fd {} still runs while the ring goes away", o.seq, o.fd));
                    unsafe { libc::close(o.fd) };
                }
            }
        }
        for (g, _) in r.pbufs.iter() {
            simcore::quarantine::watch_remove(PBUF_TAG + *g as u64);
            simcore::quarantine::pbuf_unregister(PBUF_TAG + *g as u64);
        }
        // requests written to the submission queue but never submitted die with the ring
        let mut r = r;
        let mut unsubmitted = 0;
        while let Some(sqe) = r.take_sqe() {
            unsubmitted += 1;
            let op = ops::decode(&sqe, 0);
            if op.opcode == ops::OP_CLOSE {
                with_kernel(|k| k.lost_closes.push(op.fd));
                klog(|| format!("kernel: a Close of fd {} was still unsubmitted in the submission queue", op.fd));
            }
        }
        if unsubmitted > 0 {
            probe("ring-closed-with-unsubmitted-sqes");
        }
        drop(r);
    }
    unsafe { libc::close(fd) };
}

/// # Safety
/// Arguments as for `io_uring_register(2)`.
pub unsafe fn io_uring_register(fd: i32, opcode: u32, arg: *const c_void, nr_args: u32) -> i32 {
    with_kernel(|k| {
        let unsupported = k.cfg.unsupported.clone();
        let Some(r) = k.rings.get_mut(&fd) else { return -libc::EBADF };
        match opcode {
            REGISTER_PROBE => {
                // io_uring_probe { last_op u8, ops_len u8, resv u16, resv2 [u32;3], ops[] { op u8, resv u8, flags u16, resv2 u32 } }
                let p = arg as *mut u8;
                let n = (nr_args as usize).min(256);
                unsafe {
                    *p = ops::OP_LAST - 1;
                    *p.add(1) = n.min(ops::OP_LAST as usize) as u8;
                    for i in 0..n.min(ops::OP_LAST as usize) {
                        let e = p.add(16 + i * 8);
                        *e = i as u8;
                        *e.add(1) = 0;
                        let ok = ops::SUPPORTED.contains(&(i as u8)) && !unsupported.contains(&(i as u8));
                        e.add(2).cast::<u16>().write_unaligned(ok as u16);
                        e.add(4).cast::<u32>().write_unaligned(0);
                    }
                }
                0
            }
            REGISTER_EVENTFD | REGISTER_EVENTFD_ASYNC => {
                r.eventfd = Some(unsafe { *(arg as *const i32) });
                0
            }
            UNREGISTER_EVENTFD => {
                r.eventfd = None;
                0
            }
            REGISTER_FILES => {
                r.files = unsafe { std::slice::from_raw_parts(arg as *const i32, nr_args as usize) }.to_vec();
                0
            }
            UNREGISTER_FILES => {
                r.files.clear();
                0
            }
            REGISTER_PERSONALITY => {
                r.personalities += 1;
                r.personalities as i32
            }
            UNREGISTER_PERSONALITY => 0,
            REGISTER_PBUF_RING => {
                // io_uring_buf_reg { ring_addr u64, ring_entries u32, bgid u16, flags u16, resv[3] u64 }
                let p = arg as *const u8;
                let (addr, entries, bgid) = unsafe { (p.cast::<u64>().read_unaligned(), p.add(8).cast::<u32>().read_unaligned(), p.add(12).cast::<u16>().read_unaligned()) };
                if !entries.is_power_of_two() || entries > 32768 {
                    return -libc::EINVAL;
                }
                if r.pbufs.contains_key(&bgid) {
                    return -libc::EEXIST;
                }
                r.pbufs.insert(bgid, PbufRing { addr: addr as usize, entries: entries as u16, head: 0 });
                // the kernel reads the ring whenever an operation selects a buffer, until it is unregistered
                simcore::quarantine::watch_add(addr as usize, entries as usize * 16, crate::PBUF_TAG + bgid as u64);
                simcore::quarantine::pbuf_register(crate::PBUF_TAG + bgid as u64, addr as usize, entries as u16);
                0
            }
            UNREGISTER_PBUF_RING => {
                let bgid = unsafe { (arg as *const u8).add(12).cast::<u16>().read_unaligned() };
                match r.pbufs.remove(&bgid) {
                    Some(_) => {
                        simcore::quarantine::watch_remove(crate::PBUF_TAG + bgid as u64);
                        simcore::quarantine::pbuf_unregister(crate::PBUF_TAG + bgid as u64);
                        0
                    }
                    None => -libc::ENOENT,
                }
            }
            _ => -libc::EINVAL,
        }
    })
}

enum Event {
    Op(usize),
    Job,
    Env(usize),
}

/// # Safety
/// Arguments as for `io_uring_enter(2)`.
pub unsafe fn io_uring_enter(fd: i32, to_submit: u32, min_complete: u32, flags: u32, arg: *const c_void, _size: usize) -> i32 {
    crate::multi::point();
    crate::check_memory_ledger();
    let known = with_kernel(|k| {
        k.clock_ns += k.cfg.tick_ns;
        match k.rings.get_mut(&fd) {
            Some(r) => {
                r.ops.iter_mut().for_each(|o| o.rearm_multishot_poll());
                true
            }
            None => false,
        }
    });
    if !known {
        return -libc::EBADF;
    }
    with_stats(|s| s.enters += 1);
    let want_wait = flags & ENTER_GETEVENTS != 0 && min_complete > 0;
    let (eintr, partial, lazy, reorder) = with_kernel(|k| (k.cfg.eintr, k.cfg.partial_submit, k.cfg.lazy, k.cfg.reorder));

    // a signal may interrupt a waiting enter before anything happened
    if want_wait && to_submit == 0 && flip("k.enter.eintr", eintr) {
        fault("enter-eintr");
        return -libc::EINTR;
    }

    // ---- submission
    let mut submitted = 0u32;
    let mut budget = to_submit;
    if budget > 1 && flip("k.enter.partial", partial) {
        fault("partial-submit");
        budget = 1 + choose("k.enter.partial.n", (budget - 1) as usize) as u32;
    }
    while submitted < budget {
        let op = with_kernel(|k| {
            let seq = k.next_seq;
            let r = k.rings.get_mut(&fd).unwrap();
            let sqe = r.take_sqe()?;
            k.next_seq += 1;
            Some(ops::decode(&sqe, seq))
        });
        let Some(op) = op else { break };
        with_stats(|s| s.sqes += 1);
        submitted += 1;
        // (no raw addresses in logs: they differ from process to process)
        klog(|| {
            let ud = match op.user_data {
                u64::MAX => " [driver: cancel]",
                x if x == u64::MAX - 1 => " [driver: notifier]",
                _ => "",
            };
            let what = if op.opcode == ops::OP_POLL_ADD {
                let m = op.opflags & 0xffff;
                format!("for {}{}", if m & libc::POLLIN as u32 != 0 { "readable" } else { "" }, if m & libc::POLLOUT as u32 != 0 { "writable" } else { "" })
            } else {
                format!("len {}", op.len)
            };
            format!("kernel: submit #{} {} fd {} {what}{ud}", op.seq, ops::op_name(op.opcode), op.fd)
        });
        sig(0x4b00 + op.opcode as u64);
        for (a, l) in op.ranges() {
            simcore::quarantine::watch_add(a, l, op.seq);
        }
        with_kernel(|k| {
            let r = k.rings.get_mut(&fd).unwrap();
            if op.opcode == ops::OP_ASYNC_CANCEL {
                // the request is resolved against what is pending right now; its own CQE follows like any other
                let target = op.addr;
                let mut found = false;
                for t in r.ops.iter_mut() {
                    if t.user_data == target && t.opcode != ops::OP_ASYNC_CANCEL && !t.cancel_requested {
                        t.cancel_requested = true;
                        found = true;
                        break;
                    }
                }
                let mut c = op.clone();
                c.off = if found { 0 } else { libc::ENOENT as u64 };
                r.ops.push(c);
            } else {
                r.ops.push(op);
            }
        });
    }

    // like the kernel: when not everything asked for could be submitted, return at once without waiting
    let want_wait = want_wait && submitted == budget.min(to_submit) && budget == to_submit;

    // ---- completion side
    let deadline = if flags & ENTER_EXT_ARG != 0 && !arg.is_null() {
        // io_uring_getevents_arg { sigmask u64, sigmask_sz u32, min_wait_usec u32, ts u64 }
        let ts = unsafe { (arg as *const u8).add(16).cast::<u64>().read_unaligned() } as *const i64;
        if ts.is_null() {
            None
        } else {
            let (s, ns) = unsafe { (*ts, *ts.add(1)) };
            Some(with_kernel(|k| k.clock_ns) + (s as u64) * 1_000_000_000 + ns as u64)
        }
    } else {
        None
    };

    let mut timed_out = false;
    let mut guard = 0u32;
    // (Engine M) whether anything has happened in this call since the thread last waited for its turn
    let mut looked_only = false;
    loop {
        guard += 1;
        if guard > 100_000 {
            simcore::try_with(|d| d.raise(simcore::Violation::new("kernel-livelock", "the simulated kernel completed 100000 events inside one io_uring_enter")));
            break;
        }
        let done = with_kernel(|k| {
            let r = k.rings.get_mut(&fd).unwrap();
            r.flush_overflow();
            want_wait && r.cq_ready() >= min_complete
        });
        if done {
            break;
        }
        // what could happen now?
        let mut events: Vec<Event> = Vec::new();
        with_kernel(|k| {
            let now = k.clock_ns;
            let r = k.rings.get_mut(&fd).unwrap();
            for (i, op) in r.ops.iter_mut().enumerate() {
                if op.opcode == ops::OP_ASYNC_CANCEL || op.ready() {
                    events.push(Event::Op(i));
                }
            }
            if !k.jobs.is_empty() && !k.in_callback {
                events.push(Event::Job);
            }
            let mut due: Vec<(u64, u64, usize)> = k.env.iter().enumerate().filter(|(_, e)| e.due_ns <= now).map(|(i, e)| (e.due_ns, e.seq, i)).collect();
            due.sort();
            for (_, _, i) in due {
                events.push(Event::Env(i));
            }
        });
        if events.is_empty() {
            if !want_wait {
                break;
            }
            // nothing can happen at this instant: let time pass to the next thing that is scheduled
            let next_env = with_kernel(|k| k.env.iter().map(|e| e.due_ns).min());
            let next = match (next_env, deadline) {
                (Some(e), Some(d)) => Some(e.min(d)),
                (Some(e), None) => Some(e),
                (None, Some(d)) => Some(d),
                (None, None) => None,
            };
            if crate::multi::active() {
                // other threads of the run go on; this one looks again when something has happened
                // elsewhere or when time has reached what it waits for
                crate::multi::wait_in_kernel(next, looked_only);
                looked_only = true;
                let now = with_kernel(|k| k.clock_ns);
                if deadline.map(|d| now >= d).unwrap_or(false) && next_env.map(|e| e > now).unwrap_or(true) {
                    timed_out = true;
                    break;
                }
                continue;
            }
            match next {
                Some(t) if !crate::is_active() => {
                    let now = with_kernel(|k| k.clock_ns);
                    let waited = os_wait(fd, Some(t.saturating_sub(now)));
                    with_kernel(|k| k.clock_ns += waited);
                    if deadline.map(|d| with_kernel(|k| k.clock_ns) >= d).unwrap_or(false) {
                        timed_out = true;
                        break;
                    }
                    continue;
                }
                Some(t) => {
                    with_kernel(|k| k.clock_ns = k.clock_ns.max(t));
                    with_stats(|s| s.clock_jumps += 1);
                    if deadline.map(|d| t >= d).unwrap_or(false) && next_env.map(|e| e > t).unwrap_or(true) {
                        timed_out = true;
                        break;
                    }
                    continue;
                }
                None if !crate::is_active() => {
                    // fidelity mode (no simulation on this thread, e.g. compio's own tests): really wait for the OS
                    os_wait(fd, None);
                    continue;
                }
                None => {
                    // a real kernel would sleep forever here
                    let pending: Vec<String> = with_kernel(|k| k.rings[&fd].ops.iter().map(|o| format!("#{} {} fd {}", o.seq, ops::op_name(o.opcode), o.fd)).collect());
                    simcore::try_with(|d| {
                        d.raise(simcore::Violation::new(
                            "blocked-forever",
                            format!("the runtime thread waits in io_uring_enter (min_complete {min_complete}, no timeout) and nothing can ever complete: pending operations {pending:?}, no pool job, no peer action scheduled"),
                        ))
                    });
                    panic!("[expected] simkernel: io_uring_enter would block forever");
                }
            }
        }
        looked_only = false;
        if !want_wait && flip("k.enter.lazy", lazy) {
            // completions are only discovered later
            fault("completion-left-pending");
            break;
        }
        let pick = if events.len() > 1 && flip("k.reorder", reorder) {
            fault("completion-reordered");
            simcore::try_with(|d| d.mark_nontrivial());
            choose("k.reorder.pick", events.len())
        } else {
            0
        };
        if events.len() > 1 {
            simcore::try_with(|d| d.mark_nontrivial());
        }
        match events.swap_remove(pick) {
            Event::Op(i) => complete_op(fd, i),
            Event::Job => {
                let job = with_kernel(|k| {
                    k.in_callback = true;
                    k.cb_offset_ns = 0;
                    k.jobs.pop_front()
                });
                if let Some(j) = job {
                    klog(|| "kernel: a blocking-pool job runs".to_string());
                    sig(0x4a0b);
                    j();
                }
                with_kernel(|k| k.in_callback = false);
            }
            Event::Env(i) => {
                let ev = with_kernel(|k| k.env.remove(i));
                klog(|| format!("kernel: environment: {}", ev.label));
                sig(0x4e00 + crate::fnv_label(&ev.label));
                (ev.action)();
            }
        }
    }
    with_kernel(|k| {
        if let Some(r) = k.rings.get_mut(&fd) {
            r.flush_overflow();
            r.update_signal();
        }
    });
    if submitted == 0 && timed_out {
        return -libc::ETIME;
    }
    submitted as i32
}

fn complete_op(fd: i32, idx: usize) {
    with_kernel(|k| {
        let now = k.clock_ns;
        let (short, mend) = (k.cfg.short, k.cfg.multishot_end);
        let r = k.rings.get_mut(&fd).unwrap();
        let mut op = r.ops[idx].clone();
        if op.opcode == ops::OP_CLOSE {
            if let Some(o) = r.ops.iter().find(|o| o.seq != op.seq && o.uses_fd() && o.fd == op.fd && o.user_data < u64::MAX - 1) {
                let (seq, opcode) = (o.seq, o.opcode);
                simcore::try_with(|d| {
                    d.raise(simcore::Violation::new(
                        "fd-closed-in-flight",
                        format!("descriptor {} was closed (Close operation #{}) while operation #{seq} {} on it was still pending in the kernel", op.fd, op.seq, ops::op_name(opcode)),
                    ))
                });
            }
        }
        let (outcome, digest) = if op.opcode == ops::OP_ASYNC_CANCEL {
            (Outcome::Done(-(op.off as i32), 0), 0)
        } else {
            let mut cx = ops::Ctx { pbufs: &mut r.pbufs, short, multishot_end: mend, digest: 0, held: &k.user_held, udp_loss: k.cfg.udp_loss, udp_dup: k.cfg.udp_dup };
            let o = op.complete(&mut cx);
            (o, cx.digest)
        };
        match outcome {
            Outcome::NotReady => {
                r.ops[idx] = op;
            }
            Outcome::Done(res, flags) => {
                r.ops.remove(idx);
                klog(|| format!("kernel: complete #{} {} -> {res} flags {flags:#x}", op.seq, ops::op_name(op.opcode)));
                sig(0x4c00 + op.opcode as u64 + ((res.clamp(-200, 200) + 200) as u64) * 64);
                r.post(Cqe { user_data: op.user_data, res, flags });
                simcore::quarantine::watch_remove(op.seq);
                k.evseq += 1;
                k.ledger.push(Completion { seq: op.seq, user_data: op.user_data, opcode: op.opcode, fd: op.fd, res, flags, digest, at_ns: now, addr: op.addr as usize, evseq: k.evseq });
            }
            Outcome::More(res, flags) => {
                op.posted += 1;
                klog(|| format!("kernel: complete #{} {} -> {res} flags {:#x} (more)", op.seq, ops::op_name(op.opcode), flags | CQE_F_MORE));
                sig(0x4d00 + op.opcode as u64);
                r.post(Cqe { user_data: op.user_data, res, flags: flags | CQE_F_MORE });
                k.evseq += 1;
                k.ledger.push(Completion { seq: op.seq, user_data: op.user_data, opcode: op.opcode, fd: op.fd, res, flags: flags | CQE_F_MORE, digest, at_ns: now, addr: op.addr as usize, evseq: k.evseq });
                r.ops[idx] = op;
            }
        }
    });
    let _ = Ordering::Relaxed;
}

/// Fidelity mode only: block in the real OS until one of the pending operations' descriptors is ready
/// (or the timeout, in ns, elapses). Returns the time waited in ns.
fn os_wait(ring_fd: i32, timeout_ns: Option<u64>) -> u64 {
    let mut fds: Vec<libc::pollfd> = with_kernel(|k| {
        k.rings[&ring_fd]
            .ops
            .iter()
            .filter_map(|o| {
                let ev = match o.opcode {
                    ops::OP_READ | ops::OP_READV | ops::OP_RECV | ops::OP_RECVMSG | ops::OP_ACCEPT | ops::OP_READ_MULTISHOT => libc::POLLIN,
                    ops::OP_WRITE | ops::OP_WRITEV | ops::OP_SEND | ops::OP_SENDMSG | ops::OP_SEND_ZC | ops::OP_SENDMSG_ZC | ops::OP_CONNECT => libc::POLLOUT,
                    ops::OP_POLL_ADD => (o.opflags & 0xffff) as i16,
                    _ => return None,
                };
                Some(libc::pollfd { fd: o.fd, events: ev, revents: 0 })
            })
            .collect()
    });
    let t0 = std::time::Instant::now();
    let ms = match timeout_ns {
        Some(ns) => ((ns + 999_999) / 1_000_000).min(i32::MAX as u64) as i32,
        None => -1,
    };
    unsafe { libc::poll(fds.as_mut_ptr(), fds.len() as libc::nfds_t, ms) };
    t0.elapsed().as_nanos() as u64
}
