//! SQE decoding and operation completion: each completion performs the real
//! non-blocking system call on the real descriptor.

use crate::ring::*;

pub const OP_NOP: u8 = 0;
pub const OP_READV: u8 = 1;
pub const OP_WRITEV: u8 = 2;
pub const OP_FSYNC: u8 = 3;
pub const OP_POLL_ADD: u8 = 6;
pub const OP_SENDMSG: u8 = 9;
pub const OP_RECVMSG: u8 = 10;
pub const OP_ACCEPT: u8 = 13;
pub const OP_ASYNC_CANCEL: u8 = 14;
pub const OP_CONNECT: u8 = 16;
pub const OP_OPENAT: u8 = 18;
pub const OP_CLOSE: u8 = 19;
pub const OP_STATX: u8 = 21;
pub const OP_READ: u8 = 22;
pub const OP_WRITE: u8 = 23;
pub const OP_SEND: u8 = 26;
pub const OP_RECV: u8 = 27;
pub const OP_SPLICE: u8 = 30;
pub const OP_SHUTDOWN: u8 = 34;
pub const OP_RENAMEAT: u8 = 35;
pub const OP_UNLINKAT: u8 = 36;
pub const OP_MKDIRAT: u8 = 37;
pub const OP_SYMLINKAT: u8 = 38;
pub const OP_LINKAT: u8 = 39;
pub const OP_SOCKET: u8 = 45;
pub const OP_SEND_ZC: u8 = 47;
pub const OP_SENDMSG_ZC: u8 = 48;
pub const OP_READ_MULTISHOT: u8 = 49;
pub const OP_FTRUNCATE: u8 = 55;
pub const OP_BIND: u8 = 56;
pub const OP_LISTEN: u8 = 57;
pub const OP_PIPE: u8 = 62;
pub const OP_LAST: u8 = 63;

pub const SUPPORTED: &[u8] = &[
    OP_NOP, OP_READV, OP_WRITEV, OP_FSYNC, OP_POLL_ADD, OP_SENDMSG, OP_RECVMSG, OP_ACCEPT, OP_ASYNC_CANCEL, OP_CONNECT, OP_OPENAT, OP_CLOSE,
    OP_STATX, OP_READ, OP_WRITE, OP_SEND, OP_RECV, OP_SPLICE, OP_SHUTDOWN, OP_RENAMEAT, OP_UNLINKAT, OP_MKDIRAT, OP_SYMLINKAT, OP_LINKAT,
    OP_SOCKET, OP_SEND_ZC, OP_SENDMSG_ZC, OP_READ_MULTISHOT, OP_FTRUNCATE, OP_BIND, OP_LISTEN, OP_PIPE,
];

impl KOp {
    /// User memory the kernel may still read or write while this operation is pending (C01): data
    /// buffers, the message header and the name/control buffers of a receive, the address buffers of an
    /// accept, the statx buffer, the descriptor pair of a pipe. Structures the kernel copies when the SQE
    /// is consumed (iovec arrays, paths, socket addresses of connect/bind, time specs) are not included.
    pub fn ranges(&self) -> Vec<(usize, usize)> {
        let mut v = Vec::new();
        let select = self.sqe_flags & IOSQE_BUFFER_SELECT != 0;
        let iovs = |base: usize, n: usize, v: &mut Vec<(usize, usize)>| {
            for i in 0..n.min(1024) {
                let iov = unsafe { ((base + i * 16) as *const libc::iovec).read_unaligned() };
                v.push((iov.iov_base as usize, iov.iov_len));
            }
        };
        match self.opcode {
            OP_READ | OP_RECV | OP_READ_MULTISHOT | OP_WRITE | OP_SEND | OP_SEND_ZC if !select => v.push((self.addr as usize, self.len as usize)),
            OP_READV | OP_WRITEV => iovs(self.addr as usize, self.len as usize, &mut v),
            OP_RECVMSG | OP_SENDMSG | OP_SENDMSG_ZC => {
                let m = unsafe { (self.addr as *const libc::msghdr).read_unaligned() };
                if self.opcode == OP_RECVMSG {
                    v.push((self.addr as usize, std::mem::size_of::<libc::msghdr>()));
                    v.push((m.msg_name as usize, m.msg_namelen as usize));
                    v.push((m.msg_control as usize, m.msg_controllen));
                } else {
                    // the header and the destination are copied when the request is prepared; the control data is
                    // read from user memory when the message is sent (io_uring/net.c: io_sendmsg -> ____sys_sendmsg)
                    v.push((m.msg_control as usize, m.msg_controllen));
                }
                if !select {
                    iovs(m.msg_iov as usize, m.msg_iovlen, &mut v);
                }
            }
            OP_ACCEPT => {
                if self.addr != 0 && self.off != 0 {
                    let l = unsafe { (self.off as *const u32).read_unaligned() } as usize;
                    v.push((self.addr as usize, l));
                    v.push((self.off as usize, 4));
                }
            }
            OP_STATX => v.push((self.off as usize, 256)),
            OP_PIPE => v.push((self.addr as usize, 8)),
            _ => {}
        }
        v.retain(|(a, l)| *a != 0 && *l != 0);
        v
    }

    /// Whether the `fd` field names a descriptor the operation works on while pending.
    pub fn uses_fd(&self) -> bool {
        !matches!(self.opcode, OP_NOP | OP_ASYNC_CANCEL | OP_OPENAT | OP_STATX | OP_RENAMEAT | OP_UNLINKAT | OP_MKDIRAT | OP_SYMLINKAT | OP_LINKAT | OP_SOCKET | OP_PIPE) && self.fd >= 0
    }
}

pub fn modelled(op: u8) -> bool {
    SUPPORTED.contains(&op)
}

pub fn op_name(op: u8) -> &'static str {
    match op {
        OP_NOP => "Nop",
        OP_READV => "Readv",
        OP_WRITEV => "Writev",
        OP_FSYNC => "Fsync",
        OP_POLL_ADD => "PollAdd",
        OP_SENDMSG => "SendMsg",
        OP_RECVMSG => "RecvMsg",
        OP_ACCEPT => "Accept",
        OP_ASYNC_CANCEL => "AsyncCancel",
        OP_CONNECT => "Connect",
        OP_OPENAT => "OpenAt",
        OP_CLOSE => "Close",
        OP_STATX => "Statx",
        OP_READ => "Read",
        OP_WRITE => "Write",
        OP_SEND => "Send",
        OP_RECV => "Recv",
        OP_SPLICE => "Splice",
        OP_SHUTDOWN => "Shutdown",
        OP_RENAMEAT => "RenameAt",
        OP_UNLINKAT => "UnlinkAt",
        OP_MKDIRAT => "MkDirAt",
        OP_SYMLINKAT => "SymlinkAt",
        OP_LINKAT => "LinkAt",
        OP_SOCKET => "Socket",
        OP_SEND_ZC => "SendZc",
        OP_SENDMSG_ZC => "SendMsgZc",
        OP_READ_MULTISHOT => "ReadMulti",
        OP_FTRUNCATE => "Ftruncate",
        OP_BIND => "Bind",
        OP_LISTEN => "Listen",
        OP_PIPE => "Pipe",
        _ => "?",
    }
}

const IOSQE_BUFFER_SELECT: u8 = 1 << 5;
const IORING_ACCEPT_MULTISHOT: u16 = 1;
const IORING_RECV_MULTISHOT: u16 = 2;
const IORING_POLL_ADD_MULTI: u32 = 1;

/// A pending operation: the decoded SQE plus what the kernel needs to remember.
#[derive(Clone, Debug)]
pub struct KOp {
    pub seq: u64,
    pub user_data: u64,
    pub opcode: u8,
    pub sqe_flags: u8,
    pub ioprio: u16,
    pub fd: i32,
    pub off: u64,
    pub addr: u64,
    pub len: u32,
    pub opflags: u32,
    pub buf_group: u16,
    pub addr_len: u16,
    pub file_index: i32,
    pub addr3: u64,
    /// multishot/poll re-arm: the condition was seen false since the last completion
    pub armed: bool,
    /// (Engine M) the scheduler's progress count when the multishot poll last fired
    pub fired_at_progress: u64,
    pub cancel_requested: bool,
    /// zero-copy: data sent, notification CQE still owed
    pub zc_notif_owed: bool,
    pub connect_started: bool,
    pub posted: u32,
}

pub enum Outcome {
    NotReady,
    /// final CQE
    Done(i32, u32),
    /// CQE with F_MORE, the operation stays
    More(i32, u32),
}

fn rd<T: Copy>(sqe: &[u8; 64], off: usize) -> T {
    unsafe { (sqe.as_ptr().add(off) as *const T).read_unaligned() }
}

pub fn decode(sqe: &[u8; 64], seq: u64) -> KOp {
    KOp {
        seq,
        opcode: sqe[0],
        sqe_flags: sqe[1],
        ioprio: rd::<u16>(sqe, 2),
        fd: rd::<i32>(sqe, 4),
        off: rd::<u64>(sqe, 8),
        addr: rd::<u64>(sqe, 16),
        len: rd::<u32>(sqe, 24),
        opflags: rd::<u32>(sqe, 28),
        user_data: rd::<u64>(sqe, 32),
        buf_group: rd::<u16>(sqe, 40),
        addr_len: rd::<u16>(sqe, 42),
        file_index: rd::<i32>(sqe, 44),
        addr3: rd::<u64>(sqe, 48),
        armed: true,
        fired_at_progress: 0,
        cancel_requested: false,
        zc_notif_owed: false,
        connect_started: false,
        posted: 0,
    }
}

fn errno() -> i32 {
    unsafe { *libc::__errno_location() }
}

fn ret(r: isize) -> i32 {
    if r < 0 { -errno() } else { r as i32 }
}

pub(crate) fn poll_ready(fd: i32, events: i16) -> i16 {
    let mut p = libc::pollfd { fd, events, revents: 0 };
    let r = unsafe { libc::poll(&mut p, 1, 0) };
    if r > 0 { p.revents } else { 0 }
}

/// Run `f` with the descriptor in non-blocking mode (io_uring never blocks the submitter).
fn nonblocking<R>(fd: i32, f: impl FnOnce() -> R) -> R {
    let fl = unsafe { libc::fcntl(fd, libc::F_GETFL) };
    let switch = fl >= 0 && fl & libc::O_NONBLOCK == 0;
    if switch {
        unsafe { libc::fcntl(fd, libc::F_SETFL, fl | libc::O_NONBLOCK) };
    }
    let r = f();
    if switch {
        unsafe { libc::fcntl(fd, libc::F_SETFL, fl) };
    }
    r
}

fn is_stream(fd: i32) -> bool {
    // pipes, sockets, ttys: not seekable
    unsafe { libc::lseek(fd, 0, libc::SEEK_CUR) == -1 && errno() == libc::ESPIPE }
}

fn is_dgram(fd: i32) -> bool {
    let mut ty: libc::c_int = 0;
    let mut len = std::mem::size_of::<libc::c_int>() as libc::socklen_t;
    let r = unsafe { libc::getsockopt(fd, libc::SOL_SOCKET, libc::SO_TYPE, &mut ty as *mut _ as *mut libc::c_void, &mut len) };
    r == 0 && ty == libc::SOCK_DGRAM
}

/// A byte stream whose transfers the kernel may cut short (pipes, stream sockets, ttys). A datagram is
/// sent and received whole.
fn may_be_short(fd: i32) -> bool {
    if !is_stream(fd) {
        return false;
    }
    let mut ty: libc::c_int = 0;
    let mut len = std::mem::size_of::<libc::c_int>() as libc::socklen_t;
    let r = unsafe { libc::getsockopt(fd, libc::SOL_SOCKET, libc::SO_TYPE, &mut ty as *mut _ as *mut libc::c_void, &mut len) };
    r != 0 || ty == libc::SOCK_STREAM
}

fn digest(bytes: &[u8]) -> u64 {
    let mut h = 0xcbf29ce484222325u64;
    for b in bytes {
        h = (h ^ *b as u64).wrapping_mul(0x100000001b3);
    }
    h
}

pub struct Ctx<'a> {
    pub pbufs: &'a mut std::collections::BTreeMap<u16, PbufRing>,
    pub short: u32,
    pub multishot_end: u32,
    pub digest: u64,
    /// memory ranges the program says it currently holds as pool buffers (C07): (addr, len)
    pub held: &'a [(usize, usize, u64)],
    /// rates (x/64) of losing / duplicating a datagram sent through sendmsg
    pub udp_loss: u32,
    pub udp_dup: u32,
}

impl Ctx<'_> {
    /// Take the next provided buffer of a group: (addr, len, bid).
    fn take_buffer(&mut self, group: u16) -> Option<(usize, u32, u16)> {
        let r = self.pbufs.get_mut(&group)?;
        // tail lives in the `resv` field of entry 0 (offset 14)
        let tail = unsafe { ((r.addr + 14) as *const std::sync::atomic::AtomicU16).as_ref().unwrap().load(std::sync::atomic::Ordering::Acquire) };
        if tail == r.head {
            return None;
        }
        let mask = r.entries - 1;
        let e = r.addr + ((r.head & mask) as usize) * 16;
        let addr = unsafe { (e as *const u64).read_unaligned() } as usize;
        let len = unsafe { ((e + 8) as *const u32).read_unaligned() };
        let bid = unsafe { ((e + 12) as *const u16).read_unaligned() };
        r.head = r.head.wrapping_add(1);
        simcore::quarantine::pbuf_set_head(crate::PBUF_TAG + group as u64, r.head);
        crate::probe("provided-buffer-selected");
        if self.held.iter().any(|(a, l, _)| *a < addr + len as usize && addr < *a + *l) {
            simcore::try_with(|d| {
                d.raise(simcore::Violation::new(
                    "kernel-selected-held-buffer",
                    format!("buffer {bid} of group {group} was selected by the kernel for a receive while the program still holds a handle to it"),
                ))
            });
        }
        if simcore::quarantine::is_freed(addr) {
            // published to the kernel, then freed: the kernel is about to write into it
            simcore::try_with(|d| {
                d.raise(simcore::Violation::new(
                    "provided-buffer-freed",
                    format!("buffer {bid} of group {group} ({len} bytes) is still published in the provided-buffer ring but its memory has been freed; the kernel selected it for a receive"),
                ))
            });
        }
        Some((addr, len, bid))
    }

    fn shorten(&self, n: usize, kind: &'static str) -> usize {
        if n > 1 && crate::flip(kind, self.short) {
            crate::fault("short-transfer");
            1 + crate::range("k.short.len", 0, (n - 2) as u64) as usize
        } else {
            n
        }
    }
}

impl KOp {
    pub fn is_multishot(&self) -> bool {
        match self.opcode {
            OP_ACCEPT => self.ioprio & IORING_ACCEPT_MULTISHOT != 0,
            OP_RECV | OP_RECVMSG => self.ioprio & IORING_RECV_MULTISHOT != 0,
            OP_POLL_ADD => self.len & IORING_POLL_ADD_MULTI != 0,
            OP_READ_MULTISHOT => true,
            _ => false,
        }
    }

    fn buffer_select(&self) -> bool {
        self.sqe_flags & IOSQE_BUFFER_SELECT != 0
    }

    fn poll_events(&self) -> i16 {
        // poll32_events, little endian: low 16 bits
        (self.opflags & 0xffff) as i16
    }

    /// Is the operation able to complete now (without blocking)?
    pub fn ready(&mut self) -> bool {
        if self.cancel_requested || self.zc_notif_owed {
            return true;
        }
        let r = match self.opcode {
            OP_READ | OP_READV | OP_RECV | OP_RECVMSG | OP_ACCEPT | OP_READ_MULTISHOT => poll_ready(self.fd, libc::POLLIN) != 0,
            OP_WRITE | OP_WRITEV | OP_SEND | OP_SENDMSG | OP_SEND_ZC | OP_SENDMSG_ZC => poll_ready(self.fd, libc::POLLOUT) != 0,
            OP_POLL_ADD => {
                let ev = self.poll_events();
                poll_ready(self.fd, ev) != 0
            }
            OP_CONNECT => !self.connect_started || poll_ready(self.fd, libc::POLLOUT) != 0,
            OP_SPLICE => poll_ready(self.file_index, libc::POLLIN) != 0 && poll_ready(self.fd, libc::POLLOUT) != 0,
            _ => true,
        };
        if self.opcode == OP_POLL_ADD && self.is_multishot() {
            // edge-like: fires again only after the condition was seen false, or in a later `io_uring_enter`
            // (see `rearm_multishot_polls`)
            if !r {
                self.armed = true;
                return false;
            }
            // (Engine M) or when another thread has run since it fired: the kernel posts a completion per
            // wake-up of the descriptor's wait queue (every write to an eventfd is one), also when this
            // thread never saw the descriptor in between, unreadable
            if !self.armed && crate::multi::progress().map(|p| p != self.fired_at_progress).unwrap_or(false) {
                self.armed = true;
            }
            return self.armed;
        }
        r
    }

    /// Complete (one step of) the operation. Only called when `ready()`.
    pub fn complete(&mut self, cx: &mut Ctx<'_>) -> Outcome {
        if self.cancel_requested {
            if self.zc_notif_owed {
                self.zc_notif_owed = false;
                return Outcome::Done(0, CQE_F_NOTIF);
            }
            return Outcome::Done(-libc::ECANCELED, 0);
        }
        if self.zc_notif_owed {
            self.zc_notif_owed = false;
            return Outcome::Done(0, CQE_F_NOTIF);
        }
        let fd = self.fd;
        match self.opcode {
            OP_NOP => Outcome::Done(0, 0),
            OP_READ | OP_RECV | OP_READ_MULTISHOT => self.do_read(cx),
            OP_WRITE | OP_SEND | OP_SEND_ZC => self.do_write(cx),
            OP_READV | OP_WRITEV => self.do_rwv(cx),
            OP_RECVMSG => self.do_recvmsg(cx),
            OP_SENDMSG | OP_SENDMSG_ZC => {
                // the network between two datagram sockets: a datagram may be lost or duplicated on the way
                if cx.udp_loss + cx.udp_dup > 0 && is_dgram(fd) {
                    let m = unsafe { &*(self.addr as *const libc::msghdr) };
                    let total: usize = (0..m.msg_iovlen).map(|i| unsafe { (*m.msg_iov.add(i)).iov_len }).sum();
                    if crate::flip("k.udp.loss", cx.udp_loss) {
                        crate::fault("udp-datagram-lost");
                        crate::klog(|| format!("kernel: network: the datagram of #{} ({total} bytes) is lost", self.seq));
                        if self.opcode == OP_SENDMSG_ZC {
                            self.zc_notif_owed = true;
                            return Outcome::More(total as i32, 0);
                        }
                        return Outcome::Done(total as i32, 0);
                    }
                    if crate::flip("k.udp.dup", cx.udp_dup) {
                        crate::fault("udp-datagram-duplicated");
                        crate::klog(|| format!("kernel: network: the datagram of #{} ({total} bytes) is delivered twice", self.seq));
                        unsafe { libc::sendmsg(fd, self.addr as *const libc::msghdr, self.opflags as i32 | libc::MSG_DONTWAIT | libc::MSG_NOSIGNAL) };
                    }
                }
                if debug_pkt() {
                    let m = unsafe { &*(self.addr as *const libc::msghdr) };
                    let mut bytes = Vec::new();
                    for i in 0..m.msg_iovlen {
                        let v = unsafe { *m.msg_iov.add(i) };
                        bytes.extend_from_slice(unsafe { std::slice::from_raw_parts(v.iov_base as *const u8, v.iov_len) });
                    }
                    crate::klog(|| format!("kernel:   packet #{} {} bytes: {:02x?} control {}", self.seq, bytes.len(), &bytes[..bytes.len().min(14)], m.msg_controllen));
                }
                let r = ret(unsafe { libc::sendmsg(fd, self.addr as *const libc::msghdr, self.opflags as i32 | libc::MSG_DONTWAIT | libc::MSG_NOSIGNAL) });
                if r == -libc::EAGAIN {
                    return Outcome::NotReady;
                }
                if self.opcode == OP_SENDMSG_ZC {
                    if r < 0 {
                        crate::probe("zerocopy-send-failed-with-notification");
                    }
                    self.zc_notif_owed = true;
                    return Outcome::More(r, 0);
                }
                Outcome::Done(r, 0)
            }
            OP_ACCEPT => {
                let r = nonblocking(fd, || ret(unsafe { libc::accept4(fd, self.addr as *mut libc::sockaddr, self.off as *mut libc::socklen_t, self.opflags as i32) } as isize));
                if r == -libc::EAGAIN {
                    return Outcome::NotReady;
                }
                if self.is_multishot() && r >= 0 {
                    if crate::flip("k.multishot.end", cx.multishot_end) {
                        crate::fault("multishot-ended-by-kernel");
                        return Outcome::Done(r, 0);
                    }
                    return Outcome::More(r, 0);
                }
                Outcome::Done(r, 0)
            }
            OP_CONNECT => {
                if !self.connect_started {
                    self.connect_started = true;
                    let r = nonblocking(fd, || ret(unsafe { libc::connect(fd, self.addr as *const libc::sockaddr, self.off as libc::socklen_t) } as isize));
                    if r == -libc::EINPROGRESS || r == -libc::EAGAIN {
                        return Outcome::NotReady;
                    }
                    return Outcome::Done(r, 0);
                }
                let mut err: i32 = 0;
                let mut l = 4 as libc::socklen_t;
                unsafe { libc::getsockopt(fd, libc::SOL_SOCKET, libc::SO_ERROR, &mut err as *mut i32 as *mut libc::c_void, &mut l) };
                Outcome::Done(-err, 0)
            }
            OP_POLL_ADD => {
                let rev = poll_ready(fd, self.poll_events());
                if rev == 0 {
                    return Outcome::NotReady;
                }
                if self.is_multishot() {
                    self.armed = false;
                    self.fired_at_progress = crate::multi::progress().unwrap_or(0);
                    if crate::flip("k.multishot.end", cx.multishot_end) {
                        crate::fault("multishot-ended-by-kernel");
                        return Outcome::Done(rev as i32, 0);
                    }
                    return Outcome::More(rev as i32, 0);
                }
                Outcome::Done(rev as i32, 0)
            }
            OP_FSYNC => Outcome::Done(ret(unsafe { if self.opflags & 1 != 0 { libc::fdatasync(fd) } else { libc::fsync(fd) } } as isize), 0),
            OP_OPENAT => Outcome::Done(ret(unsafe { libc::openat(fd, self.addr as *const libc::c_char, self.opflags as i32, self.len as libc::mode_t) } as isize), 0),
            OP_CLOSE => Outcome::Done(ret(unsafe { libc::close(fd) } as isize), 0),
            OP_STATX => Outcome::Done(
                ret(unsafe { libc::statx(fd, self.addr as *const libc::c_char, self.opflags as i32, self.len, self.off as *mut libc::statx) } as isize),
                0,
            ),
            OP_FTRUNCATE => Outcome::Done(ret(unsafe { libc::ftruncate(fd, self.off as libc::off_t) } as isize), 0),
            OP_SHUTDOWN => Outcome::Done(ret(unsafe { libc::shutdown(fd, self.len as i32) } as isize), 0),
            OP_UNLINKAT => Outcome::Done(ret(unsafe { libc::unlinkat(fd, self.addr as *const libc::c_char, self.opflags as i32) } as isize), 0),
            OP_MKDIRAT => Outcome::Done(ret(unsafe { libc::mkdirat(fd, self.addr as *const libc::c_char, self.len as libc::mode_t) } as isize), 0),
            OP_RENAMEAT => Outcome::Done(
                ret(unsafe { libc::renameat2(fd, self.addr as *const libc::c_char, self.len as i32, self.off as *const libc::c_char, self.opflags) } as isize),
                0,
            ),
            OP_SYMLINKAT => Outcome::Done(ret(unsafe { libc::symlinkat(self.addr as *const libc::c_char, fd, self.off as *const libc::c_char) } as isize), 0),
            OP_LINKAT => Outcome::Done(
                ret(unsafe { libc::linkat(fd, self.addr as *const libc::c_char, self.len as i32, self.off as *const libc::c_char, self.opflags as i32) } as isize),
                0,
            ),
            OP_SOCKET => Outcome::Done(ret(unsafe { libc::socket(fd, self.off as i32, self.len as i32) } as isize), 0),
            OP_BIND => Outcome::Done(ret(unsafe { libc::bind(fd, self.addr as *const libc::sockaddr, self.off as libc::socklen_t) } as isize), 0),
            OP_LISTEN => Outcome::Done(ret(unsafe { libc::listen(fd, self.len as i32) } as isize), 0),
            OP_PIPE => Outcome::Done(ret(unsafe { libc::pipe2(self.addr as *mut i32, self.opflags as i32) } as isize), 0),
            OP_SPLICE => {
                let off_in = self.addr as i64;
                let off_out = self.off as i64;
                let mut oi = off_in;
                let mut oo = off_out;
                let r = ret(unsafe {
                    libc::splice(
                        self.file_index,
                        if off_in == -1 { std::ptr::null_mut() } else { &mut oi },
                        fd,
                        if off_out == -1 { std::ptr::null_mut() } else { &mut oo },
                        self.len as usize,
                        self.opflags | libc::SPLICE_F_NONBLOCK,
                    )
                });
                if r == -libc::EAGAIN {
                    return Outcome::NotReady;
                }
                Outcome::Done(r, 0)
            }
            _ => Outcome::Done(-libc::EINVAL, 0),
        }
    }

    fn do_read(&mut self, cx: &mut Ctx<'_>) -> Outcome {
        let fd = self.fd;
        let multishot = self.is_multishot();
        let mut flags = 0u32;
        let (ptr, cap) = if self.buffer_select() || self.opcode == OP_READ_MULTISHOT {
            match cx.take_buffer(self.buf_group) {
                Some((a, l, bid)) => {
                    flags |= CQE_F_BUFFER | ((bid as u32) << 16);
                    let want = if self.len == 0 { l } else { self.len.min(l) };
                    (a, want as usize)
                }
                None => {
                    crate::probe("no-provided-buffer");
                    return Outcome::Done(-libc::ENOBUFS, 0);
                }
            }
        } else {
            (self.addr as usize, self.len as usize)
        };
        let stream = is_stream(fd);
        let n = if stream && may_be_short(fd) { cx.shorten(cap, "k.short.read") } else { cap };
        let r = if self.opcode == OP_RECV {
            ret(unsafe { libc::recv(fd, ptr as *mut libc::c_void, n, (self.opflags as i32) | libc::MSG_DONTWAIT) })
        } else if stream || self.off == u64::MAX {
            nonblocking(fd, || ret(unsafe { libc::read(fd, ptr as *mut libc::c_void, n) }))
        } else {
            ret(unsafe { libc::pread(fd, ptr as *mut libc::c_void, n, self.off as libc::off_t) })
        };
        if r == -libc::EAGAIN {
            if flags & CQE_F_BUFFER != 0 {
                // put the buffer back: nothing was consumed
                if let Some(pr) = cx.pbufs.get_mut(&self.buf_group) {
                    pr.head = pr.head.wrapping_sub(1);
                }
            }
            return Outcome::NotReady;
        }
        if r > 0 {
            cx.digest = digest(unsafe { std::slice::from_raw_parts(ptr as *const u8, r as usize) });
        }
        // io_uring/rw.c completes a read through kiocb_done(), which hands the selected buffer over
        // (F_BUFFER) also when 0 bytes were read; io_uring/net.c recycles the buffer of a receive that got
        // nothing (no F_BUFFER)
        let read_family = matches!(self.opcode, OP_READ | OP_READ_MULTISHOT);
        if r < 0 || (r == 0 && !read_family) {
            if flags & CQE_F_BUFFER != 0 {
                if let Some(pr) = cx.pbufs.get_mut(&self.buf_group) {
                    pr.head = pr.head.wrapping_sub(1);
                }
                flags = 0;
            }
        }
        if multishot && r > 0 {
            if crate::flip("k.multishot.end", cx.multishot_end) {
                crate::fault("multishot-ended-by-kernel");
                return Outcome::Done(r, flags);
            }
            return Outcome::More(r, flags);
        }
        Outcome::Done(r, flags)
    }

    fn do_write(&mut self, cx: &mut Ctx<'_>) -> Outcome {
        let fd = self.fd;
        let stream = is_stream(fd);
        let n = if stream && may_be_short(fd) { cx.shorten(self.len as usize, "k.short.write") } else { self.len as usize };
        let ptr = self.addr as *const libc::c_void;
        if n > 0 {
            cx.digest = digest(unsafe { std::slice::from_raw_parts(ptr as *const u8, n) });
        }
        let r = if matches!(self.opcode, OP_SEND | OP_SEND_ZC) {
            let fl = (self.opflags as i32) | libc::MSG_DONTWAIT | libc::MSG_NOSIGNAL;
            if self.off != 0 {
                ret(unsafe { libc::sendto(fd, ptr, n, fl, self.off as *const libc::sockaddr, self.addr_len as libc::socklen_t) })
            } else {
                ret(unsafe { libc::send(fd, ptr, n, fl) })
            }
        } else if stream || self.off == u64::MAX {
            nonblocking(fd, || ret(unsafe { libc::write(fd, ptr, n) }))
        } else {
            ret(unsafe { libc::pwrite(fd, ptr, n, self.off as libc::off_t) })
        };
        if r == -libc::EAGAIN {
            return Outcome::NotReady;
        }
        // (a zero-copy send that fails when it is issued is reported like one that succeeds: the result with the
        // MORE flag, then the notification: io_uring/net.c io_send_zc sets IORING_CQE_F_MORE whatever `ret` is)
        if self.opcode == OP_SEND_ZC {
            if r < 0 {
                crate::probe("zerocopy-send-failed-with-notification");
            }
            self.zc_notif_owed = true;
            return Outcome::More(r, 0);
        }
        Outcome::Done(r, 0)
    }

    fn do_rwv(&mut self, _cx: &mut Ctx<'_>) -> Outcome {
        let fd = self.fd;
        let iov = self.addr as *const libc::iovec;
        let cnt = self.len as i32;
        crate::klog(|| {
            let v: Vec<usize> = (0..cnt as usize).map(|i| unsafe { (*iov.add(i)).iov_len }).collect();
            format!("kernel:   iovec lengths {v:?}")
        });
        let stream = is_stream(fd);
        let r = if self.opcode == OP_READV {
            if stream || self.off == u64::MAX {
                nonblocking(fd, || ret(unsafe { libc::readv(fd, iov, cnt) }))
            } else {
                ret(unsafe { libc::preadv(fd, iov, cnt, self.off as libc::off_t) })
            }
        } else if stream || self.off == u64::MAX {
            nonblocking(fd, || ret(unsafe { libc::writev(fd, iov, cnt) }))
        } else {
            ret(unsafe { libc::pwritev(fd, iov, cnt, self.off as libc::off_t) })
        };
        if r == -libc::EAGAIN {
            return Outcome::NotReady;
        }
        Outcome::Done(r, 0)
    }

    fn do_recvmsg(&mut self, cx: &mut Ctx<'_>) -> Outcome {
        let fd = self.fd;
        let fl = (self.opflags as i32) | libc::MSG_DONTWAIT;
        if !self.is_multishot() && !self.buffer_select() {
            let r = ret(unsafe { libc::recvmsg(fd, self.addr as *mut libc::msghdr, fl) });
            if r == -libc::EAGAIN {
                return Outcome::NotReady;
            }
            if r == -libc::EFAULT && std::env::var_os("VERIF_DEBUG_EFAULT").is_some() {
                let m = unsafe { &*(self.addr as *const libc::msghdr) };
                let iov0 = if m.msg_iovlen > 0 && !m.msg_iov.is_null() { unsafe { *m.msg_iov } } else { libc::iovec { iov_base: std::ptr::null_mut(), iov_len: 0 } };
                eprintln!("EFAULT: name {:?}/{} iov {:?} x{} [0]={:?}/{} control {:?}/{} flags {:#x}", m.msg_name, m.msg_namelen, m.msg_iov, m.msg_iovlen, iov0.iov_base, iov0.iov_len, m.msg_control, m.msg_controllen, m.msg_flags);
            }
            return Outcome::Done(r, 0);
        }
        if !self.is_multishot() {
            // single shot with buffer select: the selected buffer stands in for the (at most one) iovec;
            // name, control and flags go through the caller's msghdr as usual
            let user = self.addr as *mut libc::msghdr;
            let mut msg: libc::msghdr = unsafe { *user };
            let want = if msg.msg_iovlen >= 1 && !msg.msg_iov.is_null() { unsafe { (*msg.msg_iov).iov_len } } else { 0 };
            let Some((buf, blen, bid)) = cx.take_buffer(self.buf_group) else {
                crate::probe("no-provided-buffer");
                return Outcome::Done(-libc::ENOBUFS, 0);
            };
            let mut iov = libc::iovec {
                iov_base: buf as *mut libc::c_void,
                iov_len: if want == 0 { blen as usize } else { want.min(blen as usize) },
            };
            msg.msg_iov = &mut iov;
            msg.msg_iovlen = 1;
            let r = ret(unsafe { libc::recvmsg(fd, &mut msg, fl) });
            if r < 0 {
                if let Some(pr) = cx.pbufs.get_mut(&self.buf_group) {
                    pr.head = pr.head.wrapping_sub(1);
                }
                if r == -libc::EAGAIN {
                    return Outcome::NotReady;
                }
                return Outcome::Done(r, 0);
            }
            unsafe {
                (*user).msg_namelen = msg.msg_namelen;
                (*user).msg_controllen = msg.msg_controllen;
                (*user).msg_flags = msg.msg_flags;
            }
            return Outcome::Done(r, CQE_F_BUFFER | ((bid as u32) << 16));
        }
        // provided-buffer receive: the buffer holds io_uring_recvmsg_out { namelen, controllen, payloadlen, flags }
        // followed by the name, control and payload areas sized after the user's msghdr
        let tmpl = unsafe { &*(self.addr as *const libc::msghdr) };
        let (namelen, controllen) = (tmpl.msg_namelen as usize, tmpl.msg_controllen);
        let Some((buf, blen, bid)) = cx.take_buffer(self.buf_group) else {
            crate::probe("no-provided-buffer");
            return Outcome::Done(-libc::ENOBUFS, 0);
        };
        let hdr = 16usize;
        let blen = blen as usize;
        if blen < hdr + namelen + controllen {
            return Outcome::Done(-libc::EFAULT, 0);
        }
        let payload_cap = blen - hdr - namelen - controllen;
        let mut iov = libc::iovec {
            iov_base: (buf + hdr + namelen + controllen) as *mut libc::c_void,
            iov_len: payload_cap,
        };
        let mut msg: libc::msghdr = unsafe { std::mem::zeroed() };
        msg.msg_name = if namelen > 0 { (buf + hdr) as *mut libc::c_void } else { std::ptr::null_mut() };
        msg.msg_namelen = namelen as libc::socklen_t;
        msg.msg_control = if controllen > 0 { (buf + hdr + namelen) as *mut libc::c_void } else { std::ptr::null_mut() };
        msg.msg_controllen = controllen;
        msg.msg_iov = &mut iov;
        msg.msg_iovlen = 1;
        let r = ret(unsafe { libc::recvmsg(fd, &mut msg, fl) });
        if r == -libc::EAGAIN {
            if let Some(pr) = cx.pbufs.get_mut(&self.buf_group) {
                pr.head = pr.head.wrapping_sub(1);
            }
            return Outcome::NotReady;
        }
        if r < 0 {
            if let Some(pr) = cx.pbufs.get_mut(&self.buf_group) {
                pr.head = pr.head.wrapping_sub(1);
            }
            return Outcome::Done(r, 0);
        }
        unsafe {
            ((buf) as *mut u32).write_unaligned(msg.msg_namelen);
            ((buf + 4) as *mut u32).write_unaligned(msg.msg_controllen as u32);
            ((buf + 8) as *mut u32).write_unaligned(r as u32);
            ((buf + 12) as *mut u32).write_unaligned(msg.msg_flags as u32);
        }
        let copied = (r as usize).min(payload_cap);
        let total = (hdr + namelen + controllen + copied) as i32;
        let flags = CQE_F_BUFFER | ((bid as u32) << 16);
        if self.is_multishot() {
            if crate::flip("k.multishot.end", cx.multishot_end) {
                crate::fault("multishot-ended-by-kernel");
                return Outcome::Done(total, flags);
            }
            return Outcome::More(total, flags);
        }
        Outcome::Done(total, flags)
    }
}

/// `VERIF_DEBUG_PKT=1`: log the head of every datagram sent (diagnosis of divergent runs).
fn debug_pkt() -> bool {
    static ON: std::sync::OnceLock<bool> = std::sync::OnceLock::new();
    *ON.get_or_init(|| std::env::var_os("VERIF_DEBUG_PKT").is_some())
}

impl KOp {
    /// A multishot poll posts a completion per wake-up of the descriptor's wait queue. compio uses it for
    /// its notifier only (an eventfd it reads empty whenever it reaps such a completion), so a descriptor
    /// that is readable when the ring is entered again has been written to after that read: the kernel
    /// would have posted a completion for that write. Without this, a write that follows the driver's read
    /// before the simulated kernel has looked at the descriptor in between was lost (found by the thorough
    /// tier of C01 and C02 as a `blocked-forever`: the notification of a finished pool job).
    pub fn rearm_multishot_poll(&mut self) {
        if self.opcode == OP_POLL_ADD && self.is_multishot() {
            self.armed = true;
        }
    }
}
