//! The simulated clock. `clock_gettime` is defined here, so it takes precedence
//! over libc's for everything linked into the binary (std's `Instant::now()`
//! included): on a thread with an active simulated-kernel run the monotonic
//! clocks return simulated time; everywhere else the real system call is made.

use std::cell::Cell;

thread_local! {
    static ACTIVE: Cell<bool> = const { Cell::new(false) };
}

pub(crate) fn set_active(on: bool) {
    ACTIVE.with(|a| a.set(on));
    // a reading taken while the kernel state is borrowed falls back to the last published value: never one
    // of an earlier run
    LAST.with(|l| l.set(1_000_000_000));
}

pub fn clock_is_simulated() -> bool {
    ACTIVE.try_with(|a| a.get()).unwrap_or(false)
}

/// Advance simulated time (harness use: "the caller was descheduled for a while").
pub fn advance(ns: u64) {
    crate::with_kernel(|k| k.clock_ns = k.clock_ns.saturating_add(ns));
}

#[unsafe(no_mangle)]
pub unsafe extern "C" fn clock_gettime(clk: libc::clockid_t, tp: *mut libc::timespec) -> libc::c_int {
    let simulated = clock_is_simulated()
        && matches!(clk, libc::CLOCK_MONOTONIC | libc::CLOCK_MONOTONIC_RAW | libc::CLOCK_MONOTONIC_COARSE | libc::CLOCK_BOOTTIME);
    if simulated && !tp.is_null() {
        // the kernel state may be borrowed (we are called from inside it): fall back to the last published value
        let ns = crate::KERNEL.with(|k| k.try_borrow().map(|k| k.clock_ns).ok()).unwrap_or_else(|| LAST.with(|l| l.get()));
        LAST.with(|l| l.set(ns));
        unsafe {
            (*tp).tv_sec = (ns / 1_000_000_000) as libc::time_t;
            (*tp).tv_nsec = (ns % 1_000_000_000) as libc::c_long;
        }
        return 0;
    }
    unsafe { libc::syscall(libc::SYS_clock_gettime, clk as libc::c_long, tp) as libc::c_int }
}

thread_local! {
    static LAST: Cell<u64> = const { Cell::new(1_000_000_000) };
}
