//! Ring memory in the kernel ABI layout and CQE posting.

use std::{
    alloc::{Layout, alloc_zeroed, dealloc},
    collections::{BTreeMap, VecDeque},
    sync::atomic::{AtomicU32, Ordering},
};

use crate::ops::KOp;

pub const IORING_OFF_SQ_RING: i64 = 0;
pub const IORING_OFF_CQ_RING: i64 = 0x8000000;
pub const IORING_OFF_SQES: i64 = 0x10000000;

pub const SQ_ARRAY_OFF: u32 = 64;
pub const CQ_CQES_OFF: u32 = 64;

pub const IORING_SQ_CQ_OVERFLOW: u32 = 2;

pub const CQE_F_BUFFER: u32 = 1;
pub const CQE_F_MORE: u32 = 2;
pub const CQE_F_SOCK_NONEMPTY: u32 = 4;
pub const CQE_F_NOTIF: u32 = 8;

pub struct Region {
    pub ptr: *mut u8,
    pub len: usize,
}

impl Region {
    fn new(len: usize) -> Self {
        let len = len.max(64).next_multiple_of(4096);
        let ptr = unsafe { alloc_zeroed(Layout::from_size_align(len, 4096).unwrap()) };
        assert!(!ptr.is_null());
        Region { ptr, len }
    }

    pub fn u32_at(&self, off: u32) -> &AtomicU32 {
        debug_assert!((off as usize) + 4 <= self.len);
        unsafe { &*(self.ptr.add(off as usize) as *const AtomicU32) }
    }
}

impl Drop for Region {
    fn drop(&mut self) {
        unsafe { dealloc(self.ptr, Layout::from_size_align(self.len, 4096).unwrap()) }
    }
}

#[derive(Clone, Copy, Debug)]
pub struct Cqe {
    pub user_data: u64,
    pub res: i32,
    pub flags: u32,
}

pub struct PbufRing {
    pub addr: usize,
    pub entries: u16,
    /// the kernel's consumer index
    pub head: u16,
}

pub struct Ring {
    pub fd: i32,
    pub sq_entries: u32,
    pub cq_entries: u32,
    pub sq: Region,
    pub cq: Region,
    pub sqes: Region,
    pub ops: Vec<KOp>,
    pub overflow: VecDeque<Cqe>,
    pub pbufs: BTreeMap<u16, PbufRing>,
    pub eventfd: Option<i32>,
    pub personalities: u16,
    pub files: Vec<i32>,
    /// whether the ring fd (an eventfd) is currently readable
    pub signalled: bool,
    pub setup_flags: u32,
}

impl Ring {
    pub fn new(fd: i32, sq_entries: u32, cq_entries: u32, setup_flags: u32) -> Self {
        let sq = Region::new(SQ_ARRAY_OFF as usize + sq_entries as usize * 4);
        let cq = Region::new(CQ_CQES_OFF as usize + cq_entries as usize * 16);
        let sqes = Region::new(sq_entries as usize * 64);
        sq.u32_at(8).store(sq_entries - 1, Ordering::Relaxed);
        sq.u32_at(12).store(sq_entries, Ordering::Relaxed);
        cq.u32_at(8).store(cq_entries - 1, Ordering::Relaxed);
        cq.u32_at(12).store(cq_entries, Ordering::Relaxed);
        Ring {
            fd,
            sq_entries,
            cq_entries,
            sq,
            cq,
            sqes,
            ops: Vec::new(),
            overflow: VecDeque::new(),
            pbufs: BTreeMap::new(),
            eventfd: None,
            personalities: 0,
            files: Vec::new(),
            signalled: false,
            setup_flags,
        }
    }

    pub fn sq_head(&self) -> u32 {
        self.sq.u32_at(0).load(Ordering::Acquire)
    }

    pub fn sq_tail(&self) -> u32 {
        self.sq.u32_at(4).load(Ordering::Acquire)
    }

    pub fn cq_head(&self) -> u32 {
        self.cq.u32_at(0).load(Ordering::Acquire)
    }

    pub fn cq_tail(&self) -> u32 {
        self.cq.u32_at(4).load(Ordering::Acquire)
    }

    pub fn cq_ready(&self) -> u32 {
        self.cq_tail().wrapping_sub(self.cq_head())
    }

    pub fn cq_space(&self) -> u32 {
        self.cq_entries - self.cq_ready()
    }

    /// Read the next submitted SQE (64 bytes) and advance the SQ head.
    pub fn take_sqe(&mut self) -> Option<[u8; 64]> {
        let head = self.sq_head();
        if head == self.sq_tail() {
            return None;
        }
        let mask = self.sq_entries - 1;
        let idx = self.sq.u32_at(SQ_ARRAY_OFF + (head & mask) * 4).load(Ordering::Acquire) & mask;
        let mut sqe = [0u8; 64];
        unsafe { std::ptr::copy_nonoverlapping(self.sqes.ptr.add(idx as usize * 64), sqe.as_mut_ptr(), 64) };
        self.sq.u32_at(0).store(head.wrapping_add(1), Ordering::Release);
        Some(sqe)
    }

    /// Post a CQE, or park it on the overflow list when the CQ is full (NODROP semantics).
    pub fn post(&mut self, cqe: Cqe) {
        crate::with_stats(|s| s.cqes += 1);
        if !self.overflow.is_empty() || self.cq_space() == 0 {
            crate::with_stats(|s| s.overflowed += 1);
            crate::probe("cq-overflow");
            self.overflow.push_back(cqe);
            let f = self.sq.u32_at(16);
            f.store(f.load(Ordering::Relaxed) | IORING_SQ_CQ_OVERFLOW, Ordering::Release);
            return;
        }
        self.write_cqe(cqe);
    }

    fn write_cqe(&mut self, cqe: Cqe) {
        let tail = self.cq_tail();
        let mask = self.cq_entries - 1;
        let p = unsafe { self.cq.ptr.add(CQ_CQES_OFF as usize + (tail & mask) as usize * 16) };
        unsafe {
            (p as *mut u64).write_unaligned(cqe.user_data);
            (p.add(8) as *mut i32).write_unaligned(cqe.res);
            (p.add(12) as *mut u32).write_unaligned(cqe.flags);
        }
        self.cq.u32_at(4).store(tail.wrapping_add(1), Ordering::Release);
        if let Some(efd) = self.eventfd {
            let one: u64 = 1;
            unsafe { libc::write(efd, &one as *const u64 as *const libc::c_void, 8) };
        }
    }

    /// Move overflowed CQEs into the ring as far as there is room.
    pub fn flush_overflow(&mut self) {
        while self.cq_space() > 0 {
            match self.overflow.pop_front() {
                Some(c) => self.write_cqe(c),
                None => break,
            }
        }
        if self.overflow.is_empty() {
            let f = self.sq.u32_at(16);
            f.store(f.load(Ordering::Relaxed) & !IORING_SQ_CQ_OVERFLOW, Ordering::Release);
        }
    }

    /// Keep the ring fd readable exactly while completions are waiting (external event loops poll it).
    pub fn update_signal(&mut self) {
        let want = self.cq_ready() > 0;
        if want && !self.signalled {
            let one: u64 = 1;
            unsafe { libc::write(self.fd, &one as *const u64 as *const libc::c_void, 8) };
            self.signalled = true;
        } else if !want && self.signalled {
            let mut v: u64 = 0;
            unsafe { libc::read(self.fd, &mut v as *mut u64 as *mut libc::c_void, 8) };
            self.signalled = false;
        }
    }
}
