//! Engine M — a run with several real OS threads, exactly one of which runs at any time.
//!
//! compio's dispatcher starts worker threads with `std::thread`, each with a runtime and a driver of its
//! own; tasks, wakers and channels cross between them. To decide how these threads interleave, every
//! thread of a run is registered here (thread creation is intercepted at `pthread_create`) and runs only
//! while it holds the *baton*. The baton changes hands at the points where threads can interact or block:
//!
//! * the scheduling points compio's guarded hooks and the vendored channel report (`simhook::point`,
//!   spin-wait yields): a run draws a small number of *preemption points* (by their running index) at which
//!   the running thread is made to stop in favour of another one — few preemptions at generated places,
//!   in the spirit of PCT;
//! * a wait in the simulated kernel with nothing to complete (the thread's runtime is idle);
//! * a futex wait (`std`'s mutexes, condition variables, `thread::park`, channels: intercepted at
//!   `syscall(SYS_futex)`): the thread becomes runnable again when the futex word has changed;
//! * `pthread_join`, the end of a thread.
//!
//! Each thread has its own simulated kernel (rings are per thread; descriptors, eventfds and sockets are
//! the process's real ones, so a cross-thread notification written to an eventfd is seen by the other
//! thread's kernel when it polls). Time is one clock: a thread publishes its kernel's clock when it gives
//! the baton away and adopts the global one when it gets it back; when no thread can run, the clock jumps
//! to the earliest deadline any of them waits for; when there is none, the run is deadlocked.
//!
//! Which thread runs next is drawn from the run's decider (choice 0: the lowest-numbered thread after the
//! current one), so one seed is one interleaving and the choice list replays it.

use std::{
    cell::{Cell, UnsafeCell},
    sync::atomic::{AtomicBool, AtomicU32, AtomicUsize, Ordering},
};

use crate::KConfig;

const NONE: u32 = u32::MAX;
const ALL: u32 = u32::MAX - 1;
/// Baton hand-overs plus scheduling decisions per run before the run counts as livelocked.
const STEP_LIMIT: u64 = 3_000_000;

#[derive(Clone, Copy, Debug, PartialEq)]
enum St {
    Runnable,
    KernelWait { deadline: Option<u64>, seen: u64 },
    Parked { deadline: Option<u64> },
    Futex { addr: usize, expected: u32, deadline: Option<u64> },
    Joining(u32),
    Finished,
}

struct Th {
    st: St,
    pthread: libc::pthread_t,
    token: bool,
    open_rings: usize,
}

struct Sched {
    threads: Vec<Th>,
    /// bumped whenever a thread that did something gives the baton away: a thread waiting in its kernel
    /// looks again at its descriptors when it has changed
    progress: u64,
    clock_ns: u64,
    cfg: Option<KConfig>,
    /// running index of scheduling points, and the indexes at which the running thread is preempted
    points: u64,
    preempt_at: Vec<u64>,
    steps: u64,
    switches: u64,
    clock_jumps: u64,
}

struct Global(UnsafeCell<Option<Sched>>);
// only the baton holder touches it
unsafe impl Sync for Global {}
static G: Global = Global(UnsafeCell::new(None));
static ON: AtomicBool = AtomicBool::new(false);
static CURRENT: AtomicU32 = AtomicU32::new(NONE);

thread_local! {
    static ME: Cell<u32> = const { Cell::new(NONE) };
}

fn me() -> Option<u32> {
    if !ON.load(Ordering::Relaxed) {
        return None;
    }
    match ME.try_with(|m| m.get()) {
        Ok(NONE) | Err(_) => None,
        Ok(id) => Some(id),
    }
}

/// The calling thread is a thread of a multi-threaded run.
pub fn active() -> bool {
    me().is_some()
}

/// How often a thread that did something has given the baton away (`None` outside a multi-threaded run).
pub fn progress() -> Option<u64> {
    me().map(|_| sched().progress)
}

pub fn thread_index() -> Option<u64> {
    me().map(|m| m as u64)
}

#[allow(clippy::mut_from_ref)]
fn sched() -> &'static mut Sched {
    unsafe { (*G.0.get()).as_mut().expect("simkernel::multi: no multi-threaded run") }
}

pub struct MultiEnd {
    pub threads: usize,
    pub open_rings: usize,
    pub switches: u64,
    pub clock_jumps: u64,
}

/// The calling thread (which has an active simulated kernel) becomes thread 0 of a multi-threaded run.
pub fn begin() {
    assert!(!ON.load(Ordering::SeqCst), "simkernel::multi: a multi-threaded run is already in progress");
    let (clock_ns, cfg) = crate::with_kernel(|k| (k.clock_ns, k.cfg.clone()));
    // few preemptions at generated places; the horizon varies so that early and late points are both reached
    let horizon = [30u64, 300, 3000, 30000][crate::choose("m.preempt.horizon", 4)];
    let n = crate::choose("m.preempt.count", 5);
    let mut preempt_at: Vec<u64> = (0..n).map(|_| simcore::range("m.preempt.at", 0, horizon)).collect();
    preempt_at.sort();
    crate::klog(|| format!("sched: preemptions at scheduling points {preempt_at:?}"));
    unsafe {
        *G.0.get() = Some(Sched {
            threads: vec![Th { st: St::Runnable, pthread: libc::pthread_self(), token: false, open_rings: 0 }],
            progress: 0,
            clock_ns,
            cfg: Some(cfg),
            points: 0,
            preempt_at,
            steps: 0,
            switches: 0,
            clock_jumps: 0,
        });
    }
    ME.with(|m| m.set(0));
    CURRENT.store(0, Ordering::SeqCst);
    simcore::share_begin();
    ON.store(true, Ordering::SeqCst);
}

/// Every other thread runs to its end, then the run is single-threaded again.
pub fn end() -> MultiEnd {
    assert_eq!(me(), Some(0), "simkernel::multi::end on a thread that did not begin the run");
    while sched().threads.iter().skip(1).any(|t| t.st != St::Finished) {
        reschedule(St::Joining(ALL), true, false);
    }
    ON.store(false, Ordering::SeqCst);
    CURRENT.store(NONE, Ordering::SeqCst);
    ME.with(|m| m.set(NONE));
    simcore::share_end();
    let s = unsafe { (*G.0.get()).take().unwrap() };
    MultiEnd { threads: s.threads.len(), open_rings: s.threads.iter().map(|t| t.open_rings).sum(), switches: s.switches, clock_jumps: s.clock_jumps }
}

// ------------------------------------------------------------------ the baton

fn real_futex(word: &AtomicU32, op: i32, val: u32) {
    unsafe { crate::interpose::real_syscall(libc::SYS_futex, word as *const AtomicU32 as libc::c_long, op as libc::c_long, val as libc::c_long, 0, 0, 0) };
}

fn handover(next: u32) {
    CURRENT.store(next, Ordering::SeqCst);
    real_futex(&CURRENT, libc::FUTEX_WAKE, i32::MAX as u32);
}

fn wait_for_baton(id: u32) {
    loop {
        let c = CURRENT.load(Ordering::SeqCst);
        if c == id {
            return;
        }
        real_futex(&CURRENT, libc::FUTEX_WAIT, c);
    }
}

fn kernel_clock() -> Option<u64> {
    crate::KERNEL.try_with(|k| k.try_borrow().ok().filter(|k| k.active).map(|k| k.clock_ns)).ok().flatten()
}

fn adopt_clock(t: u64) {
    let _ = crate::KERNEL.try_with(|k| {
        if let Ok(mut k) = k.try_borrow_mut() {
            if k.active && k.clock_ns < t {
                k.clock_ns = t;
            }
        }
    });
}

fn eligible(s: &Sched, i: usize) -> bool {
    let t = &s.threads[i];
    let due = |d: Option<u64>| d.map(|d| d <= s.clock_ns).unwrap_or(false);
    match t.st {
        St::Runnable => true,
        St::KernelWait { deadline, seen } => seen != s.progress || due(deadline),
        St::Parked { deadline } => t.token || due(deadline),
        St::Futex { addr, expected, deadline } => (unsafe { (*(addr as *const AtomicU32)).load(Ordering::SeqCst) }) != expected || due(deadline),
        St::Joining(ALL) => s.threads.iter().enumerate().all(|(j, o)| j == i || o.st == St::Finished),
        St::Joining(j) => s.threads[j as usize].st == St::Finished,
        St::Finished => false,
    }
}

fn deadline_of(st: St) -> Option<u64> {
    match st {
        St::KernelWait { deadline, .. } | St::Parked { deadline } | St::Futex { deadline, .. } => deadline,
        _ => None,
    }
}

fn describe(s: &Sched) -> String {
    s.threads
        .iter()
        .enumerate()
        .map(|(i, t)| {
            let what = match t.st {
                St::Runnable => "runnable".to_string(),
                St::KernelWait { deadline, .. } => format!("waits in its kernel for a completion{}", if deadline.is_some() { " (with a time-out)" } else { "" }),
                St::Parked { .. } => "parked".to_string(),
                St::Futex { .. } => "waits for a lock, a condition variable or an unpark".to_string(),
                St::Joining(ALL) => "waits for all other threads to end".to_string(),
                St::Joining(j) => format!("joins thread {j}"),
                St::Finished => "finished".to_string(),
            };
            format!("thread {i} {what}")
        })
        .collect::<Vec<_>>()
        .join("; ")
}

/// The run cannot go on (every thread waits for another one, or the threads hand the baton around
/// without end). The threads are real and blocked in each other's wake: the process ends here; the worker's
/// driver turns this into a violation whose replay regenerates the run from its seed.
fn die(kind: &str, s: &Sched) -> ! {
    eprintln!("MULTI-THREAD {kind}: {}", describe(s));
    unsafe { libc::_exit(6) }
}

/// Give the baton to whoever runs next (possibly the caller again) with the caller in state `new`.
/// `worked`: the caller did something since it got the baton (it did not merely look and wait again).
/// `other_first`: the caller would rather not be picked (it spins, or it is being preempted).
fn reschedule(new: St, worked: bool, other_first: bool) {
    let Some(me) = me() else { return };
    let s = sched();
    s.steps += 1;
    if s.steps > STEP_LIMIT {
        die("LIVELOCK (more than 3000000 scheduling steps in one run)", s);
    }
    if let Some(c) = kernel_clock() {
        s.clock_ns = s.clock_ns.max(c);
    }
    if worked {
        s.progress += 1;
    }
    let new = match new {
        St::KernelWait { deadline, .. } => St::KernelWait { deadline, seen: s.progress },
        x => x,
    };
    s.threads[me as usize].st = new;
    let n = s.threads.len();
    let next = loop {
        // candidates in ring order after the caller; the caller itself first unless it steps back
        let mut cand: Vec<u32> = (1..n).map(|d| ((me as usize + d) % n) as u32).filter(|&i| eligible(s, i as usize)).collect();
        if eligible(s, me as usize) {
            if other_first { cand.push(me) } else { cand.insert(0, me) }
        }
        if !cand.is_empty() {
            let k = if cand.len() > 1 { crate::choose("m.next", cand.len()) } else { 0 };
            break cand[k];
        }
        // nobody can run at this instant: time passes to the earliest deadline somebody waits for
        match s.threads.iter().filter_map(|t| deadline_of(t.st)).min() {
            Some(t) => {
                s.clock_ns = s.clock_ns.max(t);
                s.clock_jumps += 1;
            }
            None => die("DEADLOCK (every thread of the run waits, nothing is scheduled)", s),
        }
    };
    if next != me {
        s.switches += 1;
        crate::klog(|| format!("sched: thread {me} ({}) -> thread {next}", match new {
            St::Runnable => "preempted",
            St::KernelWait { .. } => "idle in its kernel",
            St::Parked { .. } => "parked",
            St::Futex { .. } => "blocked",
            St::Joining(_) => "joining",
            St::Finished => "finished",
        }));
        simcore::try_with(|d| {
            d.sig(0x5c00 + ((me as u64) << 4) + next as u64);
            // (evidence: simulator steps of an Engine M run are its baton hand-overs)
            d.step();
        });
        if new == St::Finished {
            simcore::adopt(false);
            ME.with(|m| m.set(NONE));
            handover(next);
            return;
        }
        handover(next);
        wait_for_baton(me);
    }
    let s = sched();
    s.threads[me as usize].st = St::Runnable;
    adopt_clock(s.clock_ns);
}

// ------------------------------------------------------------------ scheduling points

/// A point where threads may interleave (hooks in compio's executor, driver and the vendored channel; every
/// entry into the simulated kernel).
pub fn point() {
    if !active() {
        return;
    }
    let s = sched();
    s.points += 1;
    if s.preempt_at.first().map(|&p| p < s.points).unwrap_or(false) {
        s.preempt_at.remove(0);
        let me = me().unwrap() as usize;
        if (0..s.threads.len()).any(|i| i != me && eligible(s, i)) {
            crate::fault("thread-preempted");
            reschedule(St::Runnable, true, true);
        }
    }
}

/// The caller spins until another thread has done something.
pub fn yield_now() {
    reschedule(St::Runnable, true, true);
}

/// The caller's runtime is idle: nothing in its kernel can complete before `deadline`. Returns when the
/// thread was chosen to look again (something happened elsewhere, or time has passed).
pub fn wait_in_kernel(deadline: Option<u64>, looked_only: bool) {
    reschedule(St::KernelWait { deadline, seen: 0 }, !looked_only, false);
}

pub fn park(timeout: Option<std::time::Duration>) {
    let Some(me) = me() else { return };
    let s = sched();
    if std::mem::take(&mut s.threads[me as usize].token) {
        return;
    }
    let now = kernel_clock().unwrap_or(s.clock_ns).max(s.clock_ns);
    reschedule(St::Parked { deadline: timeout.map(|d| now + d.as_nanos() as u64 + 1) }, true, false);
    sched().threads[me as usize].token = false;
}

pub fn unpark(id: u64) {
    if !active() {
        return;
    }
    if let Some(t) = sched().threads.get_mut(id as usize) {
        t.token = true;
    }
}

/// `futex(FUTEX_WAIT)` of a thread of the run: wait until the word differs from `expected` or the deadline
/// (simulated clock) has passed. Returns 0, or a negative errno.
pub(crate) fn futex_wait(addr: usize, expected: u32, deadline: Option<u64>) -> i32 {
    let word = unsafe { &*(addr as *const AtomicU32) };
    if word.load(Ordering::SeqCst) != expected {
        return -libc::EAGAIN;
    }
    reschedule(St::Futex { addr, expected, deadline }, true, false);
    if word.load(Ordering::SeqCst) != expected {
        return 0;
    }
    match deadline {
        Some(d) if sched().clock_ns >= d => -libc::ETIMEDOUT,
        _ => 0,
    }
}

pub(crate) fn now_ns() -> u64 {
    let s = sched();
    kernel_clock().unwrap_or(s.clock_ns).max(s.clock_ns)
}

// ------------------------------------------------------------------ threads

/// Called by the creating thread (which holds the baton): a new thread of the run.
pub(crate) fn register_thread() -> u32 {
    let s = sched();
    s.threads.push(Th { st: St::Runnable, pthread: 0, token: false, open_rings: 0 });
    s.progress += 1;
    let id = (s.threads.len() - 1) as u32;
    crate::klog(|| format!("sched: thread {id} is created by thread {}", me().unwrap_or(NONE)));
    id
}

pub(crate) fn set_pthread(id: u32, t: libc::pthread_t) {
    sched().threads[id as usize].pthread = t;
}

/// First thing a new thread does: wait for its first turn, then set up its own simulated kernel.
pub(crate) fn thread_begin(id: u32) {
    ME.with(|m| m.set(id));
    wait_for_baton(id);
    let s = sched();
    s.threads[id as usize].pthread = unsafe { libc::pthread_self() };
    simcore::adopt(true);
    let cfg = s.cfg.clone().expect("kernel configuration of the run");
    crate::begin(cfg);
    adopt_clock(s.clock_ns);
}

/// Last thing a thread of the run does.
pub(crate) fn thread_end() {
    let Some(me) = me() else { return };
    let st = crate::end();
    sched().threads[me as usize].open_rings = st.open_rings;
    reschedule(St::Finished, true, true);
}

/// `pthread_join` by a thread of the run: wait (giving the baton away) until the target has finished.
pub(crate) fn join_wait(target: libc::pthread_t) {
    if !active() {
        return;
    }
    let Some(j) = sched().threads.iter().position(|t| t.pthread == target && t.pthread != 0) else { return };
    while sched().threads[j].st != St::Finished {
        reschedule(St::Joining(j as u32), true, false);
    }
}

static THREADS_STARTED: AtomicUsize = AtomicUsize::new(0);

/// Threads ever started under the scheduler in this process (evidence).
pub fn threads_started() -> usize {
    THREADS_STARTED.load(Ordering::Relaxed)
}

pub(crate) fn count_thread() {
    THREADS_STARTED.fetch_add(1, Ordering::Relaxed);
}
