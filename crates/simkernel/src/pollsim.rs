//! The polling driver's side of Engine K. The vendored `polling` crate asks its real epoll instance
//! with a zero timeout and comes here for everything else: running the virtual pool's jobs and the
//! environment's due actions, choosing the order of reported events, and passing time when nothing
//! is ready (jump to the caller's deadline or the next environment action; with neither, the thread
//! would block forever, which is reported).

use std::time::Duration;

use crate::{KERNEL, choose, fault, klog, probe, pump_once, run_due_env, sig, with_kernel, with_stats};

/// Whether waits on this thread are simulated.
pub fn active() -> bool {
    KERNEL.with(|k| k.try_borrow().map(|k| k.active).unwrap_or(false))
}

thread_local! {
    /// (Engine M) nothing has happened on this thread since it last waited for its turn inside this wait
    static LOOKED_ONLY: std::cell::Cell<bool> = const { std::cell::Cell::new(false) };
}

/// A `Poller::wait` begins: the thread has been running its own code.
pub fn begin_wait() {
    LOOKED_ONLY.with(|l| l.set(false));
    crate::multi::point();
}

/// Before every look at the real epoll instance: pool jobs and due environment actions.
pub fn pump() {
    crate::check_memory_ledger();
    with_stats(|s| s.enters += 1);
    let tick = with_kernel(|k| {
        k.clock_ns += k.cfg.tick_ns;
        k.cfg.tick_ns
    });
    let _ = tick;
    while pump_once() {}
    run_due_env();
}

/// Choice among `n` remaining ready events (0 keeps the kernel's order).
pub fn pick(n: usize) -> usize {
    let reorder = with_kernel(|k| k.cfg.reorder);
    if n > 1 && crate::flip("poll.reorder", reorder) {
        fault("poll-events-reordered");
        choose("poll.pick", n)
    } else {
        0
    }
}

pub fn delivered(user_events: usize, raw: usize) {
    with_stats(|s| s.cqes += user_events as u64);
    sig(0x9011 ^ ((user_events as u64) << 8) ^ raw as u64);
    if user_events > 1 {
        probe("poll-burst");
    }
    LOOKED_ONLY.with(|l| l.set(false));
    klog(|| format!("kernel: epoll reports {user_events} event(s){}", if raw > user_events { " and the notifier" } else { "" }));
}

/// Nothing is ready. `left` is what remains of the caller's timeout. Returns whether to look again
/// (time passed or the environment acted); `false` means the wait timed out.
pub fn idle(left: Option<Duration>) -> bool {
    if left == Some(Duration::ZERO) {
        return false;
    }
    // pool jobs queued meanwhile run first
    if with_kernel(|k| !k.jobs.is_empty() && !k.in_callback) {
        return true;
    }
    let (now, next_env) = with_kernel(|k| (k.clock_ns, k.env.iter().map(|e| e.due_ns).min()));
    let deadline = left.map(|d| now.saturating_add(d.as_nanos() as u64));
    if crate::multi::active() {
        // other threads of the run go on; this one looks again when something has happened elsewhere or when
        // time has reached what it waits for (its deadline, which the caller then sees as a time-out)
        let target = match (deadline, next_env) {
            (Some(d), Some(e)) => Some(d.min(e)),
            (d, e) => d.or(e),
        };
        crate::multi::wait_in_kernel(target, LOOKED_ONLY.with(|l| l.replace(true)));
        run_due_env();
        return true;
    }
    let target = match (deadline, next_env) {
        (Some(d), Some(e)) => d.min(e),
        (Some(d), None) => d,
        (None, Some(e)) => e,
        (None, None) => {
            crate::blocked_forever("epoll_wait (no timeout)");
            return false;
        }
    };
    if target > now {
        with_stats(|s| s.clock_jumps += 1);
        with_kernel(|k| k.clock_ns = target);
    }
    run_due_env();
    // the deadline itself: one more look, then the caller sees the time-out
    true
}

/// An event loop outside compio parks on a descriptor of the driver (the polling driver's epoll instance)
/// until it is readable: in a multi-threaded run the thread gives the baton away and looks again whenever
/// another thread has done something or the time-out has passed. Returns whether the descriptor became readable.
pub fn park_on_fd(fd: i32, timeout: Duration) -> bool {
    let deadline = with_kernel(|k| k.clock_ns).saturating_add(timeout.as_nanos() as u64);
    let mut looked_only = false;
    loop {
        if crate::ops::poll_ready(fd, libc::POLLIN) != 0 {
            return true;
        }
        if !crate::multi::active() || with_kernel(|k| k.clock_ns) >= deadline {
            return false;
        }
        crate::multi::wait_in_kernel(Some(deadline), looked_only);
        looked_only = true;
    }
}
