//! Engine S — stream/transport simulator (DESIGN §3).
//!
//! * `exec`: a single-threaded poll loop owned by the simulator; which ready
//!   task is polled next is a decision; "everything pending, nothing woken,
//!   environment has nothing to do" is a deadlock.
//! * `stream`: in-memory sources, sinks, positional files and duplex channels
//!   whose every call consults the decider: short transfer, `Pending`,
//!   `Interrupted`, hard error, EOF position, hold-until-flush.

pub mod exec;
pub mod stream;

pub use exec::*;
pub use stream::*;
