use std::{
    cell::RefCell,
    collections::VecDeque,
    future::poll_fn,
    io,
    mem::MaybeUninit,
    rc::Rc,
    task::{Context, Poll, Waker},
};

use compio_buf::{BufResult, IoBuf, IoBufMut, IoVectoredBuf, IoVectoredBufMut, SetLenExt};
use compio_io::{AsyncRead, AsyncReadAt, AsyncWrite, AsyncWriteAt};

/// Per-endpoint fault rates (x/64 per call) — drawn once per run (swarm).
#[derive(Clone, Copy, Debug, Default)]
pub struct Faults {
    pub pending: u32,
    pub interrupted: u32,
    pub short: u32,
    /// at most one hard (non-retryable) error may be injected
    pub hard: u32,
    /// a write may be answered with Ok(0) once
    pub zero_write: u32,
    /// vectored calls move data across several buffers (else: first non-empty only)
    pub scatter: bool,
}

impl Faults {
    pub fn none() -> Self {
        Faults {
            scatter: true,
            ..Default::default()
        }
    }

    /// Swarm draw: each kind enabled with probability 1/2, at a rate from a small set.
    pub fn draw(allow_hard: bool) -> Self {
        let rate = |kind: &'static str| -> u32 {
            match simcore::weighted(kind, &[4, 1, 2, 1]) {
                0 => 0,
                1 => 2,
                2 => 12,
                _ => 40,
            }
        };
        Faults {
            pending: rate("cfg.pending"),
            interrupted: rate("cfg.interrupted"),
            short: rate("cfg.short"),
            hard: if allow_hard && simcore::flip("cfg.hard", 1, 4) { 3 } else { 0 },
            zero_write: if allow_hard && simcore::flip("cfg.zero_write", 1, 8) { 2 } else { 0 },
            scatter: simcore::flip("cfg.scatter", 1, 2),
        }
    }

    pub fn retryable_only(mut self) -> Self {
        self.hard = 0;
        self.zero_write = 0;
        self
    }
}

pub const HARD_KIND: io::ErrorKind = io::ErrorKind::ConnectionReset;

#[derive(Default)]
pub struct ChanState {
    pub q: VecDeque<u8>,
    /// accepted by `write`, released to `q` only by `flush`/`shutdown`
    pub held: Vec<u8>,
    pub hold_until_flush: bool,
    pub closed: bool,
    pub cap: usize,
    pub rf: Faults,
    pub wf: Faults,
    pub rd_wakers: Vec<Waker>,
    pub wr_wakers: Vec<Waker>,
    /// everything `write` ever accepted / everything `read` ever handed out
    pub written: Vec<u8>,
    pub read: Vec<u8>,
    pub hard_read_fired: bool,
    pub hard_write_fired: bool,
    pub zero_write_fired: bool,
    pub flush_intr_fired: bool,
    pub flushes: u64,
    pub shutdowns: u64,
    pub read_calls: u64,
    pub write_calls: u64,
    /// reads remaining during which the reader sees "no data yet" although q is non-empty
    pub stall_reads: u32,
    pub consecutive_pending: u32,
    /// once set, no further faults are injected (the "faults stop" point)
    pub quiet: bool,
    /// the most recent write/flush call returned Pending and no write/flush call has been made since
    pub write_blocked: bool,
}

#[derive(Clone)]
pub struct Chan(pub Rc<RefCell<ChanState>>);

enum RdDecision {
    Pending,
    Park,
    Err(io::ErrorKind),
    Data(usize),
}

impl Chan {
    pub fn new(cap: usize, rf: Faults, wf: Faults) -> Self {
        Chan(Rc::new(RefCell::new(ChanState {
            cap,
            rf,
            wf,
            ..Default::default()
        })))
    }

    /// A source holding `data` followed by EOF.
    pub fn source(data: &[u8], rf: Faults) -> Self {
        let c = Chan::new(usize::MAX, rf, Faults::none());
        {
            let mut s = c.0.borrow_mut();
            s.q.extend(data.iter().copied());
            s.closed = true;
        }
        c
    }

    pub fn sink(wf: Faults) -> Self {
        Chan::new(usize::MAX, Faults::none(), wf)
    }

    pub fn consumed(&self) -> usize {
        self.0.borrow().read.len()
    }

    pub fn delivered(&self) -> Vec<u8> {
        let s = self.0.borrow();
        s.q.iter().copied().collect()
    }

    pub fn set_quiet(&self) {
        self.0.borrow_mut().quiet = true;
    }

    pub fn set_quiet_to(&self, q: bool) {
        self.0.borrow_mut().quiet = q;
    }

    pub fn wake_all(&self) -> bool {
        let mut s = self.0.borrow_mut();
        let n = s.rd_wakers.len() + s.wr_wakers.len();
        for w in s.rd_wakers.drain(..) {
            w.wake();
        }
        for w in s.wr_wakers.drain(..) {
            w.wake();
        }
        n > 0
    }

    fn decide_read(&self, cx: &mut Context<'_>, cap: usize) -> RdDecision {
        let mut s = self.0.borrow_mut();
        s.read_calls += 1;
        if cap == 0 {
            return RdDecision::Data(0);
        }
        let f = if s.quiet { Faults::none() } else { s.rf };
        if f.pending > 0 && s.consecutive_pending < 3 && simcore::flip("rd.pending", f.pending, 64) {
            s.consecutive_pending += 1;
            simcore::fault("read-pending");
            simcore::sig(0x11);
            cx.waker().wake_by_ref();
            return RdDecision::Pending;
        }
        s.consecutive_pending = 0;
        if f.interrupted > 0 && simcore::flip("rd.intr", f.interrupted, 64) {
            simcore::fault("read-interrupted");
            simcore::sig(0x12);
            return RdDecision::Err(io::ErrorKind::Interrupted);
        }
        if f.hard > 0 && !s.hard_read_fired && simcore::flip("rd.hard", f.hard, 64) {
            s.hard_read_fired = true;
            simcore::fault("read-hard-error");
            simcore::sig(0x13);
            return RdDecision::Err(HARD_KIND);
        }
        if s.q.is_empty() {
            if s.closed {
                simcore::sig(0x14);
                return RdDecision::Data(0);
            }
            // like a real I/O future: only the most recently registered waker is kept
            s.rd_wakers.clear();
            s.rd_wakers.push(cx.waker().clone());
            simcore::sig(0x15);
            simcore::log(|| "  chan.read: empty -> park".to_string());
            return RdDecision::Park;
        }
        let mut k = s.q.len().min(cap);
        if k > 1 && f.short > 0 && simcore::flip("rd.short", f.short, 64) {
            k = 1 + simcore::range("rd.k", 0, (k - 2) as u64) as usize;
            simcore::fault("short-read");
        }
        simcore::sig(0x16 + ((k.min(255) as u64) << 8));
        simcore::log(|| format!("  chan.read: {k} bytes"));
        RdDecision::Data(k)
    }

    fn take(&self, k: usize) -> Vec<u8> {
        let mut s = self.0.borrow_mut();
        let v: Vec<u8> = s.q.drain(..k).collect();
        s.read.extend_from_slice(&v);
        // room for the writer
        for w in s.wr_wakers.drain(..) {
            w.wake();
        }
        v
    }

    pub fn poll_read_into(&self, cx: &mut Context<'_>, dst: &mut [MaybeUninit<u8>]) -> Poll<io::Result<usize>> {
        match self.decide_read(cx, dst.len()) {
            RdDecision::Pending | RdDecision::Park => Poll::Pending,
            RdDecision::Err(k) => Poll::Ready(Err(io::Error::new(k, "injected"))),
            RdDecision::Data(k) => {
                let v = self.take(k);
                for (d, b) in dst.iter_mut().zip(v.iter()) {
                    d.write(*b);
                }
                Poll::Ready(Ok(k))
            }
        }
    }

    /// Returns Ok(n accepted).
    pub fn poll_write_from(&self, cx: &mut Context<'_>, src: &[&[u8]]) -> Poll<io::Result<usize>> {
        let mut s = self.0.borrow_mut();
        s.write_calls += 1;
        s.write_blocked = false;
        let total: usize = src.iter().map(|b| b.len()).sum();
        if total == 0 {
            return Poll::Ready(Ok(0));
        }
        let f = if s.quiet { Faults::none() } else { s.wf };
        if s.closed {
            return Poll::Ready(Err(io::Error::new(io::ErrorKind::BrokenPipe, "write after shutdown")));
        }
        if f.pending > 0 && s.consecutive_pending < 3 && simcore::flip("wr.pending", f.pending, 64) {
            s.consecutive_pending += 1;
            simcore::fault("write-pending");
            simcore::sig(0x21);
            cx.waker().wake_by_ref();
            s.write_blocked = true;
            return Poll::Pending;
        }
        s.consecutive_pending = 0;
        if f.interrupted > 0 && simcore::flip("wr.intr", f.interrupted, 64) {
            simcore::fault("write-interrupted");
            simcore::sig(0x22);
            return Poll::Ready(Err(io::Error::new(io::ErrorKind::Interrupted, "injected")));
        }
        if f.hard > 0 && !s.hard_write_fired && simcore::flip("wr.hard", f.hard, 64) {
            s.hard_write_fired = true;
            simcore::fault("write-hard-error");
            simcore::sig(0x23);
            return Poll::Ready(Err(io::Error::new(HARD_KIND, "injected")));
        }
        if f.zero_write > 0 && !s.zero_write_fired && simcore::flip("wr.zero", f.zero_write, 64) {
            s.zero_write_fired = true;
            simcore::fault("write-zero");
            simcore::sig(0x24);
            return Poll::Ready(Ok(0));
        }
        let mut used = s.q.len() + s.held.len();
        if s.cap.saturating_sub(used) == 0 && !s.held.is_empty() {
            // a buffering transport whose buffer is full pushes it out by itself
            let held = std::mem::take(&mut s.held);
            s.q.extend(held);
            for w in s.rd_wakers.drain(..) {
                w.wake();
            }
            used = s.q.len();
        }
        let room = s.cap.saturating_sub(used);
        if room == 0 {
            s.wr_wakers.clear();
            s.wr_wakers.push(cx.waker().clone());
            simcore::sig(0x25);
            simcore::log(|| "  chan.write: full -> park".to_string());
            s.write_blocked = true;
            return Poll::Pending;
        }
        let mut k = total.min(room);
        if k > 1 && f.short > 0 && simcore::flip("wr.short", f.short, 64) {
            k = 1 + simcore::range("wr.k", 0, (k - 2) as u64) as usize;
            simcore::fault("short-write");
        }
        let mut left = k;
        for b in src {
            let n = left.min(b.len());
            s.written.extend_from_slice(&b[..n]);
            if s.hold_until_flush {
                s.held.extend_from_slice(&b[..n]);
            } else {
                s.q.extend(b[..n].iter().copied());
            }
            left -= n;
            if left == 0 {
                break;
            }
        }
        if !s.hold_until_flush {
            for w in s.rd_wakers.drain(..) {
                w.wake();
            }
        }
        simcore::sig(0x26 + ((k.min(255) as u64) << 8));
        simcore::log(|| format!("  chan.write: {k} of {total} bytes"));
        Poll::Ready(Ok(k))
    }

    pub fn poll_flush_chan(&self, cx: &mut Context<'_>) -> Poll<io::Result<()>> {
        let mut s = self.0.borrow_mut();
        s.write_blocked = false;
        let f = if s.quiet { Faults::none() } else { s.wf };
        if f.pending > 0 && s.consecutive_pending < 3 && simcore::flip("fl.pending", f.pending, 64) {
            s.consecutive_pending += 1;
            simcore::fault("flush-pending");
            cx.waker().wake_by_ref();
            s.write_blocked = true;
            return Poll::Pending;
        }
        s.consecutive_pending = 0;
        if f.interrupted > 0 && simcore::flip("fl.intr", f.interrupted, 64) {
            simcore::fault("flush-interrupted");
            s.flush_intr_fired = true;
            return Poll::Ready(Err(io::Error::new(io::ErrorKind::Interrupted, "injected")));
        }
        if f.hard > 0 && !s.hard_write_fired && simcore::flip("fl.hard", f.hard, 64) {
            s.hard_write_fired = true;
            simcore::fault("flush-hard-error");
            return Poll::Ready(Err(io::Error::new(HARD_KIND, "injected")));
        }
        s.flushes += 1;
        let held = std::mem::take(&mut s.held);
        if !held.is_empty() {
            simcore::probe("flush-released-held-bytes");
        }
        s.q.extend(held);
        for w in s.rd_wakers.drain(..) {
            w.wake();
        }
        Poll::Ready(Ok(()))
    }

    pub fn close_write(&self) {
        let mut s = self.0.borrow_mut();
        s.shutdowns += 1;
        let held = std::mem::take(&mut s.held);
        s.q.extend(held);
        s.closed = true;
        for w in s.rd_wakers.drain(..) {
            w.wake();
        }
    }
}

// ------------------------------------------------------------------ endpoints

/// One end of a (possibly one-directional) transport: reads from `rx`, writes to `tx`.
#[derive(Clone)]
pub struct SimStream {
    pub rx: Chan,
    pub tx: Chan,
}

impl SimStream {
    pub fn reader(data: &[u8], f: Faults) -> Self {
        SimStream {
            rx: Chan::source(data, f),
            tx: Chan::sink(Faults::none()),
        }
    }

    pub fn writer(f: Faults) -> Self {
        SimStream {
            rx: Chan::source(&[], Faults::none()),
            tx: Chan::sink(f),
        }
    }

    /// Two connected ends.
    pub fn pair(cap_ab: usize, cap_ba: usize, fa: Faults, fb: Faults) -> (SimStream, SimStream) {
        let ab = Chan::new(cap_ab, fb, fa);
        let ba = Chan::new(cap_ba, fa, fb);
        (
            SimStream {
                rx: ba.clone(),
                tx: ab.clone(),
            },
            SimStream { rx: ab, tx: ba },
        )
    }
}

impl AsyncRead for SimStream {
    async fn read<B: IoBufMut>(&mut self, mut buf: B) -> BufResult<usize, B> {
        let res = poll_fn(|cx| self.rx.poll_read_into(cx, buf.as_uninit())).await;
        if let Ok(n) = res {
            unsafe { buf.advance_to(n) };
        }
        BufResult(res, buf)
    }

    async fn read_vectored<V: IoVectoredBufMut>(&mut self, mut buf: V) -> BufResult<usize, V> {
        let scatter = self.rx.0.borrow().rf.scatter;
        let caps: Vec<usize> = buf.iter_uninit_slice().map(|s| s.len()).collect();
        let total: usize = if scatter {
            caps.iter().sum()
        } else {
            caps.iter().copied().find(|c| *c > 0).unwrap_or(0)
        };
        let mut tmp: Vec<MaybeUninit<u8>> = vec![MaybeUninit::uninit(); total];
        let res = poll_fn(|cx| self.rx.poll_read_into(cx, &mut tmp)).await;
        if let Ok(n) = res {
            let mut off = 0;
            for s in buf.iter_uninit_slice() {
                if off >= n {
                    break;
                }
                let k = s.len().min(n - off);
                s[..k].copy_from_slice(&tmp[off..off + k]);
                off += k;
            }
            unsafe { buf.advance_vec_to(n) };
        }
        BufResult(res, buf)
    }
}

impl AsyncWrite for SimStream {
    async fn write<T: IoBuf>(&mut self, buf: T) -> BufResult<usize, T> {
        let res = poll_fn(|cx| self.tx.poll_write_from(cx, &[buf.as_init()])).await;
        BufResult(res, buf)
    }

    async fn write_vectored<T: IoVectoredBuf>(&mut self, buf: T) -> BufResult<usize, T> {
        let scatter = self.tx.0.borrow().wf.scatter;
        let res = {
            let slices: Vec<&[u8]> = if scatter {
                buf.iter_slice().collect()
            } else {
                buf.iter_slice().find(|s| !s.is_empty()).into_iter().collect()
            };
            poll_fn(|cx| self.tx.poll_write_from(cx, &slices)).await
        };
        BufResult(res, buf)
    }

    async fn flush(&mut self) -> io::Result<()> {
        poll_fn(|cx| self.tx.poll_flush_chan(cx)).await
    }

    async fn shutdown(&mut self) -> io::Result<()> {
        poll_fn(|cx| self.tx.poll_flush_chan(cx)).await?;
        self.tx.close_write();
        Ok(())
    }
}

// ------------------------------------------------------------------ positional file

pub struct FileState {
    pub data: Vec<u8>,
    pub f: Faults,
    pub hard_fired: bool,
    pub consecutive_pending: u32,
    /// (pos, len) of every successful read, in order
    pub reads: Vec<(u64, usize)>,
}

#[derive(Clone)]
pub struct SimFile(pub Rc<RefCell<FileState>>);

impl SimFile {
    pub fn new(data: Vec<u8>, f: Faults) -> Self {
        SimFile(Rc::new(RefCell::new(FileState {
            data,
            f,
            hard_fired: false,
            consecutive_pending: 0,
            reads: vec![],
        })))
    }

    fn pre(&self, cx: &mut Context<'_>, write: bool) -> Option<Poll<io::Error>> {
        let mut s = self.0.borrow_mut();
        let f = s.f;
        if f.pending > 0 && s.consecutive_pending < 3 && simcore::flip("at.pending", f.pending, 64) {
            s.consecutive_pending += 1;
            simcore::fault(if write { "write_at-pending" } else { "read_at-pending" });
            cx.waker().wake_by_ref();
            return Some(Poll::Pending);
        }
        s.consecutive_pending = 0;
        if f.interrupted > 0 && simcore::flip("at.intr", f.interrupted, 64) {
            simcore::fault(if write { "write_at-interrupted" } else { "read_at-interrupted" });
            return Some(Poll::Ready(io::Error::new(io::ErrorKind::Interrupted, "injected")));
        }
        if f.hard > 0 && !s.hard_fired && simcore::flip("at.hard", f.hard, 64) {
            s.hard_fired = true;
            simcore::fault(if write { "write_at-hard-error" } else { "read_at-hard-error" });
            return Some(Poll::Ready(io::Error::new(HARD_KIND, "injected")));
        }
        None
    }

    fn poll_read_at(&self, cx: &mut Context<'_>, dst: &mut [MaybeUninit<u8>], pos: u64) -> Poll<io::Result<usize>> {
        if dst.is_empty() {
            return Poll::Ready(Ok(0));
        }
        if let Some(p) = self.pre(cx, false) {
            return p.map(Err);
        }
        let mut s = self.0.borrow_mut();
        let len = s.data.len() as u64;
        if pos >= len {
            simcore::sig(0x31);
            return Poll::Ready(Ok(0));
        }
        let avail = (len - pos) as usize;
        let mut k = avail.min(dst.len());
        if k > 1 && s.f.short > 0 && simcore::flip("at.short", s.f.short, 64) {
            k = 1 + simcore::range("at.k", 0, (k - 2) as u64) as usize;
            simcore::fault("short-read_at");
        }
        let p = pos as usize;
        for (d, b) in dst.iter_mut().zip(s.data[p..p + k].iter()) {
            d.write(*b);
        }
        s.reads.push((pos, k));
        simcore::sig(0x32 + ((k.min(255) as u64) << 8));
        Poll::Ready(Ok(k))
    }

    fn poll_write_at(&self, cx: &mut Context<'_>, src: &[u8], pos: u64) -> Poll<io::Result<usize>> {
        if src.is_empty() {
            return Poll::Ready(Ok(0));
        }
        if let Some(p) = self.pre(cx, true) {
            return p.map(Err);
        }
        let mut s = self.0.borrow_mut();
        let mut k = src.len();
        if k > 1 && s.f.short > 0 && simcore::flip("at.wshort", s.f.short, 64) {
            k = 1 + simcore::range("at.wk", 0, (k - 2) as u64) as usize;
            simcore::fault("short-write_at");
        }
        let p = pos as usize;
        if s.data.len() < p + k {
            s.data.resize(p + k, 0);
        }
        s.data[p..p + k].copy_from_slice(&src[..k]);
        simcore::sig(0x33 + ((k.min(255) as u64) << 8));
        Poll::Ready(Ok(k))
    }
}

impl AsyncReadAt for SimFile {
    async fn read_at<T: IoBufMut>(&self, mut buf: T, pos: u64) -> BufResult<usize, T> {
        let res = poll_fn(|cx| self.poll_read_at(cx, buf.as_uninit(), pos)).await;
        if let Ok(n) = res {
            unsafe { buf.advance_to(n) };
        }
        BufResult(res, buf)
    }
}

impl AsyncWriteAt for SimFile {
    async fn write_at<T: IoBuf>(&mut self, buf: T, pos: u64) -> BufResult<usize, T> {
        let res = poll_fn(|cx| self.poll_write_at(cx, buf.as_init(), pos)).await;
        BufResult(res, buf)
    }
}

impl compio_io::util::Splittable for SimStream {
    type ReadHalf = SimStream;
    type WriteHalf = SimStream;

    fn split(self) -> (SimStream, SimStream) {
        (self.clone(), self)
    }
}

// ------------------------------------------------------------------ poll-style endpoint

/// The same channel pair as `SimStream`, exposed through the futures-io traits
/// directly (an unbuffered poll-style transport: `poll_write` itself may be
/// short or `Pending`).
#[derive(Clone)]
pub struct FutStream {
    pub rx: Chan,
    pub tx: Chan,
}

impl From<SimStream> for FutStream {
    fn from(s: SimStream) -> Self {
        FutStream { rx: s.rx, tx: s.tx }
    }
}

impl futures_util::io::AsyncRead for FutStream {
    fn poll_read(self: std::pin::Pin<&mut Self>, cx: &mut Context<'_>, buf: &mut [u8]) -> Poll<io::Result<usize>> {
        // SAFETY: u8 -> MaybeUninit<u8> view of an initialised buffer; we only write initialised bytes
        let dst = unsafe { std::slice::from_raw_parts_mut(buf.as_mut_ptr() as *mut MaybeUninit<u8>, buf.len()) };
        self.rx.poll_read_into(cx, dst)
    }
}

impl futures_util::io::AsyncWrite for FutStream {
    fn poll_write(self: std::pin::Pin<&mut Self>, cx: &mut Context<'_>, buf: &[u8]) -> Poll<io::Result<usize>> {
        self.tx.poll_write_from(cx, &[buf])
    }

    fn poll_flush(self: std::pin::Pin<&mut Self>, cx: &mut Context<'_>) -> Poll<io::Result<()>> {
        self.tx.poll_flush_chan(cx)
    }

    fn poll_close(self: std::pin::Pin<&mut Self>, cx: &mut Context<'_>) -> Poll<io::Result<()>> {
        match self.tx.poll_flush_chan(cx) {
            Poll::Ready(Ok(())) => {
                self.tx.close_write();
                Poll::Ready(Ok(()))
            }
            other => other,
        }
    }
}
