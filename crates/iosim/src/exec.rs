use std::{
    future::Future,
    pin::Pin,
    sync::{
        Arc,
        atomic::{AtomicBool, AtomicU64, Ordering},
    },
    task::{Context, Poll, Wake, Waker},
};

use simcore::{RunResult, Violation};

pub struct TaskFlag {
    pub woken: AtomicBool,
    pub wakes: AtomicU64,
}

impl Wake for TaskFlag {
    fn wake(self: Arc<Self>) {
        self.wake_by_ref()
    }

    fn wake_by_ref(self: &Arc<Self>) {
        self.woken.store(true, Ordering::SeqCst);
        self.wakes.fetch_add(1, Ordering::SeqCst);
    }
}

pub type LocalFut<'a> = Pin<Box<dyn Future<Output = ()> + 'a>>;

/// A future that returns `Pending` once after waking itself.
pub struct YieldOnce(pub bool);

impl Future for YieldOnce {
    type Output = ();

    fn poll(mut self: Pin<&mut Self>, cx: &mut Context<'_>) -> Poll<()> {
        if self.0 {
            Poll::Ready(())
        } else {
            self.0 = true;
            cx.waker().wake_by_ref();
            Poll::Pending
        }
    }
}

pub fn yield_once() -> YieldOnce {
    YieldOnce(false)
}

/// Drive `tasks` to completion. `env` is called when no task is ready; it
/// returns `true` if it changed something (delivered data, lifted a stall) —
/// it is expected to wake whoever waits for that.
pub fn run_tasks(
    mut tasks: Vec<LocalFut<'_>>,
    env: &mut dyn FnMut() -> bool,
    step_bound: u64,
) -> RunResult {
    let flags: Vec<Arc<TaskFlag>> = tasks
        .iter()
        .map(|_| {
            Arc::new(TaskFlag {
                woken: AtomicBool::new(true),
                wakes: AtomicU64::new(0),
            })
        })
        .collect();
    let wakers: Vec<Waker> = flags.iter().map(|f| Waker::from(f.clone())).collect();
    let mut done = vec![false; tasks.len()];
    let mut steps = 0u64;
    loop {
        if done.iter().all(|d| *d) {
            return Ok(());
        }
        let ready: Vec<usize> = (0..tasks.len())
            .filter(|i| !done[*i] && flags[*i].woken.load(Ordering::SeqCst))
            .collect();
        if ready.is_empty() {
            if env() {
                simcore::step();
                continue;
            }
            let stuck: Vec<usize> = (0..tasks.len()).filter(|i| !done[*i]).collect();
            return Err(Violation::new(
                "deadlock",
                format!("tasks {stuck:?} are pending, none has been woken and the transport has nothing left to deliver"),
            ));
        }
        let pick = if ready.len() > 1 {
            simcore::mark_nontrivial();
            ready[simcore::choose("exec.task", ready.len())]
        } else {
            ready[0]
        };
        simcore::sig(0x7a5c + pick as u64);
        flags[pick].woken.store(false, Ordering::SeqCst);
        let mut cx = Context::from_waker(&wakers[pick]);
        steps += 1;
        simcore::step();
        if steps > step_bound {
            return Err(Violation::new(
                "step-bound",
                format!("no termination within {step_bound} polls (spin or livelock)"),
            ));
        }
        let r = tasks[pick].as_mut().poll(&mut cx).is_ready();
        simcore::log(|| format!("task {pick} polled -> {}", if r { "done" } else { "pending" }));
        if r {
            done[pick] = true;
        }
        simcore::pending()?;
    }
}

/// Single future, no environment.
pub fn block_on<T>(fut: impl Future<Output = T>, step_bound: u64) -> Result<T, Violation> {
    let mut out = None;
    {
        let out_ref = &mut out;
        let task: LocalFut<'_> = Box::pin(async move {
            *out_ref = Some(fut.await);
        });
        run_tasks(vec![task], &mut || false, step_bound)?;
    }
    Ok(out.expect("task finished without output"))
}
