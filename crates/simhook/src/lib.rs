//! simhook — dependency-free seam between compio's guarded hooks / the vendored
//! third-party crates and whichever simulator is running (DESIGN §5.1, §6).
//!
//! Outside a simulation every call is a no-op or plain `std` behaviour, so the
//! same binaries can run single-threaded Engine K scenarios.

use std::{
    cell::Cell,
    sync::atomic::{AtomicPtr, AtomicU64, Ordering},
};

pub struct Hooks {
    /// logical thread id inside a controlled execution, `None` outside
    pub thread_id: fn() -> Option<u64>,
    /// a scheduling point: the simulator may switch to another logical thread
    pub point: fn(u32),
    /// the caller spins waiting for another thread: somebody else must run
    pub yield_now: fn(),
}

static HOOKS: AtomicPtr<Hooks> = AtomicPtr::new(std::ptr::null_mut());

pub fn install(h: &'static Hooks) {
    HOOKS.store(h as *const Hooks as *mut Hooks, Ordering::Release);
}

#[inline]
fn hooks() -> Option<&'static Hooks> {
    let p = HOOKS.load(Ordering::Acquire);
    if p.is_null() { None } else { Some(unsafe { &*p }) }
}

static NEXT_OS_ID: AtomicU64 = AtomicU64::new(1);
thread_local! {
    static OS_ID: Cell<u64> = const { Cell::new(0) };
}

/// Identity of the calling (logical) thread. Simulated threads live in their own id space.
pub fn thread_id() -> u64 {
    if let Some(h) = hooks() {
        if let Some(id) = (h.thread_id)() {
            return (1 << 40) | id;
        }
    }
    OS_ID.with(|c| {
        if c.get() == 0 {
            c.set(NEXT_OS_ID.fetch_add(1, Ordering::Relaxed));
        }
        c.get()
    })
}

pub fn in_simulation() -> bool {
    hooks().map(|h| (h.thread_id)().is_some()).unwrap_or(false)
}

#[inline]
pub fn point(site: u32) {
    if let Some(h) = hooks() {
        (h.point)(site)
    }
}

#[inline]
pub fn yield_now() {
    match hooks() {
        Some(h) if (h.thread_id)().is_some() => (h.yield_now)(),
        _ => std::thread::yield_now(),
    }
}

// The symbols compio's guarded hooks link against (feature `verif` of the hooked crates).
#[unsafe(no_mangle)]
pub extern "Rust" fn __compio_verif_point(site: u32) {
    point(site)
}

#[unsafe(no_mangle)]
pub extern "Rust" fn __compio_verif_yield() {
    yield_now()
}
