//! simhook — dependency-free seam between compio's guarded hooks / the vendored
//! third-party crates and whichever simulator is running (DESIGN §5.1, §6).
//!
//! Outside a simulation every call is a no-op or plain `std` behaviour, so the
//! same binaries can run single-threaded Engine K scenarios and real threads.

use std::{
    cell::Cell,
    sync::atomic::{AtomicPtr, AtomicU64, Ordering},
    time::Duration,
};

pub struct Hooks {
    /// logical thread id inside a controlled execution, `None` outside
    pub thread_id: fn() -> Option<u64>,
    /// a scheduling point: the simulator may switch to another logical thread
    pub point: fn(u32),
    /// the caller spins waiting for another thread: somebody else must run
    pub yield_now: fn(),
    /// block the calling logical thread until unparked (token semantics) or, if a timeout is given,
    /// until the simulated clock passed it
    pub park: fn(Option<Duration>),
    pub unpark: fn(u64),
    /// start a logical thread
    pub spawn: fn(Box<dyn FnOnce() + Send + 'static>),
    /// simulated monotonic clock
    pub now: fn() -> Duration,
    /// a decision the code under test leaves to the simulator (iteration order of a set...): one of `n`, 0 = the plain order
    pub choose: fn(u32, usize) -> usize,
    /// io_uring opcode support as the simulated kernel of this run reports it (`None`: ask the real probe)
    pub op_supported: fn(u8) -> Option<bool>,
}

static HOOKS: AtomicPtr<Hooks> = AtomicPtr::new(std::ptr::null_mut());

pub fn install(h: &'static Hooks) {
    HOOKS.store(h as *const Hooks as *mut Hooks, Ordering::Release);
}

#[inline]
fn hooks() -> Option<&'static Hooks> {
    let p = HOOKS.load(Ordering::Acquire);
    if p.is_null() { None } else { Some(unsafe { &*p }) }
}

#[inline]
fn sim() -> Option<(&'static Hooks, u64)> {
    let h = hooks()?;
    let id = (h.thread_id)()?;
    Some((h, id))
}

static NEXT_OS_ID: AtomicU64 = AtomicU64::new(1);
thread_local! {
    static OS_ID: Cell<u64> = const { Cell::new(0) };
}

/// Identity of the calling (logical) thread. Simulated threads live in their own id space.
pub fn thread_id() -> u64 {
    if let Some((_, id)) = sim() {
        return (1 << 40) | id;
    }
    OS_ID.with(|c| {
        if c.get() == 0 {
            c.set(NEXT_OS_ID.fetch_add(1, Ordering::Relaxed));
        }
        c.get()
    })
}

pub fn in_simulation() -> bool {
    sim().is_some()
}

#[inline]
pub fn point(site: u32) {
    if let Some(h) = hooks() {
        (h.point)(site)
    }
}

#[inline]
pub fn yield_now() {
    match sim() {
        Some((h, _)) => (h.yield_now)(),
        None => std::thread::yield_now(),
    }
}

/// A handle to a thread that can be unparked: an OS thread, or a logical thread of the simulation.
#[derive(Clone, Debug)]
pub enum ThreadHandle {
    Os(std::thread::Thread),
    Sim(u64),
}

impl ThreadHandle {
    pub fn current() -> Self {
        match sim() {
            Some((_, id)) => ThreadHandle::Sim(id),
            None => ThreadHandle::Os(std::thread::current()),
        }
    }

    pub fn unpark(&self) {
        match self {
            ThreadHandle::Os(t) => t.unpark(),
            ThreadHandle::Sim(id) => {
                if let Some(h) = hooks() {
                    (h.unpark)(*id)
                }
            }
        }
    }
}

pub fn park() {
    match sim() {
        Some((h, _)) => (h.park)(None),
        None => std::thread::park(),
    }
}

pub fn park_timeout(d: Duration) {
    match sim() {
        Some((h, _)) => (h.park)(Some(d)),
        None => std::thread::park_timeout(d),
    }
}

pub fn spawn(f: Box<dyn FnOnce() + Send + 'static>) {
    match sim() {
        Some((h, _)) => (h.spawn)(f),
        None => {
            std::thread::spawn(f);
        }
    }
}

/// A monotonic instant that follows the simulated clock inside a simulation.
#[derive(Clone, Copy, Debug, PartialEq, Eq, PartialOrd, Ord)]
pub enum Instant {
    Real(std::time::Instant),
    Sim(Duration),
}

impl Instant {
    pub fn now() -> Self {
        match sim() {
            Some((h, _)) => Instant::Sim((h.now)()),
            None => Instant::Real(std::time::Instant::now()),
        }
    }

    pub fn checked_add(&self, d: Duration) -> Option<Instant> {
        match self {
            Instant::Real(i) => i.checked_add(d).map(Instant::Real),
            Instant::Sim(t) => t.checked_add(d).map(Instant::Sim),
        }
    }

    pub fn checked_duration_since(&self, earlier: Instant) -> Option<Duration> {
        match (self, earlier) {
            (Instant::Real(a), Instant::Real(b)) => a.checked_duration_since(b),
            (Instant::Sim(a), Instant::Sim(b)) => a.checked_sub(b),
            // instants of different worlds never meet in practice; treat as "already due"
            _ => None,
        }
    }
}

// The symbols compio's guarded hooks link against (feature `verif` of the hooked crates).
#[unsafe(no_mangle)]
pub extern "Rust" fn __compio_verif_point(site: u32) {
    point(site)
}

#[unsafe(no_mangle)]
pub extern "Rust" fn __compio_verif_yield() {
    yield_now()
}

#[unsafe(no_mangle)]
pub extern "Rust" fn __compio_verif_choose(site: u32, n: usize) -> usize {
    match hooks() {
        Some(h) if n > 1 => (h.choose)(site, n).min(n - 1),
        _ => 0,
    }
}

#[unsafe(no_mangle)]
pub extern "Rust" fn __compio_verif_op_supported(code: u8) -> i8 {
    match hooks().and_then(|h| (h.op_supported)(code)) {
        Some(false) => 0,
        Some(true) => 1,
        None => -1,
    }
}

#[unsafe(no_mangle)]
pub extern "Rust" fn __compio_verif_spawn(f: Box<dyn FnOnce() + Send + 'static>) {
    spawn(f)
}
