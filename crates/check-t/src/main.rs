//! Engine T checks: real compio code on logical threads whose interleaving is
//! decided by the run's choice sequence (C03, C04, later C06/C17/C18/C19).

mod exec;
mod pool;
mod sharedfd;

use simcore::worker::Scenario;

// freed blocks stay mapped until the run ends, so a use-after-free in the code under test is
// reported by the harness probes instead of corrupting the process (simcore::quarantine)
#[global_allocator]
static ALLOC: simcore::quarantine::Quarantine = simcore::quarantine::Quarantine;

fn main() {
    let mut scenarios: Vec<Scenario> = Vec::new();
    scenarios.extend(exec::scenarios());
    scenarios.extend(pool::scenarios());
    scenarios.extend(sharedfd::scenarios());
    simcore::worker::main(&scenarios)
}
