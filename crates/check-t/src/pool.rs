//! C17 — the blocking pool (`compio_driver::AsyncifyPool`) under a controlled
//! scheduler: real pool code, real (vendored, sim-aware) flume rendezvous
//! channel, worker threads started through hook H1, idle time-outs fired by the
//! simulated clock thread.

use std::{
    sync::{
        Arc,
        atomic::{AtomicBool, AtomicU32, AtomicUsize, Ordering::SeqCst},
    },
    time::Duration,
};

use compio_driver::AsyncifyPool;
use simcore::{self as sim, RunResult, worker::Scenario};
use simsched::thread;

pub fn scenarios() -> Vec<Scenario> {
    vec![Scenario {
        name: "pool",
        property: "C17",
        engine: "T",
        run: pool,
        weight: 1,
    }]
}

struct Shared {
    limit: usize,
    running: AtomicUsize,
    max_running: AtomicUsize,
    started: Vec<AtomicU32>,
    finished: Vec<AtomicU32>,
    rejected: AtomicU32,
    over_limit: AtomicBool,
}

fn job(sh: Arc<Shared>, id: usize, duration: u32, panics: bool) -> impl FnOnce() + Send + 'static {
    move || {
        sh.started[id].fetch_add(1, SeqCst);
        let now = sh.running.fetch_add(1, SeqCst) + 1;
        sh.max_running.fetch_max(now, SeqCst);
        if now > sh.limit && !sh.over_limit.swap(true, SeqCst) {
            sim::raise(
                "limit-exceeded",
                format!("{now} pool threads are running jobs at once (job {id} just started), the configured limit is {}", sh.limit),
            );
        }
        // the blocking work: `duration` scheduling points during which other threads may do anything
        for _ in 0..duration {
            simsched::point();
        }
        sh.running.fetch_sub(1, SeqCst);
        sh.finished[id].fetch_add(1, SeqCst);
        if panics {
            // the worker thread unwinds; its slot must be released all the same
            sim::probe("job-panicked");
            panic!("[expected] job {id} panics");
        }
    }
}

fn pool() -> RunResult {
    let limit = 1 + sim::range("limit", 0, 2) as usize;
    let dispatchers = 1 + sim::range("dispatchers", 0, 2) as usize;
    let per: Vec<usize> = (0..dispatchers).map(|_| 1 + sim::range("jobs", 0, 3) as usize).collect();
    let total: usize = per.iter().sum::<usize>() + 1;
    let durations: Vec<u32> = (0..total).map(|_| sim::range("duration", 0, 6) as u32).collect();
    let panics: Vec<bool> = (0..total).map(|i| i + 1 < total && sim::flip("job.panics", 1, 6)).collect();
    let timeout_ms = 1 + sim::range("idle.timeout", 0, 200);
    sim::log(|| format!("pool limit {limit}, idle timeout {timeout_ms} ms; {dispatchers} dispatching threads with {per:?} jobs (+1 after the idle period); durations {durations:?}; panicking {panics:?}"));
    simsched::run(80_000, move || {
        let sh = Arc::new(Shared {
            limit,
            running: AtomicUsize::new(0),
            max_running: AtomicUsize::new(0),
            started: (0..total).map(|_| AtomicU32::new(0)).collect(),
            finished: (0..total).map(|_| AtomicU32::new(0)).collect(),
            rejected: AtomicU32::new(0),
            over_limit: AtomicBool::new(false),
        });
        let pool = AsyncifyPool::new(limit, Duration::from_millis(timeout_ms));
        let mut next = 0usize;
        let mut handles = Vec::new();
        for n in per.iter().copied() {
            let ids: Vec<usize> = (next..next + n).collect();
            next += n;
            let (pool, sh, durations, panics) = (pool.clone(), sh.clone(), durations.clone(), panics.clone());
            handles.push(thread::spawn(move || {
                for id in ids {
                    submit(&pool, &sh, id, durations[id], panics[id]);
                }
            }));
        }
        for h in handles {
            let _ = h.join();
        }
        wait_all(&sh, 0..next);
        // idle long enough for every worker to retire, then one more job must still run
        simhook::park_timeout(Duration::from_millis(3 * timeout_ms + 10));
        sim::probe("idle-period-elapsed");
        if simsched::timeouts_fired() > 1 {
            // besides our own sleep, at least one worker's idle time-out fired: it retired
            sim::probe("worker-retired-by-idle-timeout");
        }
        let last = next;
        submit(&pool, &sh, last, durations[last], false);
        wait_all(&sh, last..last + 1);
        for id in 0..total {
            let (s, f) = (sh.started[id].load(SeqCst), sh.finished[id].load(SeqCst));
            if s != 1 || f != 1 {
                sim::raise("run-count", format!("job {id} started {s} times and finished {f} times; every accepted job runs exactly once"));
            }
        }
        if sh.rejected.load(SeqCst) > 0 {
            sim::probe("dispatch-rejected-and-retried");
        }
        if sh.max_running.load(SeqCst) == limit {
            sim::probe("pool-saturated");
        }
    })
}

/// What a runtime does: dispatch, and when the pool says "all threads busy", take the job back and retry.
fn submit(pool: &AsyncifyPool, sh: &Arc<Shared>, id: usize, duration: u32, panics: bool) {
    let mut f: Box<dyn FnOnce() + Send + 'static> = Box::new(job(sh.clone(), id, duration, panics));
    let mut tries = 0u32;
    loop {
        match pool.dispatch(f) {
            Ok(()) => return,
            Err(e) => {
                // handed back intact: it has not run, and it still runs when retried
                if sh.started[id].load(SeqCst) != 0 {
                    sim::raise("rejected-job-ran", format!("job {id} was handed back as rejected but had already been started"));
                    return;
                }
                sh.rejected.fetch_add(1, SeqCst);
                f = e.into_inner();
                tries += 1;
                if tries > 5_000 {
                    sim::raise("never-accepted", format!("job {id} rejected {tries} times in a row"));
                    return;
                }
                thread::yield_now();
            }
        }
    }
}

fn wait_all(sh: &Shared, ids: std::ops::Range<usize>) {
    let mut spins = 0u32;
    while ids.clone().any(|i| sh.finished[i].load(SeqCst) == 0) {
        spins += 1;
        if spins > 20_000 {
            sim::raise("lost-job", format!("jobs {:?} were accepted by the pool but never finished", ids.clone().filter(|i| sh.finished[*i].load(SeqCst) == 0).collect::<Vec<_>>()));
            return;
        }
        thread::yield_now();
    }
}
