//! C06 (cross-thread half) — `SharedFd` with the `sync` feature: holders on
//! several logical threads drop their clones while one thread awaits `take()`.

use std::{
    future::Future,
    sync::{
        Arc,
        atomic::{AtomicBool, AtomicU32, AtomicUsize, Ordering::SeqCst},
    },
    task::{Context, Poll, Wake, Waker},
};

use compio_driver::SharedFd;
use simcore::{self as sim, RunResult, worker::Scenario};
use simsched::thread::{self, Thread};

/// How often SharedFd's release logic (hook site 44, the top of `SharedFd::drop`) has run in this execution.
static RELEASES_SEEN: AtomicUsize = AtomicUsize::new(0);

fn observe_site(site: u32) {
    if site == 44 {
        RELEASES_SEEN.fetch_add(1, SeqCst);
    }
}

/// A `take()` that yields `None` gives its handle up; that must go through the same release logic as
/// any other handle (which wakes a waiting `take()` when it was the last one).
fn check_loser_release(before: usize, who: &str) {
    if RELEASES_SEEN.load(SeqCst) == before {
        sim::raise(
            "silent-release",
            format!("{who}: take() returned None and its handle is gone, but SharedFd's release logic never ran for it, so a take() waiting for the last handle is not woken"),
        );
    }
}

pub fn scenarios() -> Vec<Scenario> {
    vec![Scenario {
        name: "shared_fd_sync",
        property: "C06",
        engine: "T",
        run: shared_fd,
        weight: 1,
    }]
}

struct Stats {
    inner_drops: AtomicU32,
    /// holders that have begun (at least) to let go
    letting_go: AtomicUsize,
    holders: usize,
    /// every handle except the waiting take(): the holders plus a second (losing) take()
    others: usize,
    taken: AtomicBool,
    /// holders whose drop has returned
    released: AtomicUsize,
}

/// Stands for the owned descriptor: dropping it is "close".
struct Fd(Arc<Stats>);

impl Drop for Fd {
    fn drop(&mut self) {
        let n = self.0.inner_drops.fetch_add(1, SeqCst);
        if n > 0 {
            sim::raise("double-close", format!("the owned descriptor was dropped {} times", n + 1));
        }
        let gone = self.0.letting_go.load(SeqCst);
        if gone < self.0.holders {
            sim::raise("closed-in-use", format!("the descriptor was closed while {} of {} other handles had not even started to let go", self.0.holders - gone, self.0.holders));
        }
    }
}

struct ParkWaker {
    thread: Thread,
    flag: AtomicBool,
}

impl Wake for ParkWaker {
    fn wake(self: Arc<Self>) {
        self.wake_by_ref()
    }

    fn wake_by_ref(self: &Arc<Self>) {
        self.flag.store(true, SeqCst);
        self.thread.unpark();
    }
}

fn shared_fd() -> RunResult {
    let holders = 1 + sim::range("holders", 0, 2) as usize;
    // what each holder does before it lets go: number of extra clone+drop pairs
    let extra: Vec<u32> = (0..holders).map(|_| sim::range("extra.clones", 0, 2) as u32).collect();
    let second_taker = sim::flip("second.taker", 1, 4);
    sim::log(|| format!("SharedFd(sync): {holders} holder threads (extra clone/drop pairs {extra:?}); one take().await{}", if second_taker { " and a second take()" } else { "" }));
    simsched::run(40_000, move || {
        RELEASES_SEEN.store(0, SeqCst);
        simsched::set_site_observer(Some(observe_site));
        let stats = Arc::new(Stats {
            inner_drops: AtomicU32::new(0),
            letting_go: AtomicUsize::new(0),
            holders,
            others: holders + second_taker as usize,
            taken: AtomicBool::new(false),
            released: AtomicUsize::new(0),
        });
        let root = unsafe { SharedFd::new_unchecked(Fd(stats.clone())) };
        let mut joins = Vec::new();
        let main_thread = thread::current();
        let t2_thread: Arc<std::sync::Mutex<Option<Thread>>> = Arc::default();
        for k in 0..holders {
            let h = root.clone();
            let stats = stats.clone();
            let main_thread = main_thread.clone();
            let t2_for_holders = t2_thread.clone();
            let n = extra[k];
            joins.push(thread::spawn(move || {
                for _ in 0..n {
                    let c = h.clone();
                    simsched::point();
                    drop(c);
                }
                stats.letting_go.fetch_add(1, SeqCst);
                drop(h);
                stats.released.fetch_add(1, SeqCst);
                main_thread.unpark();
                // never hold a real lock across a scheduling point (unpark is one)
                let t = t2_for_holders.lock().unwrap().clone();
                if let Some(t) = t {
                    t.unpark();
                }
            }));
        }
        let extra_taker = if second_taker { Some(root.clone()) } else { None };
        if let Some(t2) = extra_taker {
            let stats = stats.clone();
            let main_thread = main_thread.clone();
            let others_thread = t2_thread.clone();
            joins.push(thread::spawn(move || {
                // a take() that loses the race yields None and just lets its handle go; one that wins gets the fd
                *others_thread.lock().unwrap() = Some(thread::current());
                simsched::point();
                let me = Arc::new(ParkWaker {
                    thread: thread::current(),
                    flag: AtomicBool::new(false),
                });
                let before = RELEASES_SEEN.load(SeqCst);
                match block_on_classified(t2.take(), &me, &stats) {
                    Some(Some(fd)) => {
                        stats.taken.store(true, SeqCst);
                        drop(fd);
                    }
                    // lost the race: this handle has been let go
                    Some(None) => {
                        check_loser_release(before, "second take()");
                        stats.released.fetch_add(1, SeqCst);
                        main_thread.unpark();
                    }
                    None => {}
                }
            }));
        }
        let me = Arc::new(ParkWaker {
            thread: thread::current(),
            flag: AtomicBool::new(false),
        });
        let before_main = RELEASES_SEEN.load(SeqCst);
        let got = block_on_classified(root.take(), &me, &stats);
        match got {
            Some(Some(fd)) => {
                stats.taken.store(true, SeqCst);
                drop(fd);
            }
            Some(None) => {
                if !second_taker {
                    sim::raise("take-none", "take() returned None although no other take() was ever started");
                }
                if second_taker {
                    check_loser_release(before_main, "first take()");
                }
                stats.released.fetch_add(1, SeqCst);
                // never hold a real lock across a scheduling point (unpark is one)
                let t = t2_thread.lock().unwrap().clone();
                if let Some(t) = t {
                    t.unpark();
                }
            }
            // hang already reported
            None => return,
        }
        for j in joins {
            let _ = j.join();
        }
        let d = stats.inner_drops.load(SeqCst);
        if d != 1 {
            sim::raise("close-count", format!("the owned descriptor was dropped {d} times by the end; exactly once is required"));
        }
    })
}

/// Like `block_on`, but a wait that can never end is reported here, with the facts that identify the
/// known finding (every other handle is gone, `take()` is still Pending, nobody will wake it), instead
/// of as an anonymous scheduler deadlock.
fn block_on_classified<F: Future>(fut: F, pw: &Arc<ParkWaker>, stats: &Arc<Stats>) -> Option<F::Output> 
where
    F::Output: Sized,
{
    let mut fut = std::pin::pin!(fut);
    let waker = Waker::from(pw.clone());
    let mut cx = Context::from_waker(&waker);
    loop {
        pw.flag.store(false, SeqCst);
        if let Poll::Ready(v) = fut.as_mut().poll(&mut cx) {
            return Some(v);
        }
        // (no scheduling point lies between take()'s last look at the reference count and here)
        if stats.released.load(SeqCst) == stats.others {
            sim::raise(
                "pending-as-sole-owner",
                format!("take() returned Pending although all {} other handles had been released completely before its poll ended: it did not look at the reference count again after registering its waker", stats.others),
            );
            return None;
        }
        while !pw.flag.load(SeqCst) {
            if stats.released.load(SeqCst) == stats.others {
                // every other handle has been released completely and no wake is outstanding
                sim::raise(
                    "take-hangs-after-last-release",
                    format!("take() is Pending with its waker registered, all {} other handles have been dropped completely, and no wake-up is outstanding: the releasing handle woke the waiter before it let go of its reference", stats.others),
                );
                return None;
            }
            thread::park();
        }
    }
}
