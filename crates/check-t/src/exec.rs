//! compio-executor under a controlled scheduler.
//!
//! * C04 `lifecycle`: generated programs of spawn / self-wake / external wake /
//!   join / cancel / detach / handle drop / panic / early executor teardown, with
//!   handle and waker operations on other logical threads.
//! * C03 `executor_wakes`: the same machine, biased to many concurrent and
//!   repeated cross-thread wakes through a tiny cross-thread queue.
//!
//! Oracles: instrumented futures and outputs (where polled, how often dropped,
//! by whom), a per-task plan as the sequential reference, and "every logical
//! thread blocked" (shuttle deadlock) as the lost-wake-up detector.

use std::{
    future::Future,
    pin::Pin,
    sync::{
        Arc, Mutex,
        atomic::{AtomicBool, AtomicU32, AtomicU64, AtomicUsize, Ordering::SeqCst},
    },
    task::{Context, Poll, Wake, Waker},
};

use compio_executor::{Executor, ExecutorConfig, JoinError, JoinHandle};
use simcore::{self as sim, RunResult, worker::Scenario};
use simsched::{
    thread::{self, Thread},
};

pub fn scenarios() -> Vec<Scenario> {
    vec![
        Scenario {
            name: "lifecycle",
            property: "C04",
            engine: "T",
            run: lifecycle,
            weight: 3,
        },
        Scenario {
            name: "starvation",
            property: "C04",
            engine: "T",
            run: starvation,
            weight: 1,
        },
        Scenario {
            name: "executor_wakes",
            property: "C03",
            engine: "T",
            run: executor_wakes,
            weight: 1,
        },
    ]
}

// ------------------------------------------------------------------ program

#[derive(Clone, Debug)]
enum Step {
    /// wake own waker, return Pending
    SelfWake,
    /// hand the waker to these threads (with a wake style each) and wait until one of them has woken us
    External(Vec<(usize, WakeStyle)>),
}

#[derive(Clone, Copy, Debug)]
enum WakeStyle {
    Wake,
    ByRef,
    CloneBoth,
}

#[derive(Clone, Debug)]
enum Handle {
    JoinHome,
    #[allow(dead_code)]
    JoinRemote(usize),
    DropHome(u32),
    DropRemote(usize),
    #[allow(dead_code)]
    CancelRemote(usize),
    Detach,
}

#[derive(Clone, Debug)]
struct TaskPlan {
    steps: Vec<Step>,
    panics: bool,
    handle: Handle,
}

#[derive(Clone, Debug)]
struct Program {
    tasks: Vec<TaskPlan>,
    threads: usize,
    sync_queue: usize,
    max_interval: u32,
    early_teardown: Option<u32>,
}

fn gen_program(wake_heavy: bool) -> Program {
    let threads = if wake_heavy { 1 + sim::range("threads", 0, 2) as usize } else { sim::range("threads", 0, 2) as usize };
    let ntasks = 1 + sim::range("tasks", 0, 3) as usize;
    let mut tasks = Vec::new();
    for _ in 0..ntasks {
        let nsteps = sim::range("steps", 0, if wake_heavy { 4 } else { 3 }) as usize;
        let mut steps = Vec::new();
        for _ in 0..nsteps {
            let external = threads > 0 && sim::flip("step.external", if wake_heavy { 3 } else { 1 }, if wake_heavy { 4 } else { 2 });
            if external {
                let n = 1 + sim::range("wakers", 0, if wake_heavy { 2 } else { 1 }) as usize;
                let ws = (0..n)
                    .map(|_| {
                        let t = sim::choose("waker.thread", threads);
                        let style = match sim::choose("wake.style", 3) {
                            0 => WakeStyle::Wake,
                            1 => WakeStyle::ByRef,
                            _ => WakeStyle::CloneBoth,
                        };
                        (t, style)
                    })
                    .collect();
                steps.push(Step::External(ws));
            } else {
                steps.push(Step::SelfWake);
            }
        }
        let panics = !wake_heavy && sim::flip("task.panics", 1, 6);
        let handle = if wake_heavy {
            match sim::choose("handle", 3) {
                0 => Handle::JoinHome,
                1 => Handle::Detach,
                _ => Handle::JoinRemote(sim::choose("handle.thread", threads)),
            }
        } else {
            match sim::choose("handle", if threads > 0 { 6 } else { 3 }) {
                0 => Handle::JoinHome,
                1 => Handle::Detach,
                2 => Handle::DropHome(sim::range("drop.at", 0, 3) as u32),
                3 => Handle::JoinRemote(sim::choose("handle.thread", threads)),
                4 => Handle::DropRemote(sim::choose("handle.thread", threads)),
                _ => Handle::CancelRemote(sim::choose("handle.thread", threads)),
            }
        };
        tasks.push(TaskPlan { steps, panics, handle });
    }
    Program {
        tasks,
        threads,
        sync_queue: 1 + sim::range("sync.queue", 0, if wake_heavy { 1 } else { 3 }) as usize,
        max_interval: 1 + sim::range("max.interval", 0, 3) as u32,
        early_teardown: if !wake_heavy && sim::flip("early.teardown", 1, 5) { Some(sim::range("teardown.at", 0, 3) as u32) } else { None },
    }
}

// ------------------------------------------------------------------ instrumentation

#[derive(Default)]
struct Stats {
    polls: AtomicU32,
    ready: AtomicBool,
    fut_drops: AtomicU32,
    out_created: AtomicU32,
    out_drops: AtomicU32,
    /// epoch in which a cancelling operation (handle drop / cancel) returned; u64::MAX = none
    cancelled_epoch: AtomicU64,
    /// the task was polled while a handle drop / cancel from another thread was under way
    polled_during_cancel: AtomicBool,
    /// cross-thread wakes of this task begun / returned (a cancel that overlaps one races with it)
    wakes_begun: AtomicU32,
    wakes_returned: AtomicU32,
    /// number of completed wake deliveries per step index
    woken: [AtomicU32; 8],
}

struct World {
    home: AtomicUsize,
    epoch: AtomicU64,
    threads_done: AtomicUsize,
    /// helper threads currently delivering a wake or running a handle job
    busy: AtomicUsize,
    /// set by the home thread once nothing can produce work any more
    home_idle: AtomicBool,
    /// handle jobs not yet finished (waker threads' drops + the solo join/cancel threads)
    jobs_left: AtomicUsize,
    /// threads parked inside a join / cancel+await, waiting for the join waker
    blocked: Arc<AtomicUsize>,
}

/// Wake requests for one helper thread; the sender unparks the receiver.
#[derive(Default)]
struct Inbox {
    q: Mutex<std::collections::VecDeque<Msg>>,
    thread: Mutex<Option<Thread>>,
}

impl Inbox {
    fn send(&self, m: Msg) {
        self.q.lock().unwrap().push_back(m);
        // never hold a real lock across a scheduling point (unpark is one)
        let t = self.thread.lock().unwrap().clone();
        if let Some(t) = t {
            t.unpark();
        }
    }

    fn pop(&self) -> Option<Msg> {
        self.q.lock().unwrap().pop_front()
    }

    fn is_empty(&self) -> bool {
        self.q.lock().unwrap().is_empty()
    }
}

struct Out {
    id: usize,
    stats: Arc<Stats>,
}

impl Drop for Out {
    fn drop(&mut self) {
        self.stats.out_drops.fetch_add(1, SeqCst);
    }
}

struct Probe {
    id: usize,
    plan: TaskPlan,
    pos: usize,
    sent: bool,
    stats: Arc<Stats>,
    world: Arc<World>,
    txs: Vec<Arc<Inbox>>,
}

enum Msg {
    Wake { task: usize, step: usize, waker: Waker, style: WakeStyle },
}

impl Future for Probe {
    type Output = Out;

    fn poll(mut self: Pin<&mut Self>, cx: &mut Context<'_>) -> Poll<Out> {
        let me = simsched::me();
        let home = self.world.home.load(SeqCst);
        if me != home {
            sim::raise("poll-off-thread", format!("task {} polled on logical thread {me}, its home is {home}", self.id));
        }
        if self.stats.ready.load(SeqCst) {
            sim::raise("poll-after-ready", format!("task {} polled again after it returned Ready", self.id));
        }
        if self.stats.fut_drops.load(SeqCst) > 0 {
            sim::raise("poll-after-drop", format!("task {} polled after its future was dropped", self.id));
        }
        let ce = self.stats.cancelled_epoch.load(SeqCst);
        if ce != u64::MAX && self.world.epoch.load(SeqCst) > ce {
            sim::raise("poll-after-cancel", format!("task {} polled in a tick that began after its cancellation had returned", self.id));
        }
        self.stats.polls.fetch_add(1, SeqCst);
        loop {
            let pos = self.pos;
            if pos >= self.plan.steps.len() {
                if self.plan.panics {
                    self.stats.ready.store(true, SeqCst);
                    panic!("[expected] task {} panics by plan", self.id);
                }
                self.stats.ready.store(true, SeqCst);
                self.stats.out_created.fetch_add(1, SeqCst);
                return Poll::Ready(Out {
                    id: self.id,
                    stats: self.stats.clone(),
                });
            }
            match self.plan.steps[pos].clone() {
                Step::SelfWake => {
                    self.pos += 1;
                    cx.waker().wake_by_ref();
                    return Poll::Pending;
                }
                Step::External(ws) => {
                    if !self.sent {
                        self.sent = true;
                        for (t, style) in ws {
                            self.txs[t].send(Msg::Wake {
                                task: self.id,
                                step: pos,
                                waker: cx.waker().clone(),
                                style,
                            });
                        }
                        return Poll::Pending;
                    }
                    if self.stats.woken[pos].load(SeqCst) > 0 {
                        self.sent = false;
                        self.pos += 1;
                        continue;
                    }
                    // polled without the event: spurious, keep waiting
                    return Poll::Pending;
                }
            }
        }
    }
}

impl Drop for Probe {
    fn drop(&mut self) {
        let me = simsched::me();
        let home = self.world.home.load(SeqCst);
        if me != home {
            sim::raise("drop-off-thread", format!("future of task {} dropped on logical thread {me}, its home is {home}", self.id));
        }
        self.stats.fut_drops.fetch_add(1, SeqCst);
    }
}

struct ThreadWaker {
    thread: Thread,
    flag: AtomicBool,
    count: AtomicU32,
    /// the thread is parked waiting for this waker and has been counted in `blocked`
    waiting: AtomicBool,
    blocked: Mutex<Option<Arc<AtomicUsize>>>,
}

impl ThreadWaker {
    fn uncount(&self) {
        if self.waiting.swap(false, SeqCst) {
            if let Some(b) = self.blocked.lock().unwrap().as_ref() {
                b.fetch_sub(1, SeqCst);
            }
        }
    }
}

impl Wake for ThreadWaker {
    fn wake(self: Arc<Self>) {
        self.wake_by_ref()
    }

    fn wake_by_ref(self: &Arc<Self>) {
        self.flag.store(true, SeqCst);
        self.count.fetch_add(1, SeqCst);
        // from this moment the thread is no longer "blocked for good", whether or not it has run yet
        self.uncount();
        self.thread.unpark();
    }
}

fn thread_waker() -> (Arc<ThreadWaker>, Waker) {
    let tw = Arc::new(ThreadWaker {
        thread: thread::current(),
        flag: AtomicBool::new(false),
        count: AtomicU32::new(0),
        waiting: AtomicBool::new(false),
        blocked: Mutex::new(None),
    });
    (tw.clone(), Waker::from(tw))
}

/// Block the calling logical thread on a future, parking between polls.
fn block_on_parked<F: Future>(fut: F, blocked: &Arc<AtomicUsize>) -> F::Output {
    let mut fut = std::pin::pin!(fut);
    let (tw, waker) = thread_waker();
    *tw.blocked.lock().unwrap() = Some(blocked.clone());
    let mut cx = Context::from_waker(&waker);
    loop {
        tw.flag.store(false, SeqCst);
        if let Poll::Ready(v) = fut.as_mut().poll(&mut cx) {
            return v;
        }
        // counted as blocked from here until its waker fires (not until it runs again)
        if !tw.flag.load(SeqCst) {
            blocked.fetch_add(1, SeqCst);
            tw.waiting.store(true, SeqCst);
            if tw.flag.load(SeqCst) {
                tw.uncount();
            }
        }
        while !tw.flag.load(SeqCst) {
            thread::park();
        }
        tw.uncount();
    }
}

#[derive(Debug)]
enum Joined {
    Ok(usize),
    Panicked,
    Cancelled,
}

fn classify(r: Result<Out, JoinError>) -> Joined {
    match r {
        Ok(o) => Joined::Ok(o.id),
        Err(JoinError::Panicked(_)) => Joined::Panicked,
        Err(JoinError::Cancelled) => Joined::Cancelled,
    }
}

enum ThreadJob {
    Join(usize, JoinHandle<Out>),
    Drop(usize, JoinHandle<Out>),
    Cancel(usize, JoinHandle<Out>),
}

// ------------------------------------------------------------------ the scenario body

fn lifecycle() -> RunResult {
    let prog = gen_program(false);
    run_program(prog)
}

fn executor_wakes() -> RunResult {
    let prog = gen_program(true);
    run_program(prog)
}

fn run_program(prog: Program) -> RunResult {
    sim::log(|| format!("{prog:?}"));
    let prog = Arc::new(prog);
    simsched::run(60_000, move || body(&prog))
}

/// Set once the executor of this run has been dropped (its shared state freed).
static EXECUTOR_FREED: AtomicBool = AtomicBool::new(false);

/// Hook sites 11 and 12 sit in the cross-thread scheduling path right before the waker touches the
/// executor's shared state (queue push, driver notification) whose pointer it loaded earlier.
fn observe_site(site: u32) {
    if (site == 11 || site == 12) && EXECUTOR_FREED.load(SeqCst) {
        sim::raise(
            "use-after-free",
            format!("logical thread {} is inside a cross-thread wake (hook site {site}) and about to use the executor's shared queue, but the executor was already dropped and that memory freed", simsched::me()),
        );
    }
}

fn body(prog: &Program) {
    EXECUTOR_FREED.store(false, SeqCst);
    simsched::set_site_observer(Some(observe_site));
    let world = Arc::new(World {
        home: AtomicUsize::new(simsched::me()),
        epoch: AtomicU64::new(0),
        threads_done: AtomicUsize::new(0),
        busy: AtomicUsize::new(0),
        home_idle: AtomicBool::new(false),
        jobs_left: AtomicUsize::new(0),
        blocked: Arc::new(AtomicUsize::new(0)),
    });
    let home_thread = thread::current();
    let (home_tw, home_waker) = thread_waker();
    let ex = Executor::with_config(ExecutorConfig {
        sync_queue_size: prog.sync_queue,
        local_queue_size: 4,
        max_interval: prog.max_interval,
        waker: Some(home_waker.clone()),
    });
    let stats: Vec<Arc<Stats>> = prog
        .tasks
        .iter()
        .map(|_| {
            let s = Stats::default();
            s.cancelled_epoch.store(u64::MAX, SeqCst);
            Arc::new(s)
        })
        .collect();
    let results: Arc<Mutex<Vec<Option<Joined>>>> = Arc::new(Mutex::new((0..prog.tasks.len()).map(|_| None).collect()));

    // inboxes of the helper threads
    let txs: Vec<Arc<Inbox>> = (0..prog.threads).map(|_| Arc::new(Inbox::default())).collect();
    let rxs = txs.clone();

    // spawn tasks, distribute handles
    let mut home_joins: Vec<(usize, JoinHandle<Out>)> = Vec::new();
    let mut home_drops: Vec<(usize, u32, JoinHandle<Out>)> = Vec::new();
    let mut jobs: Vec<Vec<ThreadJob>> = (0..prog.threads).map(|_| Vec::new()).collect();
    let mut solo_jobs: Vec<ThreadJob> = Vec::new();
    for (i, plan) in prog.tasks.iter().enumerate() {
        let h = ex.spawn(Probe {
            id: i,
            plan: plan.clone(),
            pos: 0,
            sent: false,
            stats: stats[i].clone(),
            world: world.clone(),
            txs: txs.clone(),
        });
        match plan.handle {
            Handle::JoinHome => home_joins.push((i, h)),
            Handle::Detach => h.detach(),
            Handle::DropHome(at) => home_drops.push((i, at, h)),
            // a job that blocks its thread gets a thread of its own: the waker threads must stay responsive
            Handle::JoinRemote(_) => solo_jobs.push(ThreadJob::Join(i, h)),
            Handle::DropRemote(t) => jobs[t].push(ThreadJob::Drop(i, h)),
            Handle::CancelRemote(_) => solo_jobs.push(ThreadJob::Cancel(i, h)),
        }
    }
    let inboxes = txs;

    world.jobs_left.store(jobs.iter().map(|j| j.len()).sum::<usize>() + solo_jobs.len(), SeqCst);
    // helper threads: serve wake requests and do their (non-blocking) handle jobs at decided moments;
    // they leave when the home thread has declared quiescence
    let mut joins = Vec::new();
    for (rx, my_jobs) in rxs.into_iter().zip(jobs.into_iter()) {
        let world = world.clone();
        let stats = stats.clone();
        let results = results.clone();
        let home_thread = home_thread.clone();
        joins.push(thread::spawn(move || {
            *rx.thread.lock().unwrap() = Some(thread::current());
            let mut my_jobs = my_jobs;
            loop {
                let do_job = !my_jobs.is_empty() && sim::flip("thread.job.now", 1, 2);
                if do_job {
                    world.busy.fetch_add(1, SeqCst);
                    let job = my_jobs.remove(0);
                    run_job(job, &world, &stats, &results);
                    world.jobs_left.fetch_sub(1, SeqCst);
                    world.busy.fetch_sub(1, SeqCst);
                    home_thread.unpark();
                    continue;
                }
                world.busy.fetch_add(1, SeqCst);
                if let Some(msg) = rx.pop() {
                    deliver(msg, &stats);
                    world.busy.fetch_sub(1, SeqCst);
                    home_thread.unpark();
                    continue;
                }
                if !my_jobs.is_empty() {
                    // nothing to wake right now: do a job rather than wait
                    let job = my_jobs.remove(0);
                    run_job(job, &world, &stats, &results);
                    world.jobs_left.fetch_sub(1, SeqCst);
                    world.busy.fetch_sub(1, SeqCst);
                    home_thread.unpark();
                    continue;
                }
                world.busy.fetch_sub(1, SeqCst);
                if world.home_idle.load(SeqCst) {
                    break;
                }
                home_thread.unpark();
                thread::park();
            }
            world.threads_done.fetch_add(1, SeqCst);
            home_thread.unpark();
        }));
    }

    for job in solo_jobs {
        let world = world.clone();
        let stats = stats.clone();
        let results = results.clone();
        let home_thread = home_thread.clone();
        joins.push(thread::spawn(move || {
            run_job(job, &world, &stats, &results);
            world.jobs_left.fetch_sub(1, SeqCst);
            world.threads_done.fetch_add(1, SeqCst);
            home_thread.unpark();
        }));
    }

    // home loop
    let mut cx = Context::from_waker(&home_waker);
    let mut iter: u32 = 0;
    let mut torn_down_early = false;
    let mut quiescent_rounds = 0u32;
    loop {
        if prog.early_teardown == Some(iter) {
            torn_down_early = true;
            break;
        }
        // home-side handle drops scheduled for this iteration
        let mut k = 0;
        while k < home_drops.len() {
            if home_drops[k].1 <= iter {
                let (i, _, h) = home_drops.remove(k);
                drop(h);
                stats[i].cancelled_epoch.store(world.epoch.load(SeqCst), SeqCst);
            } else {
                k += 1;
            }
        }
        home_tw.flag.store(false, SeqCst);
        world.epoch.fetch_add(1, SeqCst);
        let more = ex.tick();
        sim::log(|| format!("home: tick #{iter} -> more={more}; polls {:?}", stats.iter().map(|s| s.polls.load(SeqCst)).collect::<Vec<_>>()));
        // home-side joins
        let mut k = 0;
        while k < home_joins.len() {
            let (i, h) = &mut home_joins[k];
            match Pin::new(h).poll(&mut cx) {
                Poll::Ready(r) => {
                    results.lock().unwrap()[*i] = Some(classify(r));
                    let _done = home_joins.remove(k);
                }
                Poll::Pending => k += 1,
            }
        }
        iter += 1;
        // quiescence: no hot task, no helper busy, no wake request queued, no unprocessed notification.
        // From here nothing can create work, so whatever has not happened by now never will.
        let helpers_quiet = world.busy.load(SeqCst) == 0 && inboxes.iter().all(|i| i.is_empty());
        if !more && helpers_quiet && home_drops.is_empty() && !home_tw.flag.load(SeqCst) {
            if !home_joins.is_empty() {
                sim::raise(
                    "join-never-resolved",
                    format!("home-side join of task(s) {:?} still pending at quiescence: no task is runnable, every requested wake was delivered", home_joins.iter().map(|j| j.0).collect::<Vec<_>>()),
                );
            }
            let left = world.jobs_left.load(SeqCst);
            if left == 0 {
                // every handle job is done: a task whose handle was dropped or cancelled has been cancelled for
                // good, and the executor has had every notification it will ever get: its future is gone by now,
                // not only when the executor is torn down
                for (i, plan) in prog.tasks.iter().enumerate() {
                    let cancelled = matches!(plan.handle, Handle::DropHome(_) | Handle::DropRemote(_) | Handle::CancelRemote(_));
                    if cancelled && stats[i].fut_drops.load(SeqCst) == 0 {
                        // (kept apart, see known_findings.txt: a cancel from another thread that races with a poll or
                        // a wake of the task)
                        let raced = stats[i].polled_during_cancel.load(SeqCst);
                        sim::raise(
                            if raced { "cancelled-task-kept-after-racing-poll" } else { "cancelled-task-kept" },
                            format!(
                                "the handle of task {i} was {:?} and the executor is quiescent (nothing runnable, every wake and notification processed), but the task's future has not been dropped (polled {} times{}); it would only go with the executor",
                                plan.handle,
                                stats[i].polls.load(SeqCst),
                                if raced { "; while the cancel was under way on the other thread the task was polled or another thread was waking it" } else { "" }
                            ),
                        );
                    }
                }
                break;
            }
            if world.blocked.load(SeqCst) == left {
                // every remaining job is a thread parked on a join waker, and nothing is left that could fire it
                sim::raise(
                    "join-never-resolved",
                    format!("{left} thread(s) parked in a join / cancel+await at quiescence: no task is runnable and every requested wake was delivered, so their task has finished or can never run again, but the join waker was not woken"),
                );
                break;
            }
            // some helper still has work it has not been scheduled for: get out of its way. It unparks us
            // when it is done; if it blocks for good instead, every thread is blocked and that is a deadlock.
            for i in &inboxes {
                // never hold a real lock across a scheduling point (unpark is one)
                let t = i.thread.lock().unwrap().clone();
                if let Some(t) = t {
                    t.unpark();
                }
            }
            let _ = quiescent_rounds;
            thread::park();
            continue;
        }
        quiescent_rounds = 0;
        if !home_drops.is_empty() {
            // handle drops are scheduled by loop iteration: keep iterating
            continue;
        }
        if !more && !home_tw.flag.load(SeqCst) {
            // nothing runnable: sleep until a waker (cross-thread schedule, join wake, helper exit) fires
            sim::log(|| "home: park".to_string());
            thread::park();
            sim::log(|| "home: unparked".to_string());
        }
    }

    // teardown: executor dropped on its home thread while helper threads may still hold wakers / handles
    world.home_idle.store(true, SeqCst);
    for i in &inboxes {
        // never hold a real lock across a scheduling point (unpark is one)
        let t = i.thread.lock().unwrap().clone();
        if let Some(t) = t {
            t.unpark();
        }
    }
    let pending_home_joins = home_joins.len();
    drop(home_joins);
    drop(home_drops);
    drop(ex);
    EXECUTOR_FREED.store(true, SeqCst);
    for j in joins {
        let _ = j.join();
    }

    // ---------------------------------------------------------------- final checks
    let results = results.lock().unwrap();
    for (i, plan) in prog.tasks.iter().enumerate() {
        let s = &stats[i];
        let drops = s.fut_drops.load(SeqCst);
        if drops != 1 {
            sim::raise("future-drop-count", format!("future of task {i} dropped {drops} times by the end (executor dropped)"));
        }
        let (c, d) = (s.out_created.load(SeqCst), s.out_drops.load(SeqCst));
        if c != d {
            sim::raise("output-drop-count", format!("task {i}: {c} outputs created, {d} dropped"));
        }
        if torn_down_early {
            continue;
        }
        let completes = !matches!(plan.handle, Handle::DropHome(_) | Handle::DropRemote(_) | Handle::CancelRemote(_));
        if completes && !s.ready.load(SeqCst) {
            sim::raise(
                "not-completed",
                format!("task {i} ({:?}) never ran to completion although nobody cancelled it and every wake it waited for was delivered", plan.handle),
            );
        }
        match (&plan.handle, &results[i]) {
            (Handle::JoinHome | Handle::JoinRemote(_), Some(Joined::Ok(id))) => {
                if *id != i || plan.panics {
                    sim::raise("wrong-result", format!("task {i}: join returned the output of task {id} (plan panics: {})", plan.panics));
                }
            }
            (Handle::JoinHome | Handle::JoinRemote(_), Some(Joined::Panicked)) => {
                if !plan.panics {
                    sim::raise("wrong-result", format!("task {i}: join reported a panic the task never raised"));
                }
            }
            (Handle::JoinHome | Handle::JoinRemote(_), other) => {
                sim::raise("wrong-result", format!("task {i}: join returned {other:?} although the task was never cancelled"));
            }
            _ => {}
        }
    }
    let _ = pending_home_joins;
}

fn deliver(msg: Msg, stats: &[Arc<Stats>]) {
    let Msg::Wake { task, step, waker, style } = msg;
    sim::log(|| format!("thread {}: waking task {task} (step {step}, {style:?})", simsched::me()));
    // the event happens, then the wake
    stats[task].woken[step].fetch_add(1, SeqCst);
    stats[task].wakes_begun.fetch_add(1, SeqCst);
    match style {
        WakeStyle::Wake => waker.wake(),
        WakeStyle::ByRef => {
            waker.wake_by_ref();
            drop(waker);
        }
        WakeStyle::CloneBoth => {
            let w2 = waker.clone();
            waker.wake();
            w2.wake_by_ref();
        }
    }
    stats[task].wakes_returned.fetch_add(1, SeqCst);
    sim::log(|| format!("thread {}: wake of task {task} returned", simsched::me()));
}

/// What `raced_since` compares against: taken when a cancelling operation begins.
fn cancel_begins(s: &Stats) -> (u32, u32, u32) {
    (s.polls.load(SeqCst), s.wakes_begun.load(SeqCst), s.wakes_returned.load(SeqCst))
}

/// Whether the executor polled the task, or another thread was inside a wake of it, while the cancelling
/// operation that began at `at` was under way.
fn raced_since(s: &Stats, at: (u32, u32, u32)) -> bool {
    let (polls, begun, returned) = at;
    s.polls.load(SeqCst) != polls || begun != returned || s.wakes_begun.load(SeqCst) != begun
}

fn run_job(job: ThreadJob, world: &World, stats: &[Arc<Stats>], results: &Mutex<Vec<Option<Joined>>>) {
    match job {
        ThreadJob::Join(i, h) => {
            let r = block_on_parked(h, &world.blocked);
            results.lock().unwrap()[i] = Some(classify(r));
        }
        ThreadJob::Drop(i, h) => {
            let at = cancel_begins(&stats[i]);
            sim::log(|| format!("a helper thread drops the handle of task {i}"));
            drop(h);
            let raced = raced_since(&stats[i], at);
            sim::log(|| format!("handle of task {i} dropped{}", if raced { " (the task was polled, or being woken by another thread, meanwhile)" } else { "" }));
            stats[i].polled_during_cancel.store(raced, SeqCst);
            stats[i].cancelled_epoch.store(world.epoch.load(SeqCst), SeqCst);
        }
        ThreadJob::Cancel(i, h) => {
            // cancel() cancels and then waits for the outcome
            let at = cancel_begins(&stats[i]);
            sim::log(|| format!("a helper thread cancels task {i} and awaits the outcome"));
            let _ = block_on_parked(h.cancel(), &world.blocked);
            let raced = raced_since(&stats[i], at);
            sim::log(|| format!("cancel of task {i} returned{}", if raced { " (the task was polled, or being woken by another thread, meanwhile)" } else { "" }));
            stats[i].polled_during_cancel.store(raced, SeqCst);
            let prev = stats[i].cancelled_epoch.load(SeqCst);
            if prev == u64::MAX {
                stats[i].cancelled_epoch.store(world.epoch.load(SeqCst), SeqCst);
            }
        }
    }
}

// ------------------------------------------------------------------ starvation (single-threaded)

/// Tasks that keep each other and themselves hot: every poll may wake itself and any other task
/// (also ones that are hot already). Whoever is hot must be polled within a bounded number of ticks.
fn starvation() -> RunResult {
    let ntasks = 1 + sim::range("tasks", 0, 5) as usize;
    let max_interval = 1 + sim::range("max.interval", 0, 3) as u32;
    let rounds: Vec<u32> = (0..ntasks).map(|_| 1 + sim::range("rounds", 0, 8) as u32).collect();
    // wakes[i] = per round: does task i wake itself, and which other tasks does it wake
    let plans: Vec<Vec<(bool, Vec<usize>)>> = (0..ntasks)
        .map(|i| {
            (0..rounds[i])
                .map(|_| {
                    let me = sim::flip("wake.self", 2, 3);
                    let others = (0..ntasks).filter(|j| *j != i && sim::flip("wake.other", 1, 3)).collect();
                    (me, others)
                })
                .collect()
        })
        .collect();
    sim::log(|| format!("starvation: max_interval {max_interval}; per task and round (self-wake, others woken): {plans:?}"));
    struct W {
        wakers: Vec<Option<Waker>>,
        /// epoch at which the task became hot (woken while not hot), None = cold
        hot_since: Vec<Option<u64>>,
        done: Vec<bool>,
        polls: Vec<u32>,
    }
    struct Hot {
        id: usize,
        plan: Vec<(bool, Vec<usize>)>,
        pos: usize,
        w: Arc<Mutex<W>>,
        epoch: Arc<AtomicU64>,
    }
    impl Future for Hot {
        type Output = ();

        fn poll(mut self: Pin<&mut Self>, cx: &mut Context<'_>) -> Poll<()> {
            let e = self.epoch.load(SeqCst);
            let id = self.id;
            let step = self.plan.get(self.pos).cloned();
            self.pos += 1;
            let mut to_wake: Vec<Waker> = Vec::new();
            {
                let mut w = self.w.lock().unwrap();
                w.polls[id] += 1;
                w.hot_since[id] = None;
                w.wakers[id] = Some(cx.waker().clone());
                match &step {
                    None => {
                        w.done[id] = true;
                        w.wakers[id] = None;
                    }
                    Some((me, others)) => {
                        let mark = |w: &mut W, j: usize| {
                            if !w.done[j] && w.hot_since[j].is_none() {
                                w.hot_since[j] = Some(e);
                            }
                        };
                        if *me {
                            mark(&mut w, id);
                            to_wake.push(cx.waker().clone());
                        }
                        for j in others {
                            if let Some(wk) = w.wakers[*j].clone() {
                                mark(&mut w, *j);
                                to_wake.push(wk);
                            }
                        }
                    }
                }
            }
            for wk in to_wake {
                wk.wake();
            }
            if step.is_none() { Poll::Ready(()) } else { Poll::Pending }
        }
    }
    let ex = Executor::with_config(ExecutorConfig {
        sync_queue_size: 2,
        local_queue_size: 2,
        max_interval,
        waker: None,
    });
    let epoch = Arc::new(AtomicU64::new(0));
    let w = Arc::new(Mutex::new(W {
        wakers: vec![None; ntasks],
        // freshly spawned tasks are runnable
        hot_since: vec![Some(0); ntasks],
        done: vec![false; ntasks],
        polls: vec![0; ntasks],
    }));
    for i in 0..ntasks {
        ex.spawn(Hot {
            id: i,
            plan: plans[i].clone(),
            pos: 0,
            w: w.clone(),
            epoch: epoch.clone(),
        })
        .detach();
    }
    // a hot task is at worst behind every other task once
    let bound = (ntasks as u64).div_ceil(max_interval as u64) + 1;
    let mut ticks = 0u64;
    loop {
        let e = epoch.fetch_add(1, SeqCst) + 1;
        ticks += 1;
        let more = ex.tick();
        {
            let w = w.lock().unwrap();
            for i in 0..ntasks {
                if let Some(since) = w.hot_since[i] {
                    if !w.done[i] && e - since > bound {
                        simcore::violation!(
                            "starved",
                            "task {i} has been runnable since tick {since} and was still not polled after tick {e}; {ntasks} tasks with max_interval {max_interval} allow a wait of at most {bound} ticks (polls so far {:?})",
                            w.polls
                        );
                    }
                }
            }
        }
        if !more {
            break;
        }
        if ticks > 20_000 {
            simcore::violation!("step-bound", "tasks never finish");
        }
    }
    // whoever is still hot when the executor reports nothing hot was forgotten
    let w = w.lock().unwrap();
    for i in 0..ntasks {
        if w.hot_since[i].is_some() && !w.done[i] {
            simcore::violation!("lost-wake", "task {i} was woken but the executor reports no hot task and never polled it (polls {:?})", w.polls);
        }
    }
    Ok(())
}
