#!/bin/sh
# Fidelity check of the simulated kernel: compio's own (pinned) test suite is run with the `io-uring`
# crate replaced by /verif/vendor/io-uring, i.e. on simkernel in benign mode (oldest-first, full
# transfers, no faults, real clock, real waiting). Every test that passes on Linux must pass here.
# Uses a scratch worktree and target dir under /tmp and removes both.
set -e
wt=/tmp/fid-$$
git -C /repo worktree add -q "$wt" HEAD
cp /repo/Cargo.lock "$wt/"
cd "$wt"
CARGO_TARGET_DIR=/tmp/fid-target-$$ CARGO_NET_OFFLINE=true cargo nextest run --workspace --no-fail-fast --test-threads 8 --offline \
  --config 'patch.crates-io.io-uring.path="/verif/vendor/io-uring"' 2>&1 | grep -E "^\s+(FAIL|TIMEOUT|SIG)|Summary" | sort | uniq -c
cd /
git -C /repo worktree remove --force "$wt"
rm -rf /tmp/fid-target-$$
