#!/bin/sh
# usage: revert_check.sh <fix-commit> <PROP> [check args] — sensitivity: temporarily undo one "fix:" commit in /repo, run the check, restore.
c="$1"; prop="$2"; shift 2
git -C /repo status --short | grep -v '^??' | grep . && { echo "/repo not clean"; exit 2; }
git -C /repo diff "$c~1" "$c" > /tmp/revert-$$.diff
git -C /repo apply -R /tmp/revert-$$.diff || { echo "cannot reverse-apply $c"; rm -f /tmp/revert-$$.diff; exit 2; }
cp /verif/evidence/$prop.json /tmp/evidence-$prop.keep 2>/dev/null
cd /verif && ./check "$prop" "$@"; rc=$?
git -C /repo checkout -- .
# the evidence file describes the unchanged tree: put back what was there before
[ -f /tmp/evidence-$prop.keep ] && mv /tmp/evidence-$prop.keep /verif/evidence/$prop.json
rm -f /tmp/revert-$$.diff
echo "check exit code with $c reverted: $rc"
