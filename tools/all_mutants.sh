#!/bin/sh
# usage: all_mutants.sh [ID-prefix]  — run the quick check of its property against every archived seeded change
# (tools/try_mutant.sh each) and write seeded/RESULTS.txt: "<id> <property> caught|MISSED|not-applicable".
cd /verif || exit 2
out=seeded/RESULTS.txt
: > $out.new
for d in seeded/${1:-C}*/; do
  id=$(basename "$d")
  [ -f "$d/meta.json" ] || continue
  prop=$(python3 -c "import json,sys;print(json.load(open('$d/meta.json'))['property'])")
  if ! git -C /repo apply --check "/verif/$d/patch.diff" 2>/dev/null; then
    echo "$id $prop patch-does-not-apply" >> $out.new; continue
  fi
  tools/try_mutant.sh "$d/patch.diff" "$prop" --tier quick > /tmp/all-mutants-last.log 2>&1
  rc=$?
  case $rc in
    1) echo "$id $prop caught" >> $out.new ;;
    0) echo "$id $prop MISSED" >> $out.new ;;
    *) echo "$id $prop harness-exit-$rc" >> $out.new ;;
  esac
  tail -1 $out.new
done
rm -f replays/*.json
mv $out.new $out
cargo build --release --offline -q
