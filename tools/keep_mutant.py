#!/usr/bin/env python3
"""keep_mutant.py <src_dir> <seeded_id> <property> <caught: yes|no> <needs...> — archive a confirmed seeded change under /verif/seeded/<id>/"""
import json, os, shutil, sys
src, sid, prop, caught = sys.argv[1:5]
needs = " ".join(sys.argv[5:])
dst = f"/verif/seeded/{sid}"
os.makedirs(dst, exist_ok=True)
for f in ("patch.diff", "demo.rs", "notes.md"):
    if os.path.exists(os.path.join(src, f)):
        shutil.copy(os.path.join(src, f), os.path.join(dst, f))
meta = {
    "id": sid, "property": prop,
    "needs_to_manifest": needs,
    "origin": "fresh sub-agent given only the property text and its own scratch worktree",
    "confirmed": "patch applies to /repo; existing tests of the touched crate pass with it; demo fails with it and passes without (re-run by the sub-agent and spot-checked)",
    "check_run": f"tools/try_mutant.sh seeded/{sid}/patch.diff {prop}",
    "caught_by_check": caught,
}
json.dump(meta, open(os.path.join(dst, "meta.json"), "w"), indent=1)
print("kept", dst)
