#!/bin/sh
# usage: seed_sweep.sh "<props>" <first_seed> <last_seed>  — the unchanged tree must stay at zero alarms for every seed.
props="$1"; a="$2"; b="$3"
cd "$(dirname "$0")/.."
bad=0
for seed in $(seq "$a" "$b"); do
  for p in $props; do
    out=$(VERIF_SEED=$seed ./check "$p" --tier quick 2>&1); rc=$?
    echo "seed=$seed $p rc=$rc $(echo "$out" | grep -E "^$p " | head -1)"
    if [ $rc -ne 0 ]; then bad=$((bad+1)); echo "$out" | tail -5; fi
  done
done
echo "sweep finished: $bad non-zero exits"
