#!/bin/sh
# usage: confirm_mutant.sh <seeded_id> <crate> [cargo feature args]
# In a scratch worktree: existing tests of the crate pass with the patch; demo fails with it and passes without it.
id="$1"; crate="$2"; shift 2
wt=/tmp/confirm-wt-$$
export CARGO_NET_OFFLINE=true CARGO_TARGET_DIR=/tmp/confirm-target
git -C /repo worktree add -q "$wt" HEAD || exit 2
cp /verif/seeded/$id/demo.rs "$wt/$crate/tests/zz_demo.rs"
echo "--- demo WITHOUT patch (must pass)"
( cd "$wt" && cargo test --offline -p "$crate" "$@" --test zz_demo 2>&1 | grep -E "^test result|error(\[|:)" | head -5 )
git -C "$wt" apply /verif/seeded/$id/patch.diff || { echo "patch does not apply"; }
echo "--- demo WITH patch (must fail)"
( cd "$wt" && cargo test --offline -p "$crate" "$@" --test zz_demo 2>&1 | grep -E "^test result|error(\[|:)" | head -5 )
rm "$wt/$crate/tests/zz_demo.rs"
echo "--- existing tests WITH patch (must pass)"
( cd "$wt" && cargo test --offline -p "$crate" "$@" 2>&1 | grep -E "^test result|error(\[|:)|FAILED" | sort | uniq -c | head -8 )
git -C /repo worktree remove --force "$wt"
