#!/usr/bin/env python3
"""Determinism proof for a check: the same run indices are executed with event
logging on, in fresh processes, split over 1, 3 and 16 workers, twice each; the
order-independent digest over (seed, every decision, signature, every log line)
of all runs must agree.   usage: determinism.py <PROP> [runs] [seed]"""
import json, os, subprocess, sys, tempfile
ROOT = os.path.dirname(os.path.dirname(os.path.abspath(__file__)))
sys.path.insert(0, ROOT)
from props import PROPS
prop = sys.argv[1]
runs = int(sys.argv[2]) if len(sys.argv) > 2 else 4800
seed = sys.argv[3] if len(sys.argv) > 3 else "20260923"
spec = PROPS[prop]
target = os.path.join(ROOT, spec.get("target_dir", "target"))
# every worker binary of the property (a property may be decided on several engines); argv[4] picks one
bins = [spec["bin"]] + [p["bin"] for p in spec.get("more_parts", [])]
if len(sys.argv) > 4:
    bins = [sys.argv[4]]
# the binaries must be those of the current trees (a seeded-change run may have left others behind)
subprocess.run(["cargo", "build", "--release", "--offline", "-q"], cwd="/verif", check=True)
all_ok = True
for bin_name in bins:
  binary = os.path.join(target, "release", bin_name)
  print(f"--- {bin_name}")
  results = []
  if True:
    for jobs in (1, 3, 16, 16, 1):
        chunk = (runs + jobs - 1) // jobs
        tmp = tempfile.mkdtemp()
        procs = []
        for w in range(jobs):
            start = w * chunk
            count = max(0, min(chunk, runs - start))
            out = os.path.join(tmp, f"{w}.json")
            procs.append((subprocess.Popen([binary, "--prop", prop, "--seed", seed, "--start", str(start), "--count", str(count), "--out", out, "--log-all", "--replay-dir", tmp], stderr=subprocess.DEVNULL), out))
        digest, n = 0, 0
        for p, out in procs:
            p.wait()
            o = json.load(open(out))
            digest = (digest + o["digest"]) & 0xFFFFFFFFFFFFFFFF
            n += o["runs"]
        subprocess.run(["rm", "-rf", tmp])
        results.append((jobs, n, digest))
        print(f"jobs={jobs:2d} runs={n} digest={digest:016x}")
    ok = len({(n, d) for _, n, d in results}) == 1
    print("DETERMINISTIC" if ok else "DIVERGENCE")
    all_ok = all_ok and ok
sys.exit(0 if all_ok else 1)
