#!/bin/sh
# usage: try_mutant.sh <patch.diff> <PROP> [extra check args]  — applies a seeded change to /repo, runs the check, always undoes it.
patch="$(readlink -f "$1")"; prop="$2"; shift 2
git -C /repo status --short | grep -v '^??' | grep . && { echo "/repo not clean"; exit 2; }
cp /verif/evidence/$prop.json /tmp/evidence-$prop.keep 2>/dev/null
git -C /repo apply "$patch" || { echo "patch does not apply"; exit 2; }
cd /verif && ./check "$prop" "$@"; rc=$?
git -C /repo checkout -- .
# the evidence file describes the unchanged tree: put back what was there before
[ -f /tmp/evidence-$prop.keep ] && mv /tmp/evidence-$prop.keep /verif/evidence/$prop.json
echo "check exit code with mutant: $rc"
exit $rc
