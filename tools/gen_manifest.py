#!/usr/bin/env python3
"""Regenerates /verif/MANIFEST.json from props.py + not_applicable.json + hooks.json."""
import json, os, sys
ROOT = os.path.dirname(os.path.dirname(os.path.abspath(__file__)))
sys.path.insert(0, ROOT)
from props import PROPS

hooks = json.load(open(os.path.join(ROOT, "tools", "hooks.json")))
na = json.load(open(os.path.join(ROOT, "tools", "not_applicable.json")))
engines = json.load(open(os.path.join(ROOT, "tools", "engines.json")))
claimed = set(PROPS)
checks = []
for pid in sorted(PROPS):
    p = PROPS[pid]
    checks.append({
        "property_id": pid,
        "quick_cmd": f"./check {pid} --tier quick",
        "thorough_cmd": f"./check {pid} --tier thorough",
        "evidence_file": f"/verif/evidence/{pid}.json",
        "replay_cmd_template": f"./check {pid} --replay {{path}}",
        "engine": p["engine"],
        "level_claimed": {"category": "exploration", "text": p["level_text"], "design_ref": p["design_ref"]},
        "level_note": p["level_note"],
        "technique": p["technique"],
    })
for e in engines:
    e["serves_properties"] = sorted(pid for pid in PROPS if PROPS[pid]["engine"] in e.get("_keys", []))
    e.pop("_keys", None)
manifest = {
    "version": 1,
    "setup_cmd": "./setup.sh",
    "hooks": hooks,
    "engines": engines,
    "checks": checks,
    "not_applicable": [x for x in na if x["property_id"] not in claimed],
    "notes": "All checks are deterministic simulations with fault injection (DESIGN.md). `./check <id> --tier quick|thorough`; default VERIF_SEED is fixed so the unchanged tree gives the same verdict every time. Properties listed under not_applicable with reason 'not built yet' are claimed by the design but have no registered check at this commit.",
}
json.dump(manifest, open(os.path.join(ROOT, "MANIFEST.json"), "w"), indent=1)
print("MANIFEST.json:", len(checks), "checks,", len(manifest["not_applicable"]), "not_applicable")
