"""Static per-property metadata used by `check` and `tools/gen_manifest.py`.

Everything *measured* (runs, faults fired, distinct signatures, samples) comes
from the workers; what is here is the description of the method.
"""

S_REAL = ["compio-io (all helper, adapter and framing code)", "compio-buf", "futures-util"]
S_STUB = ["the reader/writer/transport argument (iosim::SimStream / SimFile: in-memory byte queues whose every call consults the decider)",
          "the executor (iosim::run_tasks: single-threaded poll loop; which ready task runs is a decision)"]

S_RULE = ("run i of a batch = scenario picked by splitmix(VERIF_SEED, property, i); one xoshiro256** stream draws the configuration "
          "(swarm: per-endpoint rates of Pending / Interrupted / short transfer / one hard error / Ok(0) write / scatter), the workload "
          "(payloads, buffer shapes, call sequence) and every per-call outcome at the transport seam. A run's signature is the hash of the "
          "sequence of (call kind, outcome kind, size class) seen at the seam plus task-pick decisions; 'distinct' counts different signatures, "
          "'non-trivial' those of runs in which at least one fault fired or the executor had more than one ready task to choose from.")

T_RULE = ("run i = scenario picked by splitmix(VERIF_SEED, property, i); one xoshiro256** stream draws the program (tasks, steps, handle dispositions, thread assignment, queue sizes, max_interval, teardown point), "
          "the run's preemption rate (swarm: 1/2, 1/6, 1/24, 1/100) and then every scheduling decision: at each scheduling point with more than one runnable logical thread, stay (choice 0) or switch to a chosen other thread. "
          "A run's signature is the hash of the sequence of (chosen thread, previous thread) at those points; 'distinct' counts different signatures, 'non-trivial' those of runs with at least one such point.")
T_REAL = ["compio-executor (all of it, with feature `verif`: std atomics preceded by scheduling points)", "crossbeam-queue ArrayQueue, slotmap (atomic between points)", "compio-send-wrapper (vendored: thread identity from the simulator)"]
T_STUB = ["OS threads: logical threads are shuttle coroutines on one OS thread; park/unpark, spawn/join are shuttle's", "the scheduler: simsched::DeciderScheduler"]
T_ASSUME = ["sequentially consistent interleavings only: reorderings allowed by the chosen atomic orderings are not explored",
            "lock-free containers from third-party crates are atomic between two scheduling points",
            "sampling, not enumeration"]

K_RULE = ("run i = scenario picked by splitmix(VERIF_SEED, property, i); one xoshiro256** stream draws the kernel configuration (swarm: rates of reordering, short transfer, lazy completion, EINTR, partial submit, "
          "multishot termination; SQ/CQ entry caps), the runtime configuration (driver: io_uring or polling; ring capacity, buffer pool), the workload program and then every kernel decision inside io_uring_enter (which enabled event happens next, how many bytes, which fault) or, on the polling driver, inside Poller::wait (order of the reported events, when time passes). "
          "A run's signature is the hash of the sequence of (event kind, opcode, result class) chosen by the simulated kernel; 'distinct' counts different signatures, 'non-trivial' those of runs in which a fault fired or more than one event was enabled at some decision.")
K_REAL = ["compio-runtime, compio-driver (io_uring driver and polling driver, feature verif), compio-executor, compio-fs, compio-net, compio-io, compio-buf", "the userspace half of the io-uring crate (ring code, opcode builders)", "the polling crate's epoll backend, asked with zero time-outs only (vendored: its wait loop is replaced)",
          "real kernel objects behind the descriptors (pipes, socketpairs, loopback sockets, files): the simulated kernel performs the real non-blocking system call at the step it chooses"]
K_STUB = ["the kernel side of io_uring (crates/simkernel): SQE consumption, completion timing/order/short counts, CQ overflow, cancellation races, provided-buffer selection, probe", "the clock (clock_gettime interposed; simulated time jumps to the next deadline when idle)",
          "blocking-pool threads: jobs are queued kernel events run inline (virtual pool, hook H1)",
          "the waiting half of Poller::wait (polling driver runs): nothing blocks; when no descriptor is ready simulated time jumps to the caller's deadline or the next environment action"]
K_ASSUME = ["CQEs become visible at io_uring_enter boundaries only (as with DEFER_TASKRUN); SQPOLL, SQE128/CQE32 and linked SQEs are not modelled",
            "the simulated kernel never invents behaviour the kernel cannot show; its fidelity is checked against compio's own test-suite (all 217 tests pass on it in benign mode)",
            "polling-driver runs take readiness from the real epoll instance at the instants the simulator looks: local pipes and sockets become ready synchronously with the peer's system call, so the same choices give the same run",
            "sampling, not enumeration"]

M_RULE = ("run i = scenario picked by splitmix(VERIF_SEED, property, i); one xoshiro256** stream draws the kernel configuration shared by every thread's simulated kernel, the workload program (threads, tasks, modes, join/stop points), 0..4 preemption points (indexes into the run's sequence of scheduling points, over a horizon of 30..30000) and then, at every point where the running thread blocks, yields or is preempted, which of the runnable threads gets the baton (choice 0: the next one in ring order), besides every kernel decision inside each thread's io_uring_enter. "
          "A run's signature hashes the baton hand-overs (from, to) together with each kernel's event sequence; 'distinct' counts different signatures.")
M_STUB = K_STUB[:2] + ["the OS scheduler: threads are real, but a thread only runs while it holds the baton; blocking (futex wait, pthread_join, idle io_uring_enter) hands it on", "blocking-pool threads are real threads of the run (started through hook H1), scheduled like the others"]
M_ASSUME = ["threads interleave only at the intercepted points (guarded hooks in compio-executor/driver, vendored flume locks, kernel entries, futex waits, thread start/end); between two such points a thread runs alone, so data races inside such a stretch and weak-memory effects are not explored",
            "few preemptions per run (0..4, PCT-style) plus all voluntary switches", "both drivers (io_uring on each thread's simulated ring; polling driver with each thread's real epoll instance asked with zero time-outs)",
            "a run that deadlocks ends its worker process (the threads are real); it is reported as a violation whose replay regenerates the run from its seed, unminimised",
            "sampling, not enumeration"]

PROPS = {
    "C11": {
        "title": "I/O helpers are invariant under chunking and transient errors",
        "engine": "S",
        "package": "check-s",
        "bin": "check-s",
        "design_ref": "§3, §7 C11",
        "technique": "deterministic simulation: seeded fault-injecting in-memory reader/writer/file seams under the real compio-io helpers, byte-exact comparison with a reference, choice-sequence minimisation and replay",
        "tiers": {
            "quick": {"runs": 16_000_000, "time_limit_s": 60},
            "thorough": {"runs": 800_000_000, "time_limit_s": 1200},
        },
        "rule": S_RULE,
        "real": S_REAL,
        "stub": S_STUB,
        "assumptions": [
            "the simulated source/sink only shows behaviours a real stream may show: short transfers >= 1 byte, Pending followed by a wake, Interrupted, at most one hard error, Ok(0) on write once, EOF only at the true end",
            "a BufRead::consume(n) call never exceeds what fill_buf returned (caller contract)",
            "BufReader/BufWriter/copy buffer capacities start at 1 (capacity 0 is a degenerate configuration whose meaning the documentation does not fix)",
            "sampling, not enumeration: a clean batch is evidence, not proof",
        ],
        "level_text": ("Seeded exploration of chunk / Pending / Interrupted / hard-error / EOF schedules and buffer shapes for every helper named by the "
                       "property, against a trivial reference. Every run is replayable from its choice sequence; failures are minimised and re-verified in a fresh process."),
        "level_note": "Trusts the reference arithmetic in crates/check-s/src/c11.rs and that iosim's streams stay within what real streams may do. Engine S runs no runtime or driver code.",
    },
    "C12": {
        "title": "Blocking-style and poll-style adapters are lossless FIFO pipes",
        "engine": "S",
        "package": "check-s",
        "bin": "check-s",
        "design_ref": "§3, §7 C12",
        "technique": "deterministic simulation: SyncStream driven by generated call programs and AsyncStream driven by 3-7 simulated tasks (one per poll entry point, feeder, drainer, flusher) over fault-injecting in-memory channels; byte-log equality, limit and lost-wake (deadlock) oracles; choice-sequence minimisation and replay",
        "tiers": {
            "quick": {"runs": 3_000_000, "time_limit_s": 60},
            "thorough": {"runs": 200_000_000, "time_limit_s": 1500},
        },
        "rule": S_RULE,
        "real": S_REAL,
        "stub": S_STUB,
        "assumptions": [
            "one task per poll entry point (poll_read / poll_read_uninit / poll_fill_buf; poll_write+poll_close / poll_flush): a futures-style stream keeps one waker per entry point",
            "inner-stream errors are retryable (Interrupted) or fire at most once (hard error, Ok(0) write) and lose no data, so final byte equality is demanded even after them",
            "a hold-until-flush transport with a full buffer releases it by itself (as a buffered writer does); otherwise a bounded buffering transport would deadlock by construction",
            "sampling, not enumeration",
        ],
        "level_text": ("Seeded exploration of call programs (sync side) and task interleavings (poll side) against transports that are short, pending, interrupted, fail once, "
                       "hold data until flush and exert back-pressure; oracles: accepted-vs-delivered byte logs in both directions (prefix always, equal after flush/at EOF), "
                       "size limits observed at fill_buf/flush, progress after flush/fill, and deadlock = a parked task nobody will wake."),
        "level_note": "Trusts iosim's channel model and the executor's deadlock detection; the write-side buffer size is only observable through the byte count a complete flush reports.",
    },
    "C13": {
        "title": "Framing and ancillary codecs: round-trip and hostile-input safety",
        "engine": "S",
        "package": "check-s",
        "bin": "check-s",
        "share": 7,
        "more_parts": [{"engine": "K", "package": "check-k", "bin": "check-k", "share": 1}],
        "design_ref": "§3, §7 C13, §8, §13.10",
        "technique": "deterministic simulation, two engines. K (ancillary half): control messages built with AncillaryBuilder in buffers that fit exactly, generously or not at all travel with sendmsg through the real socket layer and recvmsg on the simulated io_uring kernel or the polling driver (descriptors over Unix stream pairs with every send / receive flavour of the ancillary traits incl. managed and multishot; traffic class and packet info of one or two messages of different sizes with UDP datagrams over IPv4/IPv6 incl. zero-copy sends), the simulator deciding completion order, short transfers and timing, the receive buffers cutting control data (MSG_CTRUNC); builder-bound, round-trip, decode-slice, exactly-once-descriptor, cut-flag and descriptor-ledger oracles. S (framing half): Framed sink -> fault-injecting duplex channel -> Framed stream as two simulated tasks (all framers, bytes and serde_json codecs), sequence-equality oracle; hostile peer bytes into the reading side with panic / endless-loop / step-bound oracles; choice-sequence minimisation and replay",
        "tiers": {
            "quick": {"runs": 2_000_000, "time_limit_s": 60},
            "thorough": {"runs": 150_000_000, "time_limit_s": 1500},
        },
        "rule": S_RULE + " Engine K runs (an eighth of the workers): " + K_RULE,
        "real": S_REAL + ["bytes", "serde_json", "Engine K part: compio-io ancillary (builder, iterator, buffer, AncillaryData), compio-net UnixStream / UdpSocket message operations, compio-driver SendMsg / RecvMsg operations of both drivers incl. managed and multishot, the Linux socket layer's control-message handling (real sendmsg / recvmsg calls issued by the simulated kernel)"],
        "stub": S_STUB + ["Engine K part: the kernel side of io_uring and the poll wait (crates/simkernel), the clock"],
        "assumptions": [
            "payloads never contain the delimiter (delimiter framers cannot escape it) and fit the length field width",
            "writer-side faults are retryable only (a frame cut by a hard write error cannot be resumed); the reader side may also fail hard once without losing data",
            "ancillary half: message lists are those the scenarios send (SCM_RIGHTS lists of 1..5 descriptors, IP_TOS as byte or int, IPV6_TCLASS, IP(V6)_PKTINFO), not arbitrary ones; AncillaryIter::new is an unsafe function whose contract demands valid control messages, so hostile control buffers are outside the property; Windows code paths are not run",
            "a truncated frame at EOF is dropped silently by design (the stream ends); not flagged",
            "sampling, not enumeration",
        ],
        "level_text": ("Seeded exploration of fragmentation (short reads/writes down to 1 byte, Pending, Interrupted, hold-until-flush transports, back-pressure) between a real Framed sink and a real "
                       "Framed stream for every framer/codec, plus hostile byte strings (huge length fields, split delimiters, truncated headers, malformed JSON) with EOF anywhere. "
                       "Ancillary half: control-message lists built, sent, received (whole or cut) and iterated through real sockets on the simulated kernel: nothing written or read beyond a buffer, "
                       "every message and descriptor arrives once with its content, cut control data is flagged and refused by typed decoding."),
        "level_note": "Framing half on Engine S (trusts iosim's channel model); ancillary half on Engine K through real Unix and UDP sockets (control messages the Linux socket layer accepts; the kernel's own cmsg handling is real).",
    },
    "C15": {
        "title": "TLS and WebSocket layers preserve the stream over any transport behaviour",
        "engine": "S",
        "package": "check-s",
        "bin": "check-s",
        "share": 3,
        "more_parts": [{"engine": "K", "package": "check-k", "bin": "check-k", "share": 1}],
        "design_ref": "§3, §4, §7 C15",
        "technique": "deterministic simulation, two engines. K (WebSocket): the real compio-ws (tungstenite through PollFd readiness) on both ends of a Unix socket pair with small buffers, on the simulated io_uring kernel or the polling driver, which decide when readiness is reported to which side; client and server send generated lists of text/binary messages (0 .. 70 KB, around the 7/16/64-bit length boundaries and the buffer size) while receiving the other's, then close; message-sequence, clean-close and stuck oracles. S (TLS): real compio-tls client and server (rustls and native-tls, all four pairings) as two simulated tasks over compio-io's poll-style adapter over a fault-injecting duplex channel (fragmentation, Pending, back-pressure, hold-until-flush); payload equality, clean-close, deadlock and step-bound oracles; replay by choice sequence (fixed RSA test key so record sizes are constant)",
        "tiers": {
            "quick": {"runs": 160_000, "time_limit_s": 60},
            "thorough": {"runs": 8_000_000, "time_limit_s": 1500},
        },
        "rule": S_RULE + " Engine K runs (a quarter of the workers): " + K_RULE,
        "real": ["compio-ws, tungstenite, async-tungstenite, compio-runtime PollFd (Engine K part)", "compio-tls (adapter, stream, maybe, compat/common, compat/native)", "compio-io compat::AsyncStream / SyncStream", "rustls + futures-rustls", "native-tls + OpenSSL (system library)", "ring"],
        "stub": S_STUB,
        "assumptions": [
            "the transport never reports Interrupted or hard errors to the TLS layer (compio streams do not), only fragmentation, Pending, back-pressure and hold-until-flush",
            "TLS randomness (nonces, key shares) is not seeded; decisions depend on byte counts only, which are constant for the fixed RSA key in /verif/data; a failure must reproduce on replay to be reported",
            "runs with a rustls endpoint keep that endpoint's outbound channel roomy and fault-free until its handshake finished in 7 of 8 runs, because of the listed known finding; the remaining runs exercise (and report) it",
            "WebSocket (compio-ws) is bound to PollFd descriptors: its transport is a real Unix socket pair whose fragmentation comes from small socket buffers and large frames; what the simulator controls there is the timing and order of readiness notifications and the driver",
            "WebSocket over TLS (compio-ws with compio-tls) is not exercised",
            "sampling, not enumeration",
        ],
        "level_text": ("Seeded exploration of transport schedules under real TLS endpoints of both back-ends and both roles: handshake completes, request/response bytes equal, both sides observe a clean close, "
                       "nothing deadlocks or spins."),
        "level_note": "TLS on Engine S trusts iosim's channel model (a lazy transport: progress only when polled, which is harsher than completion-based compio streams). WebSocket on Engine K: both peers are compio-ws.",
    },
    "C04": {
        "title": "Task and join-handle lifecycle",
        "engine": "T",
        "package": "check-t",
        "bin": "check-t",
        "design_ref": "§5, §7 C04",
        "technique": "deterministic simulation: the real compio-executor (hook H4) on shuttle coroutines whose every context switch is drawn from the run's choice sequence; generated programs of spawn / self-wake / cross-thread wake / join / cancel / detach / handle drop / panic / early executor teardown with handle and waker operations on other logical threads; instrumented futures and outputs against per-task plans, quiescence and deadlock oracles; choice-sequence minimisation and replay",
        "tiers": {
            "quick": {"runs": 320_000, "time_limit_s": 60},
            "thorough": {"runs": 60_000_000, "time_limit_s": 1500},
        },
        "rule": T_RULE,
        "real": T_REAL,
        "stub": T_STUB,
        "assumptions": T_ASSUME + [
            "a cancelled task's future may be dropped as late as executor teardown (the property demands exactly-once on the home thread, not promptness)",
        ],
        "level_text": ("Seeded exploration of thread interleavings (sequentially consistent) at every executor atomic, queue access and spin loop, for generated task/handle programs with up to 4 tasks and 6 logical threads. "
                       "Checks: polled only on the home thread and never after Ready / drop / a cancellation that returned before the tick began; future dropped exactly once on the home thread; every output dropped exactly once; join results equal the plan; "
                       "no joiner left waiting at quiescence; bounded starvation with self-waking tasks; use-after-free shows up as a hang (watchdog) or crash."),
        "level_note": "Sequentially consistent interleavings only (no weak-memory reorderings); crossbeam's ArrayQueue and slotmap are treated as atomic between scheduling points; memory errors are only caught when they crash, hang or corrupt the oracles.",
    },
    "C03": {
        "title": "A wake-up from any thread is never lost",
        "engine": "T",
        "package": "check-t",
        "bin": "check-t",
        "design_ref": "§5, §7 C03, §13.9",
        "more_parts": [{"engine": "M", "package": "check-k", "bin": "check-k", "share": 1}],
        "technique": "deterministic simulation: the real compio-executor (hook H4) on shuttle coroutines with decider-driven context switches; 1-3 waker threads deliver concurrent and repeated cross-thread wakes (wake / wake_by_ref / clone) through a 1-2 entry cross-thread queue while the home thread ticks and parks; event-then-wake discipline, completion-by-quiescence and deadlock oracles; second part (Engine M, real threads one at a time): a whole compio runtime on the simulated io_uring kernel, blocked or about to block in its driver, in its own loop (block_on) or driven from outside (run/poll_with, or the foreign-event-loop protocol on the polling driver: run, flush, park on the driver's descriptor until it is readable, poll), with a cross-thread queue of 1, 2 or 64 entries and 0..16 receives on silent sockets in flight (submission queue full when the notifier is armed); 1..3 real waker threads deliver events to 1..4 tasks and to the root future (event first, then the waker, by value or by reference, repeated, from two threads) through the real notifier (AwakeFlag + eventfd into the ring); wake-lost oracle (everything completes without the 10 s guard timer); choice-sequence minimisation and replay",
        "tiers": {
            "quick": {"runs": 110_000, "time_limit_s": 60},
            "thorough": {"runs": 40_000_000, "time_limit_s": 1500},
        },
        "rule": T_RULE,
        "real": T_REAL,
        "stub": T_STUB + ["Engine T part: the runtime's driver (the executor's `waker` is a flag+unpark of the home thread); Engine M part: the OS scheduler (baton), the io_uring kernel, the clock"],
        "assumptions": T_ASSUME,
        "level_text": ("Seeded exploration of interleavings between waking threads and the home thread's tick / park sequence: after the event a task waits for has happened and its waker was invoked, the task is polled again "
                       "(otherwise it cannot complete and the run ends in `not-completed`, `join-never-resolved` or a deadlock); a full cross-thread queue makes the waker wait, not discard."),
        "level_note": "Layer 1 (executor) on Engine T; layers 2 and 3 (notifier protocol, own loop and external loop) on Engine M. Sequentially consistent interleavings only.",
    },
    "C17": {
        "title": "The blocking pool is bounded and loses nothing",
        "engine": "T",
        "package": "check-t",
        "bin": "check-t",
        "design_ref": "§5, §7 C17",
        "more_parts": [{"engine": "K", "package": "check-k", "bin": "check-k", "share": 1}],
        "technique": "deterministic simulation: the real AsyncifyPool (hook H1) with the real flume rendezvous channel (vendored, sim-aware locks/park/clock) on shuttle coroutines whose context switches and idle time-outs (simulated clock thread) are drawn from the run's choice sequence; 1-3 dispatching threads sharing one pool; per-job run counters, concurrency gauge against the limit, reject-and-retry and post-idle-job oracles; second part (Engine K): jobs submitted through the real runtime and driver (io_uring or polling) on the simulated kernel, with lanes that keep the event loop busy (a descriptor event in every turn for a millisecond and more, other completions): every job's own result reaches its submitter within 300 µs of simulated time after the job ran; choice-sequence minimisation and replay",
        "tiers": {
            "quick": {"runs": 60_000, "time_limit_s": 60},
            "thorough": {"runs": 30_000_000, "time_limit_s": 1500},
        },
        "rule": T_RULE,
        "real": ["compio-driver::asyncify (AsyncifyPool, worker loop, DispatchError) with feature `verif`", "flume 0.12 bounded(0) channel (vendored: chan lock = try-lock + yield inside a simulation, SyncSignal park/unpark and Instant from the simulator)"],
        "stub": T_STUB + ["time: a clock thread advances simulated time to the earliest pending time-out whenever the scheduler runs it"],
        "assumptions": T_ASSUME + [
            "a job's blocking work is modelled as 0-6 scheduling points; job panics are not injected at pool level (a panicking pool thread fails the whole shuttle execution; the driver wraps jobs in catch_unwind, which belongs to the K+T variant)",
            "an idle time-out may fire at any scheduling decision once it is pending (no lower bound on how slowly other threads run)",
        ],
        "level_text": ("Seeded exploration of interleavings between dispatching threads, pool workers and idle time-outs for limits 1-3: every accepted job starts and finishes exactly once, jobs running at once never exceed the limit, "
                       "a rejected job comes back intact and runs when retried, a job dispatched after the workers retired still runs, nothing hangs."),
        "level_note": "Sequentially consistent interleavings only. 'Pool threads running jobs at once' is observed through the jobs themselves (a gauge incremented at job start), not through thread counts.",
    },
    "C06": {
        "title": "Shared descriptors are closed exactly once, only after the last use",
        "engine": "T",
        "package": "check-t",
        "bin": "check-t",
        "share": 1,
        "more_parts": [{"engine": "K", "package": "check-k", "bin": "check-k", "share": 1}],
        "design_ref": "§5, §4, §7 C06",
        "technique": "deterministic simulation, two engines. T: the real SharedFd (feature sync, hook H6) shared by 1-3 holder threads and one or two awaiting take() calls on shuttle coroutines with decider-driven context switches; instrumented owned descriptor (close counter, in-use probe), hang classification at quiescence, deadlock and pending-as-sole-owner oracles. K: the abandon/teardown scenario of C01 on the simulated io_uring kernel and the polling driver (accept, open, socket and pipe producing descriptors while drop / token / timeout cancellation or the drop of the whole runtime lands around their completion; explicit close().await of files and accepted sockets; close() interposed to catch a descriptor closed under a pending operation; descriptor table compared before and after). Choice-sequence minimisation and replay in both",
        "tiers": {
            "quick": {"runs": 200_000, "time_limit_s": 60},
            "thorough": {"runs": 30_000_000, "time_limit_s": 1500},
        },
        "rule": T_RULE + " Engine K runs (half of the workers): " + K_RULE,
        "real": ["compio-driver::fd (SharedFd::new/clone/drop/take/try_unwrap) with features `sync` and `verif`", "synchrony sync::{shared::Shared = Arc, atomic, waker_slot = futures AtomicWaker} (unmodified; atomic between hook points)"] + K_REAL,
        "stub": T_STUB + K_STUB,
        "assumptions": T_ASSUME + [
            "scheduling points sit at the hook sites inside SharedFd::take and SharedFd::drop (before the count check, before the wake, and between the wake and the implicit release of the reference); Arc clone/drop elsewhere are atomic",
            "the cross-thread handle half is decided on Engine T, 'never closed while an operation is in flight' and 'descriptors produced by operations are delivered or closed' on Engine K (see C01's assumptions for its ledger)",
        ] + K_ASSUME,
        "level_text": ("Seeded exploration of interleavings of clone / drop on holder threads with a take().await (and a competing second take()): the owned descriptor is dropped exactly once, not before every other handle has begun to let go, "
                       "take() resolves once the last other handle is gone (a wait that can never end is reported with the facts that identify it), a losing take() yields None. On Engine K: no descriptor is closed while an operation on it is pending in the ring, "
                       "and after programs that cancel or tear down accept / open / socket / pipe operations around their completion the descriptor table is back to what it was."),
        "level_note": "Two open known findings: the wake precedes the release in SharedFd::drop (T); a Close request still unsubmitted or queued when the runtime is dropped never runs (K).",
    },
    "C14": {
        "title": "Socket transports deliver exactly what was sent",
        "engine": "K",
        "package": "check-k",
        "bin": "check-k",
        "design_ref": "§4, §7 C14",
        "technique": "deterministic simulation: the real compio runtime, driver, fs and net crates on an in-process simulated io_uring kernel (vendored io-uring crate -> simkernel) that decides completion order, short transfers, SQ/CQ sizes down to 1-2 entries, CQ overflow, lazily discovered completions, interrupted waits, partial submission and multishot termination; concurrent reader and writer tasks per channel using every read/write flavour; byte-stream equality and end-of-stream oracles; choice-sequence minimisation and replay",
        "tiers": {
            "quick": {"runs": 160_000, "time_limit_s": 60},
            "thorough": {"runs": 20_000_000, "time_limit_s": 1500},
        },
        "rule": K_RULE,
        "real": K_REAL,
        "stub": K_STUB,
        "assumptions": K_ASSUME + [
            "loopback TCP: a connection reaches the accept queue a moment after connect() returns; the harness waits for it (tcpi_unacked of the listener) before going on, and tells TCP clients apart by source port, so that no run depends on softirq timing",
            "a multishot read stream is consumed until it ends by itself; dropping it early discards data the kernel already took off the socket (inherent to multishot receive), which this check does not count as loss",
            "a managed/multishot read that reports pool exhaustion (ResourceBusy) is retried",
        ],
        "level_text": ("Seeded exploration of kernel behaviours under 1-3 concurrent channels (pipe / Unix stream / loopback TCP) with write, write_vectored, zero-copy write against read, read_vectored, managed read and multishot read: "
                       "the receiver's byte sequence equals the sender's and is followed by end of stream after shutdown; submitted buffers come back identical; nothing is left pending; no ring leaks."),
        "level_note": "Three scenarios: streams (every read/write flavour, split halves, shutdown), datagrams (UDP: every send and receive flavour incl. vectored, msg, msg-vectored, managed, msg-managed and the three multishot streams; truncation to the buffer, source address, MSG_TRUNC flag; a datagram may be lost with a stream dropped early, never duplicated, reordered or altered) and accepts (TCP and Unix listeners, single accepts or one multishot stream: every client is accepted exactly once). Unix datagram sockets are not exercised. The simulated kernel's fidelity is checked by running compio's own 217 tests on it (tools/fidelity.sh): all pass.",
    },
    "C01": {
        "title": "In-flight operations keep their memory and descriptors alive",
        "engine": "K",
        "package": "check-k",
        "bin": "check-k",
        "design_ref": "§4, §7 C01",
        "technique": "deterministic simulation with fault injection and a memory/descriptor ledger: the real runtime and drivers on the simulated io_uring kernel; generated actors start receive / vectored receive / pipe read / multishot and managed receive / zero-copy send / accept / a listener's incoming() stream dropped with connections queued / positional file I/O / open / blocking-pool operations with instrumented buffers and abandon them by a generated route (task drop, cancel token, timeout, nothing) at a generated instant while the awaited event comes at a generated instant or never, and the whole runtime may be dropped at a generated instant with everything in flight; the simulated kernel registers with the process's allocator every user memory range a pending operation may still touch (and the provided-buffer ring), so a free or move of such memory is reported when it happens, freed blocks are quarantined and checksummed (write-after-free), close() is interposed (descriptor closed under a pending operation), the descriptor table is compared before/after, instrumented buffers count their drops, and a zero-copy send's buffer may come back only after the kernel's notification; choice-sequence minimisation and replay; process crashes reported with a from-seed replay",
        "tiers": {
            "quick": {"runs": 250_000, "time_limit_s": 60},
            "thorough": {"runs": 60_000_000, "time_limit_s": 1500},
        },
        "rule": K_RULE,
        "real": K_REAL,
        "stub": K_STUB,
        "assumptions": K_ASSUME + [
            "memory the kernel copies when it consumes the SQE (iovec arrays, paths, socket addresses of connect/bind, time specs) is not watched; data buffers, receive message headers with their name/control buffers, accept address buffers, statx buffers, pipe descriptor pairs and the provided-buffer ring are",
            "a watch ends when the final completion of the operation is posted (for zero-copy sends: the notification) or when its ring is closed",
            "the descriptor ledger compares /proc/self/fd before and after the run; instrumented buffers are Vec-backed and must be dropped exactly once by the time the runtime is gone",
            "blocking-pool jobs run inline (virtual pool); jobs still queued when the runtime is dropped run afterwards, as pool threads would",
            "on polling-driver runs only the descriptor, buffer-drop and write-after-free oracles apply (nothing is pending in a kernel ring)",
        ],
        "level_text": ("Seeded exploration of abandon/teardown programs: no memory range of a pending operation is freed or moved before its final completion or the closing of its ring, no descriptor is closed under a pending operation, no freed block is written to, "
                       "every descriptor opened by the program or produced by an operation is closed by the time the runtime is gone, every buffer handed to an operation is dropped exactly once, and a zero-copy send returns its buffer only after the notification."),
        "level_note": "Also run under C06 for the descriptor half. Connect is not among the actors; the control data of a pending sendmsg is watched like any buffer (exercised by the C13 socket scenarios, where the operations run to completion).",
    },
    "C02": {
        "title": "Every operation completes exactly once, with its own result",
        "engine": "K",
        "package": "check-k",
        "bin": "check-k",
        "design_ref": "§4, §7 C02",
        "technique": "deterministic simulation with fault injection and a kernel-side ledger: the real runtime and drivers on the simulated io_uring kernel; generated lanes run side by side (concurrent reads on one pipe or Unix socket, concurrent writes on one Unix socket, positional reads/writes on disjoint regions of one file, concurrent metadata calls on files of different lengths, blocking-pool jobs, two descriptors of one socket with a read each, a multishot read with a pausing consumer, a hand-over of a pending read to another task, a lane producing a descriptor event in every turn of the loop) while the peers' data arrives at generated instants and the kernel decides which pending operation completes when, out of order, with short counts, through submission/completion queues of 1..16 entries (overflow, bursts, lazy discovery, interrupted waits, partial submits); the simulated kernel records for every completion the buffer address, result, a digest of the bytes it moved, its position in the completion order and its time; oracles: one outcome per operation, each outcome equals the ledger's entry for the operation that carried that buffer (count, bytes, buffer identity), bytes per descriptor in kernel completion order are the peer's stream, every lane ends, and an operation finished by the kernel is observed by the program within 300 µs of simulated time; choice-sequence minimisation and replay",
        "tiers": {
            "quick": {"runs": 400_000, "time_limit_s": 60},
            "thorough": {"runs": 100_000_000, "time_limit_s": 1500},
        },
        "rule": K_RULE,
        "real": K_REAL,
        "stub": K_STUB,
        "assumptions": K_ASSUME + [
            "buffer addresses identify operations within a run: freed memory is quarantined for the whole run, so no address is reused",
            "on polling-driver runs there is no kernel ledger: the bytes of the operations queued on one descriptor, in the order the program observed their completions, must be the peer's stream (the driver serves them first come, first served); the identity, region and job-value oracles apply as well",
            "multishot and managed operations are covered by C07 and C14, timers by C09",
        ],
        "level_text": ("Seeded exploration of mixes of concurrently pending operations under adversarial completion orders and 1-2 entry queues: no outcome is swapped between operations, duplicated or invented, every buffer comes back to the operation that submitted it with the bytes the kernel moved for it, "
                       "nothing finished by the kernel is left undelivered or unobserved, and blocking jobs and metadata calls return their own values."),
        "level_note": "The C14 stream scenario adds every read/write flavour on byte streams; the C01 scenario adds abandoned operations.",
    },
    "C05": {
        "title": "Cancellation is prompt, honest and local",
        "engine": "K",
        "package": "check-k",
        "bin": "check-k",
        "design_ref": "§4, §7 C05",
        "technique": "deterministic simulation with fault injection: the real compio runtime, cancel tokens, ext wakers and io_uring driver on the simulated io_uring kernel and clock; generated sets of never-ready operations (recv on silent Unix sockets incl. several on one descriptor, pipe reads, accepts, multishot receives, readiness waits), bare or wrapped in another combinator, each cancelled by a generated route (task drop, token, token fired before registration, fail-fast token, timeout, or the issuing task itself firing the token after polling the operation once) at a generated instant, neighbours that must still get their own data, data racing with the cancel or arriving at its very instant (cancel after completion must be harmless); kernel faults (tiny submission/completion rings, lazy and reordered completions, early EINTR returns, partial submits); promptness, honesty, locality, quiescence (nothing left pending in the kernel) and blocked-forever oracles; choice-sequence minimisation and replay",
        "tiers": {
            "quick": {"runs": 400_000, "time_limit_s": 60},
            "thorough": {"runs": 100_000_000, "time_limit_s": 1500},
        },
        "rule": K_RULE,
        "real": K_REAL,
        "stub": K_STUB,
        "assumptions": K_ASSUME + [
            "prompt = finished within 300 µs of simulated time after the cancellation instant (the loop needs a few enters to submit the AsyncCancel and see both completions)",
            "a multishot stream under a fired token ends (None) instead of yielding a cancellation error; that is accepted as the cancelled outcome",
            "on a shared descriptor at most one receiver expects data, and cancelled receivers there never race with data (bytes go to the oldest pending receive)",
        ],
        "level_text": ("Seeded exploration of cancellation programs on the real runtime and both drivers over the simulated kernel: every cancelled victim finishes within the slack of its cancellation instant although its event never comes, "
                       "with a cancellation error, Elapsed, or its genuine data (checked against what its peer wrote and when); no victim reports cancellation before anybody cancelled; neighbours (also on the same descriptor) finish with exactly their own data at their own time; "
                       "after all tasks ended no operation is left pending in the kernel and the runtime never blocks in io_uring_enter with nothing that could wake it."),
        "level_note": "Covers drop / token / late token / fail-fast / timeout routes against UnixStream recv, pipe read, TcpListener accept and read_multi. Both drivers. Connect and poll-fd victims are not covered.",
    },
    "C07": {
        "title": "Managed buffer pool: exclusive ownership and conservation",
        "engine": "K",
        "package": "check-k",
        "bin": "check-k",
        "design_ref": "§4, §7 C07",
        "technique": "deterministic simulation with fault injection: the real runtime, drivers and buffer pool (io_uring provided-buffer ring on the simulated kernel, fallback pool on the polling driver); generated readers on pipes, Unix and TCP streams, UDP sockets and files run programs of managed reads, multishot streams dropped after a generated number of items and managed reads abandoned by drop / token / timeout around the arrival of their data, holding every buffer they get for a generated time; now and then a managed read is left pending when the runtime is dropped; the pool's memory comes from a counting allocator; pool sizes 1..16, buffer lengths 8..64; kernel faults (reordered, lazy and interrupted completions, tiny rings, CQ overflow, multishot termination, short transfers); oracles: live handles never overlap, held bytes never change, the simulated kernel never selects a buffer the program holds, received bytes are the next unread part of the peer's stream, after everything was released exactly pool-size buffers are obtainable and one more managed read and a multishot stream each report the exhausted pool within 20 ms, and every pool buffer is handed back to the allocator exactly once when pool, driver and runtime are gone; choice-sequence minimisation and replay",
        "tiers": {
            "quick": {"runs": 300_000, "time_limit_s": 60},
            "thorough": {"runs": 60_000_000, "time_limit_s": 1500},
        },
        "rule": K_RULE,
        "real": K_REAL,
        "stub": K_STUB,
        "assumptions": K_ASSUME + [
            "what a read abandoned in flight, or a multishot stream dropped early, had already taken off the channel may be lost with it: later buffers may start further on in the peer's stream, never earlier and never overlapping",
            "the conservation probe runs when nothing is held and nothing is pending (on the fallback pool a pending managed read owns a buffer)",
            "RecvMsg/RecvFrom managed variants and control data are not exercised",
        ],
        "level_text": ("Seeded exploration of managed/multishot read programs with arbitrary hold times, cancellations and stream drops on both pool implementations: two live buffer handles never overlap, a held buffer is never written or selected by the kernel, "
                       "data arrives in order without duplication, every buffer comes back (the pool never shrinks or grows), and exhaustion is reported as an error, not a hang."),
        "level_note": "Pool sizes 1, 2, 4, 8, 16 (the builder rounds to powers of two).",
    },
    "C08": {
        "title": "File and pipe I/O matches the OS, identically on every driver",
        "engine": "K",
        "package": "check-k",
        "bin": "check-k",
        "design_ref": "§4, §7 C08",
        "technique": "deterministic simulation with a reference model: generated programs of file and directory operations (by path, by file handle and relative to directory handles: Dir with the openat / mkdirat / renameat / linkat / symlinkat / unlinkat / statx family, two-name operations across two handles) run through compio-fs on the driver drawn for the run (io_uring on the simulated ring; io_uring with a generated subset of the optional file opcodes reported as unsupported, so that fallback entries and the blocking pool are used; the polling driver, where file operations go to the pool) and, operation by operation, through the OS's synchronous calls (std::fs / pread / pwritev ...) on a twin tree; results (counts, bytes, buffer shape, errno, metadata incl. time stamps against the OS's view of the same object) compared after every step, the two trees compared at the end; several tasks on their own sub-trees keep operations of different kinds in flight; kernel faults (tiny rings, lazy/reordered completions, partial submits); choice-sequence minimisation and replay; a run that kills its process is reported with a replay that regenerates it from its seed",
        "tiers": {
            "quick": {"runs": 120_000, "time_limit_s": 60},
            "thorough": {"runs": 30_000_000, "time_limit_s": 1500},
        },
        "rule": K_RULE,
        "real": K_REAL + ["the file system (tmpfs/ext4 under the temporary directory) through real system calls on both sides"],
        "stub": K_STUB,
        "assumptions": K_ASSUME + [
            "the reference is the same kernel's synchronous call on a twin file created by the same sequence of operations; regular files never see short transfers here (the simulated kernel shortens stream transfers only)",
            "errors are compared by errno; errors std raises before any system call (invalid open options) are compared by kind",
            "only opcodes outside the io_uring driver's required basic set (read, write, readv, writev, fsync...) are ever reported unsupported: without the basic set compio chooses the polling driver",
            "whole-file reads of sparse multi-gigabyte files are skipped; their content is compared through their data extents",
            "pipes are covered by C14's stream scenario, not here",
        ],
        "level_text": ("Seeded exploration of file/directory programs: open options (read/write/create/create_new/truncate/append), positional reads and writes in every buffer shape (exact, spare capacity, pre-initialised prefix, sub-slice, boxed, vectored with empty segments, managed), offsets 0 .. beyond 8 GiB, lengths 0 .. pages, set_len, sync, metadata, permissions, "
                       "path utilities (write, read, rename, remove, create_dir(_all), remove_dir, hard_link, symlink, metadata, symlink_metadata). After every operation compio's result equals the OS call's; at the end the tree written through compio is identical to the twin; identical on io_uring, io_uring with fallbacks, and polling."),
        "level_note": "Path, handle and directory-handle (Dir) operations; time stamps (modified, accessed, created) are compared with the OS's view of the same object. Named pipes, stdio, set_times and remove_dir_all are not exercised.",
    },
    "C09": {
        "title": "Timers never fire early and always fire",
        "engine": "K",
        "package": "check-k",
        "bin": "check-k",
        "design_ref": "§4, §7 C09",
        "technique": "deterministic simulation with a discrete-event clock: the real compio runtime timer wheel and driver on the simulated io_uring kernel; clock_gettime is interposed, an idle io_uring_enter jumps simulated time to the nearest deadline it was given; generated sets of sleeps, past deadlines, timeouts around sleeps, dropped sleeps, timers polled in one task and awaited in another, intervals (also starting in the future with the first tick abandoned) and I/O, with kernel faults (early EINTR returns, lazy completions, tiny rings); earliness, lateness, timeout-side, drift and leftover-timer oracles; choice-sequence minimisation and replay",
        "tiers": {
            "quick": {"runs": 6_000_000, "time_limit_s": 60},
            "thorough": {"runs": 200_000_000, "time_limit_s": 1500},
        },
        "rule": K_RULE,
        "real": K_REAL,
        "stub": K_STUB,
        "assumptions": K_ASSUME + [
            "time advances only by 1 µs per io_uring_enter and by jumps to the deadline passed to a waiting enter; a completion observed more than 200 µs after its deadline counts as late (the loop needs a few enters to notice and poll)",
            "timeout(): when inner and outer deadlines are within the slack of each other either side is accepted",
        ],
        "level_text": ("Seeded exploration of deadline sets (0, 1 ns, sub-µs, µs, ms, equal and ±1 ns, seconds, hours), creation/drop orders and interleavings with I/O and kernel faults: no timer completes before its deadline on the simulated clock, "
                       "every timer completes within the slack after it (an idle runtime that sleeps past the nearest deadline shows up as lateness), timeout() returns the side that finished first, interval ticks stay on start + k * period, "
                       "and after the last timer nothing is left in the wheel (Runtime::current_timeout() is None)."),
        "level_note": "Hours of simulated time cost microseconds. Trusts the interposed clock (std::time::Instant follows it) and the slack constant.",
    },
    "C16": {
        "title": "QUIC streams and datagrams: ordered, exactly-once, never stranded",
        "engine": "K",
        "package": "check-k",
        "bin": "check-k",
        "design_ref": "§4, §7 C16, §13.8",
        "technique": "deterministic simulation with fault injection: a client and a server endpoint of the real compio-quic (quinn-proto, rustls) with real UDP sockets on loopback in one runtime on the simulated io_uring kernel or the polling driver; the simulator decides order and timing of the UDP completions and, as the network between the sockets, loses and duplicates datagrams; loss detection, idle time-outs and draining run on the simulated clock; the endpoints' random bytes (connection ids, TLS key shares, packet-number skips) come from a stream derived from the run's seed (vendored getrandom); generated uni/bidirectional streams with payloads 0..80 KB written and read in generated chunks with reader pacing, generated connection/stream windows (down to 1.5 KB) and stream-count limits (down to 1), unreliable datagrams both ways, and a generated close point (end, client closes, server closes the connection or its endpoint while operations are pending); stream-content, end-of-stream, datagram (one sent, at most once) and stranded (every pending operation resolves within 40 s of simulated time after a close) oracles; choice-sequence minimisation and replay",
        "tiers": {
            "quick": {"runs": 100_000, "time_limit_s": 60},
            "thorough": {"runs": 30_000_000, "time_limit_s": 1500},
        },
        "rule": K_RULE,
        "real": K_REAL + ["compio-quic, quinn-proto, rustls + ring (with seeded entropy)"],
        "stub": K_STUB + ["the network between the two UDP sockets: loss and duplication of datagrams sent through sendmsg (reordering only through completion order; no delay beyond what the simulator's completion timing gives)", "the operating system's entropy source during a run"],
        "assumptions": K_ASSUME + [
            "both endpoints are compio-quic in one runtime; interoperability with other QUIC stacks is not examined",
            "std HashMap iteration orders inside quinn-proto are not controlled; the determinism tool shows no divergence",
            "unreliable datagrams may be lost; a received one must be one that was sent and must not repeat",
            "0-RTT, connection migration, key update and h3 are not exercised",
        ],
        "level_text": ("Seeded exploration of stream/datagram programs over a lossy, duplicating, reordering simulated network and small flow-control windows: per stream the server reads exactly the client's bytes and then end of stream, the echo equals what was written, streams and datagrams do not interfere, "
                       "a slow reader only delays; closing a connection or an endpoint with operations pending makes every one of them resolve within a bound of simulated time."),
        "level_note": "Hours of simulated protocol time cost milliseconds.",
    },
    "C18": {
        "title": "The dispatcher starts every accepted task exactly once",
        "engine": "M",
        "package": "check-k",
        "bin": "check-k",
        "design_ref": "§7 C18, §13.9",
        "technique": "deterministic simulation of real OS threads under a baton scheduler: the real compio-dispatcher with 1..3 worker threads (each a real thread with its own compio runtime on its own simulated io_uring kernel) plus the main thread and up to two further dispatching threads; thread creation (pthread_create), futex waits of std's locks/condvars/park (syscall), pthread_join and idle waits in a thread's simulated kernel are intercepted so that exactly one thread executes at any time; which thread runs next, and a generated small number of preemptions at the scheduling points of compio's guarded hooks and of the vendored channel, are drawn from the run's seed; cross-thread wake-ups travel through the real eventfd notifier into the other thread's simulated ring; one global simulated clock (jumps when every thread is idle); generated task sets (immediate, yielding, sleeping, pipe I/O, nested local task), concurrent or sequential mode, generated await-before-join subsets; exactly-once, own-result, overlap, unfinished-at-join, ran-after-join and receiver-hangs oracles; kernel faults (EINTR, partial submit, short transfers, reordering) per thread; choice-sequence minimisation and replay; a deadlock of all threads ends the process and is reported with a from-seed replay",
        "tiers": {
            "quick": {"runs": 100_000, "time_limit_s": 60},
            "thorough": {"runs": 30_000_000, "time_limit_s": 1500},
        },
        "rule": M_RULE,
        "real": K_REAL + ["compio-dispatcher; flume (vendored: its locks yield to the scheduler), futures-channel oneshot", "real OS threads (std::thread), std's Mutex/Condvar/park (their futex waits end when the futex word changed), the real eventfd of each driver's notifier"],
        "stub": M_STUB,
        "assumptions": M_ASSUME,
        "level_text": ("Seeded exploration of thread interleavings of the real dispatcher (worker runtimes, dispatching threads, join): every accepted closure is entered at most once and, when its result is awaited before the join, exactly once with its own value arriving; "
                       "in sequential mode no worker overlaps two tasks and all accepted tasks have finished when join returns; after join no task code runs, every receiver is resolved or cancelled, all worker threads have ended."),
        "level_note": "Interleavings are those expressible at the intercepted points (hooks, channel operations, kernel entries, futex waits); memory-model effects below sequential consistency are out of reach.",
    },
    "C19": {
        "title": "Actors: serial FIFO handling, ordered lifecycle, unique names",
        "engine": "M",
        "package": "check-k",
        "bin": "check-k",
        "design_ref": "§7 C19, §13.9",
        "technique": "deterministic simulation of real OS threads under a baton scheduler (as C18): the real compio-actor on the real compio-dispatcher (1..2 worker threads with their own runtimes on their own simulated kernels), the main task and up to two client threads sending, calling, stopping and looking up concurrently; 1..3 recording actors (named or not, mailbox capacity 1..3 or default, one possibly failing in pre_start) whose handlers yield, sleep, fail, stop their own actor, reply to a call or drop it; thread interleaving (voluntary switches plus 0..4 generated preemptions), kernel faults and simulated time are drawn from the run's seed; oracles over the recorded history: hook order and uniqueness, no overlapping handlers, at most once, only accepted messages, per-sender gap-free FIFO prefix, everything handled when nobody stopped the actor (barrier call), call returns reply or explicit error within 5 s of simulated time, exit value, name resolves to the live actor only / refuses a second spawn / is free after exit or failed start; second scenario: a process group over 2..3 members with small mailboxes used from several threads while members are stopped, fail or leave (handled by at most one member, by none when handed back, by exactly one when undisturbed, never Closed while an untouched member is joined) and a recording supervisor (started once, then exactly one matching end notice per child); choice-sequence minimisation and replay",
        "tiers": {
            "quick": {"runs": 100_000, "time_limit_s": 60},
            "thorough": {"runs": 30_000_000, "time_limit_s": 1500},
        },
        "rule": M_RULE,
        "real": K_REAL + ["compio-actor, compio-dispatcher; flume (vendored: its locks yield to the scheduler), futures-channel oneshot", "real OS threads (std::thread), std's Mutex (registry, process-group and cluster locks; their futex waits end when the futex word changed), the real eventfd of each driver's notifier"],
        "stub": M_STUB,
        "assumptions": M_ASSUME + ["process groups are exercised with the round-robin strategy (the only one), supervisors as passive recorders (a supervisor that restarts children is not generated)"],
        "level_text": ("Seeded exploration of thread interleavings of actor programs (spawn named/unnamed with small capacities, send, call, stop, failing handlers, self-stop, lookups from several threads): messages are handled one at a time, at most once, per sender in acceptance order without gaps, all of them when the actor was not stopped; "
                       "hooks run once in the documented order; calls return a reply or an explicit error and never hang once the actor is gone; names map to the live actor only and are reusable after exit or failed start."),
        "level_note": "Acceptance order across different senders is not observable from outside and is not judged.",
    },
    "C20": {
        "title": "Child processes: complete stdio and the real exit status",
        "engine": "K",
        "package": "check-k",
        "bin": "check-k",
        "design_ref": "§4, §7 C20, §13.7",
        "technique": "deterministic simulation with a scripted external process: the real compio-process, runtime and drivers (io_uring on the simulated ring, or polling) against a real child process (`kchild`) that does nothing on its own: every action (write N bytes to stdout/stderr without blocking, read what is available on stdin, close a stream, exit with a code, die from a signal) is an environment action of the run, sent over an inherited control socket and acknowledged before the action returns, so the child's visible behaviour is part of the choice sequence; volumes up to 200 KB (beyond the pipe capacity, so the child stalls until the parent reads), generated read/write chunk sizes 1..100000, both directions active at once, wait() at a generated instant or wait_with_output(); the child ends at a generated instant or, like most real ones, only when it has got rid of all its output (those runs are multi-threaded runs, Engine M: the wait job on a pool thread of its own); waitpid() is interposed so that the blocking wait job lets the environment go on; transcript and exit-status oracles; kernel faults as in the other Engine K checks; choice-sequence minimisation and replay; hangs reported through the watchdog with a from-seed replay",
        "tiers": {
            "quick": {"runs": 100_000, "time_limit_s": 60},
            "thorough": {"runs": 30_000_000, "time_limit_s": 1500},
        },
        "rule": K_RULE,
        "real": K_REAL + ["compio-process", "a real child process and real pipes; the child's actions are commanded and acknowledged one by one"],
        "stub": K_STUB + ["the child's own pace: it only ever acts on command", "waitpid (interposed: while the inline wait job 'blocks', environment actions go on and time passes up to each)"],
        "assumptions": K_ASSUME + [
            "after the exit command the harness waits (waitid WNOWAIT) until the child is a zombie, so what the parent observes does not depend on how fast the OS tears the process down",
            "the pidfd path of compio-process needs a nightly toolchain feature and is not built; wait goes through the blocking pool as on stable",
            "the blocking wait job runs inline: while it waits, the parent's other tasks do not run, the environment does; when the simulator starts the job is its choice",
            "stdin: what the child read must be a prefix of what the parent's writes reported as accepted (the child may end before reading everything)",
        ],
        "level_text": ("Seeded exploration of child-process programs: the bytes the parent reads from the child's stdout and stderr are exactly, and in order, what the child reports having written (also when the pipes fill and the child stalls); what the child reads from stdin is what the parent wrote; "
                       "wait yields the commanded exit code or signal, once, and not before the child was told to end; on both drivers."),
        "level_note": "kill(), process groups, environment and working directory plumbing are not exercised.",
    },
}
